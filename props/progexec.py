"""Program-level symbolic execution over the ISA contracts.

The closures of the simulators are proved equal to contracts/z80spec.Step (C05);
here short machine-code programs with *concrete opcode bytes* and *symbolic
registers* are executed by applying z80spec.Step instruction by instruction,
forking on data-dependent jumps.  Used for the tape-sampling-loop accelerator
table (C13).  For every entry of loadsample.ACCELERATORS, with

  s          the CPU state at the loop's IN instruction,
  cond(s)    what LoadTracer._read_port itself checks before fast-forwarding
             (EAR register bit vs edge parity, IFF == 0, counter not at its limit,
             port low byte 0xFE),
  iter(s)    the state after one real trip round the loop, IN back to IN,
  pred(s)    s with counter +-1, F := INC/DEC flags (carry clear), R += loop_r_inc,
             T += loop_time - what one fast-forwarded iteration writes,
  D          a set of state components *dead at IN*: registers and single F bits whose
             value at IN cannot influence any later path condition, register,
             or memory write on any path from IN (checked semantically, with no
             assumption on the state or the port value: a non-interference query per
             component and path),

the obligations are

  O2  cond(s) [and inv(s)]  =>  every way out of the loop is infeasible, exactly one
      path returns to IN, it writes no memory, the EAR register is unchanged,
      and iter(s) == pred(s) on every component outside D;
  O3  every member of D is dead at IN;
  O1  (only for entries whose O2 needs it) inv(s) := F at IN equals, on the live
      bits, the INC/DEC flags of the current counter value, and the counter has
      not wrapped; inv holds whenever IN is reached from the loop head through
      the signature's own code, and pred(s) satisfies it by construction.

By induction on k (pred preserves cond and inv; D-equivalence is a bisimulation for
execution from IN by O3) real^k(s) and pred^k(s) are indistinguishable, which is what
licenses _read_port's closed-form fast-forward of `loops` iterations.
"""
import time

import z3

from pyvc import poly
from pyvc.poly import SV, SB, ite, and_, or_, not_, sv, cmpop, truth
from pyvc.solve import check_sat
from contracts import z80spec as Z

BASE = 0x8000
JP_OPS = (0xC2, 0xCA, 0xD2, 0xDA, 0xC3, 0xE2, 0xEA, 0xF2, 0xFA)

# Loader preconditions the signatures presume but _read_port does not test (each is reported as an assumption)
ENTRY_ASSUMPTIONS = {
    'operasoft': ('D holds only the EAR bit (D & 0xBF == 0): the loop compares the masked port value with the whole of D (CP D)',
                  lambda regs: cmpop('==', regs[Z.D] & 0xBF, 0)),
    'diver': ('C holds only the EAR bit (C & 0xBF == 0): the loop XORs the masked port value with the whole of C and tests for zero',
              lambda regs: cmpop('==', regs[Z.C] & 0xBF, 0)),
}


class CodeMem:
    """Concrete code bytes at BASE.., everything else read from one unknown initial memory; writes are recorded."""

    def __init__(self, code, facts, tail, tag):
        self.code = code
        self.facts = facts
        self.tail = tail        # bytes assumed to follow the pattern (operand of a trailing JP)
        self.writes = []
        self.arr = z3.Array('mem0' + tag, z3.BitVecSort(poly.W), z3.BitVecSort(poly.W))

    def rd(self, a):
        if isinstance(a, int):
            k = a - BASE
            if 0 <= k < len(self.code) and self.code[k] is not None:
                return self.code[k]
            if len(self.code) <= k < len(self.code) + len(self.tail):
                return self.tail[k - len(self.code)]
        t = z3.Select(self.arr, sv(a).t)
        self.facts.append(z3.And(t >= 0, t <= 255))
        return SV(t, 0, 255)

    def wr(self, cond, a, v):
        c = truth(cond)
        if c is not False:
            self.writes.append((c, a, v))


def decode_at(code, k):
    b = code[k]
    if b in (0xDD, 0xFD):
        b2 = code[k + 1]
        if b2 == 0xCB:
            return ('DDCB' if b == 0xDD else 'FDCB'), code[k + 3]
        return ('DD' if b == 0xDD else 'FD'), b2
    if b == 0xCB:
        return 'CB', code[k + 1]
    if b == 0xED:
        return 'ED', code[k + 1]
    return '', b


class PathEnd:
    def __init__(self, kind, trace, pc, regs, writes):
        self.kind = kind        # 'loop' (back at the stop offset) or 'exit'
        self.trace = trace      # tuple of offsets visited + branch tags: the path's identity
        self.pc = pc            # list of z3 bool terms
        self.regs = regs
        self.writes = writes


TAIL_USED = [False]


def explore(code, start_off, stop_off, regs0, facts, inval, tag='', max_steps=24):
    """All paths from offset start_off until they reach stop_off (after at least one
    instruction) or leave the signature."""
    out = []
    padded = code + [None] * 4
    stack = [(start_off, list(regs0), [], (), [])]
    while stack:
        off, regs, pc, trace, writes = stack.pop()
        if trace and off == stop_off:
            out.append(PathEnd('loop', trace, pc, regs, writes))
            continue
        if len(trace) >= max_steps or not (0 <= off < len(code)) or code[off] is None:
            out.append(PathEnd('exit', trace + (('out', off),), pc, regs, writes))
            continue
        try:
            prefix, op = decode_at(padded, off)
        except (IndexError, TypeError):
            op = None
        if op is None:
            out.append(PathEnd('exit', trace + (('undecodable', off),), pc, regs, writes))
            continue
        regs = list(regs)
        regs[Z.PC] = BASE + off
        tail = [BASE & 255, BASE >> 8] if (off == len(code) - 1 and not prefix and op in JP_OPS) else []
        if tail:
            TAIL_USED[0] = True
        mem = CodeMem(code, facts, tail, tag)
        st = Z.Step(prefix, op, regs, mem, Z.Cfg(machine=48), inval=inval)
        new = list(st.r)
        w2 = writes + mem.writes
        npc = new[Z.PC]
        tr = trace + (off,)
        if isinstance(npc, int):
            stack.append((npc - BASE, new, pc, tr, w2))
            continue
        t = z3.simplify(npc.t)
        if z3.is_bv_value(t):
            new[Z.PC] = t.as_long()
            stack.append((t.as_long() - BASE, new, pc, tr, w2))
            continue
        if z3.is_app_of(t, z3.Z3_OP_ITE):
            c, a, b = t.arg(0), t.arg(1), t.arg(2)
            for cond, tgt, tagb in ((c, a, 'T'), (z3.Not(c), b, 'F')):
                r2 = list(new)
                if z3.is_bv_value(tgt):
                    r2[Z.PC] = tgt.as_long()
                    stack.append((tgt.as_long() - BASE, r2, pc + [cond], tr + (tagb,), w2))
                else:
                    r2[Z.PC] = SV(tgt, 0, 0xFFFF)
                    out.append(PathEnd('exit', tr + (tagb, 'computed'), pc + [cond], r2, w2))
            continue
        out.append(PathEnd('exit', tr + ('computed',), pc, new, w2))
    return out


def _terms(pe, skip=()):
    """Everything observable of a path end: registers (except those in skip) and memory writes."""
    ts = []
    for i, x in enumerate(pe.regs):
        if i in skip:
            ts.append(z3.BitVecVal(0, poly.W))
            continue
        ts.append(sv(x).t)
    for c, a, v in pe.writes:
        ts.append(z3.If(poly.bterm(c), z3.BitVecVal(1, poly.W), z3.BitVecVal(0, poly.W)))
        ts.append(sv(a).t)
        ts.append(sv(v).t)
    return ts


class AccCase:
    def __init__(self, key, entry, rep, prop):
        from skoolkit.loadsample import Accelerator, BYTE
        self.key = key
        self.acc = Accelerator(*entry)
        self.code = [None if b is BYTE else b for b in self.acc.code]
        self.rep = rep
        self.prop = prop
        self.name = 'skoolkit.loadsample.ACCELERATORS[%s]' % key
        self.assumptions = []
        self.failed = []

    def add(self, oname, res, backend='z3'):
        st = 'proved' if res == 'unsat' else ('failed' if res == 'sat' else 'unknown')
        self.rep.add('%s/%s/%s' % (self.prop, self.name, oname), st, backend, 0, self.name)
        return st

    def cond(self, regs, p):
        """The fast-forward condition of _read_port on the state at IN; p is the parity of the edge index."""
        acc = self.acc
        fs = [z3.And(p.t >= 0, p.t <= 1)]
        if acc.ear_mask:
            want = ((p - acc.polarity) & 1) * acc.ear_mask
            fs.append(poly.bterm(cmpop('==', regs[acc.ear] & acc.ear_mask, want)))
        else:
            fs.append(poly.bterm(cmpop('==', (p - acc.polarity) & 1, 1)))
            for b in self.code:
                # polarity-sensitive loops test the EAR bit with AND r: the loop shape presumes r == 0x40
                if b is not None and 0xA0 <= b <= 0xA7 and b != 0xA6:
                    rr = (Z.B, Z.C, Z.D, Z.E, Z.H, Z.L, None, Z.A)[b & 7]
                    fs.append(poly.bterm(cmpop('==', regs[rr], 0x40)))
                    self.assumptions.append('%s: the register operand of the loop\'s AND r holds the EAR mask 0x40 - a loader precondition of this polarity-sensitive loop shape that _read_port does not test' % self.key)
        if self.key in ENTRY_ASSUMPTIONS:
            text, f = ENTRY_ASSUMPTIONS[self.key]
            fs.append(poly.bterm(f(regs)))
            self.assumptions.append('%s: %s - a loader precondition that _read_port does not test' % (self.key, text))
        # not the iteration in which the counter reaches 0 (that one leaves the loop and is never skipped)
        fs.append(poly.bterm(cmpop('<', regs[acc.counter], 255) if acc.inc else cmpop('!=', regs[acc.counter], 1)))
        fs.append(sv(regs[Z.IFF]).t == 0)          # _read_port: registers[26] == 0
        if self.code[acc.c0] == 0xED:
            fs.append(sv(regs[Z.C]).t == 0xFE)     # _read_port: port & 0xFF == 0xFE
        return fs

    def flags_expected(self, cnt_after):
        """F written by the fast-forward for a counter that has just become cnt_after."""
        acc = self.acc
        prev = (cnt_after - 1) & 255 if acc.inc else (cnt_after + 1) & 255
        return (Z.inc8(prev, 0) if acc.inc else Z.dec8(prev, 0))[1]

    # -- O3
    def dead_components(self, candidates):
        """Semantic dead-at-IN check. candidates: list of ('reg', i) / ('fbit', b). Returns the dead ones."""
        from props import simvc
        W = poly.W
        acc = self.acc
        dead = []
        for comp in candidates:
            facts = []
            old = poly.set_collectors(facts, [])
            try:
                x = simvc.initial_regs()
                pre = simvc.wf_pre(x)
                y = list(x)
                if comp[0] == 'reg':
                    i = comp[1]
                    lo, hi = simvc.reg_interval(i)
                    y[i] = SV(z3.BitVec('alt_r%d' % i, W), lo, hi)
                    facts.append(z3.And(y[i].t >= lo, y[i].t <= hi))
                else:
                    y[Z.F] = x[Z.F] ^ (1 << comp[1])
                inv_t = z3.BitVec('inval_any', W)
                facts.append(z3.Or(inv_t == 191, inv_t == 255))
                inval = SV(inv_t, 191, 255)
                px = explore(self.code, acc.c0, acc.c0, x, facts, inval)
                py = explore(self.code, acc.c0, acc.c0, y, facts, inval)
                ok = [p.trace for p in px] == [p.trace for p in py]
                res = 'unknown'
                if ok:
                    res = 'unsat'
                    for a, b in zip(px, py):
                        ca = z3.And(*a.pc) if a.pc else z3.BoolVal(True)
                        cb = z3.And(*b.pc) if b.pc else z3.BoolVal(True)
                        # back at IN the component itself may differ again (it is dead there too); everything else must agree
                        skip = (comp[1],) if (comp[0] == 'reg' and a.kind == 'loop') else ()
                        ta = _terms(a, skip)
                        tb = _terms(b, skip)
                        if comp[0] == 'fbit' and a.kind == 'loop':
                            m = 0xFF ^ (1 << comp[1])
                            ta[Z.F] = ta[Z.F] & m
                            tb[Z.F] = tb[Z.F] & m
                        diff = z3.Or(ca != cb, z3.And(ca, z3.Or(*[u != v for u, v in zip(ta, tb)]))) if len(ta) == len(tb) else z3.BoolVal(True)
                        r, backend, model = check_sat(pre + facts + [diff])
                        if r != 'unsat':
                            res = r
                            break
                label = 'dead_at_IN.' + (Z.REGNAMES[comp[1]] if comp[0] == 'reg' else 'F.bit%d' % comp[1])
                if res == 'unsat':
                    self.rep.add('%s/%s/%s' % (self.prop, self.name, label), 'proved', 'z3', 0, self.name)
                    dead.append(comp)
                elif res == 'unknown':
                    self.rep.add('%s/%s/%s' % (self.prop, self.name, label), 'unknown', 'z3', 0, self.name)
            finally:
                poly.set_collectors(*old)
        return dead

    # -- O2
    def one_step(self, use_inv, dead, record):
        from props import simvc
        W = poly.W
        acc = self.acc
        facts = []
        old = poly.set_collectors(facts, [])
        fails = []
        try:
            regs = simvc.initial_regs()
            pre = simvc.wf_pre(regs)
            p = SV(z3.BitVec('edge_index_parity', W), 0, 1)
            inval = 191 + 64 * p          # what _read_port returns: bit 6 clear for an even edge index
            self.assumptions = []
            facts.extend(self.cond(regs, p))
            dead_regs = set(c[1] for c in dead if c[0] == 'reg')
            live_f = 0xFF
            for c in dead:
                if c[0] == 'fbit':
                    live_f &= ~(1 << c[1])
            if use_inv:
                cnt = regs[acc.counter]
                # (INC/DEC leave the carry alone, so the invariant cannot and need not speak about it)
                facts.append(poly.bterm(cmpop('==', (regs[Z.F] ^ self.flags_expected(cnt)) & live_f & 0xFE, 0)))
                facts.append(poly.bterm(cmpop('!=', cnt, 0)))
            TAIL_USED[0] = False
            paths = explore(self.code, acc.c0, acc.c0, regs, facts, inval)
            if TAIL_USED[0]:
                self.assumptions.append('%s: the signature ends in a JP opcode whose operand (outside the matched bytes) is taken to be the address of the loop head' % self.key)
            loops = []
            for pe in paths:
                res, backend, model = check_sat(pre + facts + pe.pc)
                if pe.kind == 'loop':
                    if res != 'unsat':
                        loops.append(pe)
                else:
                    if res != 'unsat':
                        fails.append(('exit_infeasible', res, {'path': [str(t) for t in pe.trace]}))
                    elif record:
                        self.add('exit_infeasible', res, backend)
            if len(loops) != 1:
                fails.append(('single_loop_path', 'sat', {'feasible_paths_back_to_IN': len(loops)}))
                return fails
            if record:
                self.add('single_loop_path', 'unsat')
            pe = loops[0]
            r = pe.regs
            cnt1 = (regs[acc.counter] + (1 if acc.inc else -1)) & 255
            obligations = [
                ('loop_time', Z.T, cmpop('==', r[Z.T], regs[Z.T] + acc.loop_time)),
                ('loop_r_inc', Z.R, cmpop('==', r[Z.R], (regs[Z.R] & 0x80) | ((regs[Z.R] + acc.loop_r_inc) & 0x7F))),
                ('counter', acc.counter, cmpop('==', r[acc.counter], cnt1)),
                ('flags[live bits %02X]' % live_f, None, cmpop('==', (r[Z.F] ^ self.flags_expected(cnt1)) & live_f, 0)),
            ]
            for i in range(30):
                if i in (Z.F, Z.R, Z.T, Z.PC, acc.counter):
                    continue
                obligations.append(('frame.' + Z.REGNAMES[i], i, True if r[i] is regs[i] else cmpop('==', r[i], regs[i])))
            for oname, ri, c in obligations:
                if ri is not None and ri in dead_regs:
                    continue        # its value at IN is irrelevant (O3)
                if c is True:
                    if record:
                        self.rep.add('%s/%s/%s' % (self.prop, self.name, oname), 'proved', 'identical', 0, self.name)
                    continue
                res, backend, model = check_sat(pre + facts + pe.pc + [z3.Not(poly.bterm(c))])
                if res != 'unsat':
                    vals = {}
                    if model is not None:
                        for d in model.decls():
                            if d.arity() == 0 and d.name().startswith('r') and d.name()[1:].isdigit():
                                vals[Z.REGNAMES[int(d.name()[1:])]] = model[d].as_long()
                    fails.append((oname, res, {'state_at_IN': vals, 'instructions_in_loop': len([t for t in pe.trace if isinstance(t, int)])}))
                elif record:
                    self.add(oname, res, backend)
            wcond = [poly.bterm(c) for c, a, v in pe.writes]
            if wcond:
                res, backend, model = check_sat(pre + facts + pe.pc + [z3.Or(*wcond)])
                if res != 'unsat':
                    fails.append(('no_memory_write', res, {}))
                elif record:
                    self.add('no_memory_write', res, backend)
            elif record:
                self.rep.add('%s/%s/no_memory_write' % (self.prop, self.name), 'proved', 'syntactic', 0, self.name)
            # cond is preserved (EAR register untouched), so `loops` iterations compose
            if acc.ear_mask:
                if r[acc.ear] is regs[acc.ear]:
                    if record:
                        self.rep.add('%s/%s/cond_preserved' % (self.prop, self.name), 'proved', 'identical', 0, self.name)
                else:
                    res, backend, model = check_sat(pre + facts + pe.pc + [z3.Not(poly.bterm(cmpop('==', r[acc.ear] & acc.ear_mask, regs[acc.ear] & acc.ear_mask)))])
                    if res != 'unsat':
                        fails.append(('cond_preserved', res, {}))
                    elif record:
                        self.add('cond_preserved', res, backend)
            return fails
        finally:
            poly.set_collectors(*old)

    # -- O1
    def inv_established(self, dead):
        """IN reached from the loop head through the signature: F (live bits) are the INC/DEC flags of the counter, which has not wrapped."""
        from props import simvc
        acc = self.acc
        facts = []
        old = poly.set_collectors(facts, [])
        try:
            h = simvc.initial_regs()
            pre = simvc.wf_pre(h)
            live_f = 0xFF
            for c in dead:
                if c[0] == 'fbit':
                    live_f &= ~(1 << c[1])
            paths = [pe for pe in explore(self.code, 0, acc.c0, h, facts, 255) if pe.kind == 'loop']
            if not paths:
                return 'sat'
            worst = 'unsat'
            for pe in paths:
                r = pe.regs
                cnt = r[acc.counter]
                c = and_(cmpop('==', (r[Z.F] ^ self.flags_expected(cnt)) & live_f & 0xFE, 0), cmpop('!=', cnt, 0))
                res, backend, model = check_sat(pre + facts + pe.pc + [z3.Not(poly.bterm(c))])
                if res != 'unsat':
                    worst = res
            return worst
        finally:
            poly.set_collectors(*old)

    def run(self):
        acc = self.acc
        t0 = time.time()
        # candidates for D: A, every F bit, R, and the index/alternate registers a loop may scribble on
        cands = [('reg', Z.A), ('reg', Z.R)] + [('fbit', b) for b in range(8)]
        for i in range(2, 12):
            if i not in (acc.counter, acc.ear):
                cands.append(('reg', i))
        dead = self.dead_components(cands)
        fails = self.one_step(False, dead, False)
        use_inv = False
        if fails and acc.c0 > 0:
            f2 = self.one_step(True, dead, False)
            if not f2:
                use_inv = True
        fails = self.one_step(use_inv, dead, True)
        if use_inv:
            res = self.inv_established(dead)
            if self.add('inv_established_from_loop_head', res) != 'proved':
                fails.append(('inv_established_from_loop_head', res, {}))
            self.assumptions.append('%s: the IN instruction is reached only through the signature\'s own code from the loop head (which establishes the flag invariant the fast-forward needs)' % self.key)
        for oname, res, info in fails:
            st = self.add(oname, res)
            if st == 'failed':
                self.rep.violation('%s/%s/%s' % (self.prop, self.name, oname.split('[')[0]),
                                   'accelerator %s: one real trip round the sampling loop does not match what the fast-forward writes for this table entry: %s fails (loop_time=%d, loop_r_inc=%d, counter=%s%s, dead at IN: %s)' % (
                                       self.key, oname, acc.loop_time, acc.loop_r_inc, Z.REGNAMES[acc.counter], '+1' if acc.inc else '-1',
                                       ','.join(Z.REGNAMES[c[1]] if c[0] == 'reg' else 'F%d' % c[1] for c in dead)),
                                   dict(info, accelerator=self.key, obligation=oname, verifier_output='sat'), no_input=True)
        self.rep.solver_s['z3'] += time.time() - t0
        return dead, use_inv


def _acc_worker(args):
    key, prop = args
    from skoolkit.loadsample import ACCELERATORS
    from props import common
    sub = common.SubReport(prop)
    case = AccCase(key, ACCELERATORS[key], sub, prop)
    try:
        dead, use_inv = case.run()
        sub.extra['accelerators'] = {key: {'dead_at_IN': [Z.REGNAMES[c[1]] if c[0] == 'reg' else 'F.bit%d' % c[1] for c in dead], 'needs_flag_invariant': use_inv}}
    except (poly.Refuse, poly.Overflow, ValueError, IndexError, KeyError) as ex:
        sub.downgraded.append({'function': case.name, 'reason': repr(ex)[:200]})
    except Exception:
        import traceback
        sub.errors.append('accelerator %s: checker crashed: %s' % (key, traceback.format_exc()[-400:]))
    for a in case.assumptions:
        sub.assume(a)
    return sub.export()


def check_accelerators(rep, prop='C13'):
    """O1-O3 for every entry of loadsample.ACCELERATORS (one worker process per entry)."""
    from multiprocessing import Pool
    from skoolkit.loadsample import ACCELERATORS
    from props import common
    keys = sorted(ACCELERATORS)
    with Pool(min(common.NCPU, len(keys))) as pool:
        for part in pool.imap_unordered(_acc_worker, [(k, prop) for k in keys]):
            rep.merge(part)
    if not keys:
        rep.errors.append('ACCELERATORS is empty')
    # one line per kind of loader precondition, naming the entries it applies to
    grouped = {}
    rest = []
    for a in rep.assumptions:
        k, sep, text = a.partition(': ')
        if sep and k in ACCELERATORS:
            grouped.setdefault(text, []).append(k)
        else:
            rest.append(a)
    rep.assumptions[:] = rest + ['accelerator table entries %s: %s' % (', '.join(sorted(ks)), text) for text, ks in sorted(grouped.items())]
    return rep.extra.get('accelerators', {})


# ---------------------------------------------------------------------------
# LoadTracer._read_port: the fast-forward arithmetic of the real code
def ffwd_slice():
    """The `if ffwd and state[0] > registers[25]:` statement of the nested func of LoadTracer._read_port,
    taken from the function's own AST on every run."""
    import ast
    import skoolkit.loadtracer as LT
    from pyvc.engine import func_ast
    node, _ = func_ast(LT.LoadTracer._read_port)
    for n in ast.walk(node):
        if isinstance(n, ast.If) and ast.unparse(n.test).replace(' ', '') == 'ffwdandstate[0]>registers[25]':
            return [n]
    raise LookupError('fast-forward statement not found in LoadTracer._read_port')


def ffwd_spec(acc_fields, regs, edge_t, index):
    """pred^loops(s): what `loops` trips round the loop amount to (ints or terms)."""
    counter, inc, lt, rinc = acc_fields
    cnt = regs[counter]
    # iterations that may be skipped before the one in which the counter reaches its end value (0) must run for real;
    # a DEC loop entered with counter 0 has 255 of them (0 -> 255 -> ... -> 1)
    limit = (255 - cnt) if inc else ((cnt - 1) & 255)
    d = edge_t - regs[Z.T]
    if poly.is_sym(d):
        d = SV(z3.If(d.t > 0, d.t, z3.BitVecVal(0, poly.W)), 0, max(d.hi, 0))     # max(d, 0): the division is only used when edge_t > T
    else:
        d = max(d, 0)
    n = d // lt + 1
    if poly.is_sym(n) or poly.is_sym(limit):
        n, limit = sv(n), sv(limit)
        loops = SV(z3.If(n.t < limit.t, n.t, limit.t), min(n.lo, limit.lo), min(n.hi, limit.hi))
    else:
        loops = min(n, limit)
    active = and_(edge_t > regs[Z.T], loops > 0)
    out = list(regs)
    cnt1 = ((cnt + loops) if inc else (cnt - loops)) & 255
    prev = (cnt1 - 1) if inc else (cnt1 + 1)
    fexp = (Z.inc8(prev & 255, 0) if inc else Z.dec8(prev & 255, 0))[1]
    out[counter] = ite(active, cnt1, cnt)
    out[Z.F] = ite(active, fexp, regs[Z.F])
    out[Z.R] = ite(active, (regs[Z.R] & 0x80) | ((regs[Z.R] + rinc * loops) & 0x7F), regs[Z.R])
    out[Z.T] = ite(active, regs[Z.T] + lt * loops, regs[Z.T])
    idx = ite(and_(active, out[Z.T] > edge_t), index + 1, index)
    return out, idx, loops, active


def _ffwd_groups():
    from skoolkit.loadsample import ACCELERATORS, Accelerator
    groups = {}
    for key in sorted(ACCELERATORS):
        a = Accelerator(*ACCELERATORS[key])
        groups.setdefault((a.counter, a.inc, a.loop_time, a.loop_r_inc), []).append(key)
    return groups


def _ffwd_worker(args):
    fields, keys, prop = args
    from props import common
    sub = common.SubReport(prop)
    try:
        ffwd_group(sub, prop, fields, keys)
    except Exception:
        import traceback
        sub.errors.append('fast-forward group %s: checker crashed: %s' % (fields, traceback.format_exc()[-400:]))
    return sub.export()


def check_ffwd_arith(rep, prop='C13'):
    """The real fast-forward statement of _read_port against ffwd_spec, for every distinct
    (counter, inc, loop_time, loop_r_inc) of the table (one worker process per combination)."""
    from multiprocessing import Pool
    from props import common
    groups = sorted(_ffwd_groups().items())
    with Pool(min(common.NCPU, max(1, len(groups)))) as pool:
        for part in pool.imap_unordered(_ffwd_worker, [(f, k, prop) for f, k in groups]):
            rep.merge(part)
    if not groups:
        rep.errors.append('no accelerator groups')


def ffwd_group(rep, prop, fields, keys):
    import skoolkit.loadtracer as LT
    from props import simvc
    from props.funcvc import FuncVC
    from pyvc.engine import Engine, ObjModel, SymList
    W = poly.W
    stmts = ffwd_slice()
    mach = simvc.get_machine('Simulator', 48)
    if True:
        counter, inc, lt, rinc = fields
        name = 'skoolkit.loadtracer.LoadTracer._read_port[fast-forward; counter=%s%s loop_time=%d loop_r_inc=%d]' % (Z.REGNAMES[counter], '+' if inc else '-', lt, rinc)
        def start(eng, fields=fields):
            p = eng.path
            regs = simvc.initial_regs()
            p.regs0 = list(regs)
            p.reglist = SymList(regs, 'registers')
            p.edge = SV(z3.BitVec('next_edge_t', W), 0, (1 << simvc.TMAX_BITS) - 1)
            p.index0 = SV(z3.BitVec('edge_index', W), 0, 1 << 24)
            p.facts.append(z3.And(p.edge.t >= 0, p.edge.t < (1 << simvc.TMAX_BITS), p.index0.t >= 0, p.index0.t <= (1 << 24)))
            acc = ObjModel(None, name='acc')
            acc.attrs.update({'counter': fields[0], 'inc': fields[1], 'loop_time': fields[2], 'loop_r_inc': fields[3]})
            eng.objmap = dict(mach.tabreg)
            p.locs = {'acc': acc, 'registers': p.reglist, 'state': SymList([p.edge], 'state'), 'index': p.index0, 'ffwd': True, 'loops': 0}
            eng.run_stmts(LT.LoadTracer._read_port, stmts, p.locs)

        def post(p, prove, fields=fields):
            counter, inc, lt, rinc = fields
            r0 = p.regs0
            exp, idx, loops, active = ffwd_spec(fields, r0, p.edge, p.index0)
            regs = p.reglist.items
            for i in range(30):
                prove('post.' + Z.REGNAMES[i], True if (regs[i] is r0[i] and exp[i] is r0[i]) else cmpop('==', regs[i], exp[i]))
            prove('post.index', cmpop('==', p.locs['index'], idx))
            # what makes the skip sound
            prove('lemma.skipped_INs_not_after_the_edge', or_(not_(active), cmpop('<=', r0[Z.T] + lt * (loops - 1), p.edge)))
            prove('lemma.no_skipped_iteration_ends_the_count', or_(not_(active), cmpop('<=', loops, (255 - r0[counter]) if inc else ((r0[counter] - 1) & 255))))
            prove('lemma.next_IN_after_edge_or_counter_limit', or_(not_(active), cmpop('>', exp[Z.T], p.edge),
                                                                 cmpop('==', exp[counter], 255 if inc else 1)))
        eng = simvc.SimEngine(inline_ok=lambda f: False)
        eng.neg_index_wraps = True      # DEC0[counter - loops + 1] relies on Python's negative indexing when counter == 0
        FuncVC(rep, prop, LT.LoadTracer._read_port, name, eng, pre=lambda p: simvc.wf_pre(p.regs0)).run(start, post, lambda vals, kind, fields=fields: replay_ffwd(vals, fields))
        rep.notes.append('%s covers table entries %s' % (name, ', '.join(keys)))


def replay_ffwd(vals, fields):
    d = concrete_ffwd([vals.get('r%d' % i, 0) for i in range(30)], vals.get('next_edge_t', 0), vals.get('edge_index', 0), fields)
    return {'case': {'regs': [vals.get('r%d' % i, 0) for i in range(30)], 'next_edge_t': vals.get('next_edge_t', 0), 'edge_index': vals.get('edge_index', 0), 'accelerator_fields': list(fields)}, 'diffs': d}


def concrete_ffwd(regs, edge_t, index, fields):
    """Run the real closure returned by LoadTracer._read_port on a concrete state with one
    accelerator whose signature matches at PC; compare with the int evaluation of ffwd_spec."""
    import skoolkit.loadtracer as LT
    from skoolkit.loadsample import Accelerator
    counter, inc, lt, rinc = fields
    regs = list(regs)
    regs[Z.IFF] = 0
    pc = regs[Z.PC] = 0x8000
    code = [0xDB, 0xFE]
    acc = Accelerator('x', code, 0, counter, inc, lt, rinc, -1, 0, 1)     # polarity-sensitive entry: ffwd iff index even
    index &= ~1
    mem = [0] * 65536
    mem[pc:pc + 2] = code

    class Sim:
        pass
    sim = Sim()
    sim.memory = mem
    sim.registers = regs
    sim.int_active = 32
    t = object.__new__(LT.LoadTracer)
    t.simulator = sim
    t.in_min_addr = 0x4000
    t.state = [edge_t, index, 0, index + 100, 1, 0, 0, 0, 0, 0]
    t.edges = [0] * (index + 200)
    t.blocks = []
    t.max_index = index + 150
    t.accelerators = [acc]
    t.out7ffd = 0x10
    t.outfffd = 0
    t.frame_duration = 69888
    t.tsl_misses = 0
    before = list(regs)
    got_val = t._read_port()(regs, 0xFE)
    exp, idx, loops, active = ffwd_spec(fields, before, edge_t, index)
    d = [(Z.REGNAMES[i], regs[i], exp[i]) for i in range(30) if regs[i] != exp[i]]
    want_val = 191 if idx % 2 == 0 else 255
    if got_val != want_val:
        d.append(('port value', got_val, want_val))
    return d


def crosscheck_ffwd(rep, prop, n=400):
    """Standing CPython cross-check: the real _read_port closure against the int evaluation of ffwd_spec."""
    import random
    rnd = random.Random(20260926)
    groups = sorted(_ffwd_groups())
    for t in range(n):
        fields = rnd.choice(groups)
        regs = [rnd.randrange(256) for _ in range(30)]
        regs[fields[0]] = rnd.choice((0, 1, 2, 254, 255, rnd.randrange(256)))
        regs[Z.T] = rnd.randrange(10 ** 7)
        regs[13] = 0
        edge = regs[Z.T] + rnd.choice((-5, 0, 1, fields[2] - 1, fields[2], fields[2] + 1, rnd.randrange(1, 30000)))
        d = concrete_ffwd(regs, edge, rnd.randrange(0, 1000), fields)
        if d:
            rep.violation('%s/skoolkit.loadtracer.LoadTracer._read_port/crosscheck' % prop, 'real fast-forward disagrees with the closed form on a concrete state: %s' % (d[:3],),
                          {'case': {'regs': regs, 'next_edge_t': edge, 'edge_index': 0, 'accelerator_fields': list(fields)}, 'observed_vs_expected': d})
            break
    rep.extra['crosscheck_samples'] = rep.extra.get('crosscheck_samples', 0) + n
