"""Verification conditions for the Python simulators' dispatch slots.

For every slot (table, index) of a freshly constructed Simulator /
CMIOSimulator the *live* closure object is symbolically executed (pyvc.engine)
and every path is checked against contracts/z80spec.Step for the opcode the slot
position stands for.  Shared by C05 (functional), C08 (safety), C19 (timing),
C07 (size/timing facts) and C06 (Python pair).
"""
import hashlib
import inspect
import os
import random
import sys
import time
import traceback

import z3

from pyvc import poly
from pyvc.poly import SV, SB, Refuse, ite, and_, or_, not_, sv, truth, cmpop
from pyvc.engine import (Engine, SymList, SymMem, TabRef, CallModel, PathEnd, func_ast, lazy)
from contracts import z80spec as Z
from contracts import tables as T_

TABLE_NAMES = (('opcodes', ''), ('after_CB', 'CB'), ('after_ED', 'ED'), ('after_DD', 'DD'),
               ('after_FD', 'FD'), ('after_DDCB', 'DDCB'), ('after_FDCB', 'FDCB'))
PREFIX_OF = dict(TABLE_NAMES)

# slots that only dispatch to another table: (table, index) -> (target table, offset of the index byte)
DISPATCH = {('opcodes', 0xCB): ('after_CB', 1), ('opcodes', 0xED): ('after_ED', 1),
            ('opcodes', 0xDD): ('after_DD', 1), ('opcodes', 0xFD): ('after_FD', 1),
            ('after_DD', 0xCB): ('after_DDCB', 3), ('after_FD', 0xCB): ('after_FDCB', 3)}

REG8 = [i for i in range(30) if i not in (Z.SP, Z.PC, Z.T, Z.MEMPTR, Z.IFF, Z.IM, Z.HALT, Z.SP2)]
TMAX_BITS = 38


class SpecSymMem:
    """Memory view for the spec over the same initial array as the code."""

    def __init__(self, arr0, facts):
        self.arr = arr0
        self.facts = facts

    def rd(self, a):
        a = sv(a)
        t = z3.Select(self.arr, a.t)
        self.facts.append(z3.And(t >= 0, t <= 255))
        return SV(t, 0, 255)

    def wr(self, cond, a, v):
        cond = truth(cond)
        if cond is False:
            return
        a = sv(a)
        v = sv(v)
        new = z3.Store(self.arr, a.t, v.t)
        if cond is not True:
            new = z3.If(cond.t, new, self.arr)
        self.arr = new


class SimEngine(Engine):
    def mem_store_hook(self, mem, a, v, node):
        self.oblige('rom_guard', a > 0x3FFF, node)
        self.oblige('byte_range', and_(v >= 0, v <= 255), node)

    def getattr(self, obj, attr, node):
        if isinstance(obj, SymMem):
            if attr in getattr(obj, 'attrs', {}):
                return obj.attrs[attr]
            raise Refuse('attribute %s of memory' % attr)
        return super().getattr(obj, attr, node)


class DispatchTable:
    def __init__(self, name):
        self.name = name


class Machine:
    """A live simulator instance + the models of its objects."""

    def __init__(self, clsname, machine):
        from skoolkit.simulator import Simulator
        from skoolkit.cmiosimulator import CMIOSimulator
        from skoolkit.pagingtracer import Memory
        self.clsname = clsname
        self.machine = machine
        self.cls = {'Simulator': Simulator, 'CMIOSimulator': CMIOSimulator}[clsname]
        self.cmio = clsname == 'CMIOSimulator'
        self.sim = self.new_sim()
        self.tabreg = T_.registry()

    def new_sim(self, config=None):
        from skoolkit.pagingtracer import Memory
        from skoolkit import simutils
        if self.machine == 128:
            mem = Memory()
        else:
            mem = [0] * 65536
        return simutils.from_memory(self.cls, mem, config=config)

    def slots(self):
        for tn, pfx in TABLE_NAMES:
            tab = getattr(self.sim, tn)
            for i, f in enumerate(tab):
                yield tn, i, f


_MACHINES = {}


def get_machine(clsname, machine):
    k = (clsname, machine)
    if k not in _MACHINES:
        _MACHINES[k] = Machine(clsname, machine)
    return _MACHINES[k]


def closure_key(f):
    """Identity of a closure for reporting: factory, free-variable values."""
    parts = [f.__qualname__]
    for n, c in zip(f.__code__.co_freevars, f.__closure__ or ()):
        try:
            v = c.cell_contents
        except ValueError:
            v = '<empty>'
        if isinstance(v, (int, str, bool)) or v is None:
            parts.append('%s=%r' % (n, v))
        else:
            parts.append('%s=<%s>' % (n, type(v).__name__))
    return ' '.join(parts)


def wf_pre(regs):
    """Well-formed CPU state: the precondition of every slot."""
    cs = []
    for i in range(30):
        r = regs[i].t
        if i in (Z.SP, Z.PC, Z.MEMPTR):
            cs.append(z3.And(r >= 0, r <= 0xFFFF))
        elif i == Z.T:
            cs.append(z3.And(r >= 0, r < (1 << TMAX_BITS)))
        elif i in (Z.IFF, Z.HALT):
            cs.append(z3.And(r >= 0, r <= 1))
        elif i == Z.SP2:
            cs.append(r == 0)    # registers[13] is the (always zero) 'high byte' slot of the 16-bit SP
        elif i == Z.IM:
            cs.append(z3.And(r >= 0, r <= 255))
        else:
            cs.append(z3.And(r >= 0, r <= 255))
    return cs


def reg_interval(i):
    if i in (Z.SP, Z.PC, Z.MEMPTR):
        return 0, 0xFFFF
    if i == Z.T:
        return 0, (1 << TMAX_BITS) - 1
    if i in (Z.IFF, Z.HALT):
        return 0, 1
    if i == Z.SP2:
        return 0, 0
    if i == Z.IM:
        return 0, 255        # an 8-bit slot; the closures only test it for == 2
    return 0, 255


def initial_regs():
    return [SV(z3.BitVec('r%d' % i, poly.W), *reg_interval(i)) for i in range(30)]


class SlotRun:
    """Symbolic execution of one slot under one tracer configuration."""

    def __init__(self, mach, tn, index, tracer):
        self.mach = mach
        self.tn = tn
        self.index = index
        self.tracer = tracer
        self.func = getattr(mach.sim, tn)[index]

    def explore(self):
        mach = self.mach
        sim = mach.sim
        func = self.func
        run = self

        def start(eng):
            regs = initial_regs()
            run_regs0 = list(regs)
            mem = SymMem('mem')
            o7ffd = SV(z3.BitVec('o7ffd', poly.W), 0, 255)
            inval = SV(z3.BitVec('inval', poly.W), 0, 255)
            mem.attrs = {'o7ffd': o7ffd}
            reglist = SymList(regs, 'registers')
            eng.objmap = dict(mach.tabreg)
            eng.objmap[id(sim.registers)] = reglist
            eng.objmap[id(sim.memory)] = mem
            for tn, _ in TABLE_NAMES:
                eng.objmap[id(getattr(sim, tn))] = DispatchTable(tn)
            st = eng.path
            st.regs0 = run_regs0
            st.reglist = reglist
            st.mem = mem
            st.o7ffd = o7ffd
            st.inval = inval

            def port_in(e, args, kwargs, node):
                e.path.events.append(('in', args[1]))
                return inval

            def port_out(e, args, kwargs, node):
                e.path.events.append(('out', args[1], args[2], args[3] if len(args) > 3 else None))
                return None

            ov = {}
            for a in ('in_a_n_tracer', 'in_r_c_tracer', 'ini_tracer'):
                ov[(id(sim), a)] = CallModel(port_in, a) if run.tracer else None
            ov[(id(sim), 'out_tracer')] = CallModel(port_out, 'out_tracer') if run.tracer else None
            eng.attr_overrides = ov
            eng.call_function(func, [])

        eng = SimEngine(inline_ok=lambda fn: fn.__module__ in ('skoolkit.simulator', 'skoolkit.cmiosimulator'))
        orig_getitem = eng.getitem

        def getitem(base, idx, node):
            if isinstance(base, DispatchTable):
                def disp(e, args, kwargs, node2, base=base, idx=idx):
                    e.path.dispatch = (base.name, idx)
                    return None
                return CallModel(disp, 'dispatch')
            return orig_getitem(base, idx, node)
        eng.getitem = getitem
        self.engine = eng
        return eng.explore(start)


def uses_tracer(func):
    src = func_ast(func)[1]
    return 'tracer' in src


def mk_cfg(mach, st, tracer):
    sim = mach.sim
    return Z.Cfg(machine=mach.machine, cmio=mach.cmio, in_a_n=tracer, in_r_c=tracer, ini=tracer, out=tracer,
                 o7ffd=st.o7ffd if mach.machine == 128 else 0,
                 frame_duration=sim.frame_duration, int_active=sim.int_active)


class Result:
    def __init__(self):
        self.obls = []      # dicts: id, kind, status, backend, time
        self.refused = None
        self.error = None
        self.paths = 0
        self.cex = []


from pyvc.solve import discharge, discharge_batch, feasible


SELFCHECK_N = int(os.environ.get('PYVC_SELFCHECK', '1'))


def verify_slot(clsname, machine, tn, index, want=('safety', 'func', 'timing'), timeout_ms=None):
    """Verify one slot. Returns a picklable dict."""
    t_start = time.time()
    mach = get_machine(clsname, machine)
    func = getattr(mach.sim, tn)[index]
    prefix = PREFIX_OF[tn]
    out = {'cls': clsname, 'machine': machine, 'table': tn, 'index': index, 'closure': closure_key(func),
           'obls': [], 'refused': None, 'paths': 0, 'cex': [], 'covers': 0, 'srchash': ''}
    out['srchash'] = hashlib.sha1(func_ast(func)[1].encode()).hexdigest()[:12]
    fq = '%s.%s' % (func.__module__, func.__qualname__.replace('.<locals>.func', ''))
    slot_id = '%s[%s:%02X]' % (fq, tn, index)
    out['slot_id'] = slot_id
    tracers = (True, False) if uses_tracer(func) else (True,)
    try:
        for tracer in tracers:
            run = SlotRun(mach, tn, index, tracer)
            paths = run.explore()
            out['paths'] += len(paths)
            for pi, st in enumerate(paths):
                check_path(mach, run, st, pi, tracer, prefix, out, want, timeout_ms)
            if SELFCHECK_N:
                try:
                    n_sc, bad_sc = engine_selfcheck(mach, tn, index, tracer, paths, SELFCHECK_N, 0)
                except Exception:
                    n_sc, bad_sc = 0, [('selfcheck crashed: ' + traceback.format_exc()[-400:], None)]
                out['selfcheck'] = out.get('selfcheck', 0) + n_sc
                out.setdefault('selfcheck_bad', []).extend(bad_sc[:2])
    except Refuse as ex:
        out['refused'] = str(ex)
    except poly.Overflow as ex:
        out['refused'] = 'overflow in spec: %s' % ex
    out['time'] = time.time() - t_start
    return out


def check_path(mach, run, st, pi, tracer, prefix, out, want, timeout_ms):
    tn, index = run.tn, run.index
    pre = wf_pre(st.regs0)
    facts = list(st.facts)
    defs = list(st.defs)
    tag = 'p%d%s' % (pi, '' if tracer else 'n')
    sid = out['slot_id']

    pending = []

    def record(kind, site, cond, pc, info=None):
        if not isinstance(cond, (bool, SB)):
            cond = truth(cond)
        pending.append((kind, site, cond, pc, info))

    def flush():
        # safety obligations of the path: one batched query; functional/timing ones individually
        idx_s = [i for i, x in enumerate(pending) if not (x[0].startswith('post.') or x[0] in ('t_ge_base', 't_eq_base_uncontended'))]
        idx_f = [i for i in range(len(pending)) if i not in set(idx_s)]
        res = [None] * len(pending)
        for i, r in zip(idx_s, discharge_batch(pre, facts, st.pc, [(pending[i][2], pending[i][3]) for i in idx_s], defs, timeout_ms)):
            res[i] = r
        for i in idx_f:
            res[i] = discharge(pre, facts, pending[i][3], pending[i][2], defs, timeout_ms)
        for (kind, site, c, pc, info), (status, backend, dt, model) in zip(pending, res):
            oid = '%s/%s#%s@%s' % (sid, kind, site, tag)
            rec = {'id': oid, 'kind': kind, 'status': status, 'backend': backend, 't': round(dt, 4)}
            if info:
                rec['info'] = str(info)[:100]
            out['obls'].append(rec)
            if status == 'failed' and model is not None:
                rec['cex'] = extract_model(model, st, mach, tracer, tn, index)
        del pending[:]

    try:
        _check_path(mach, run, st, pi, tracer, prefix, out, want, timeout_ms, pre, facts, defs, tag, sid, record)
    finally:
        flush()


def _check_path(mach, run, st, pi, tracer, prefix, out, want, timeout_ms, pre, facts, defs, tag, sid, record):
    tn, index = run.tn, run.index
    # vacuity: the path must be reachable under the precondition
    r = feasible(pre, facts, st.pc, timeout_ms)
    if r == 'unsat':
        out['obls'].append({'id': '%s/cover@%s' % (sid, tag), 'kind': 'cover', 'status': 'dead', 'backend': 'z3', 't': 0})
        return
    out['covers'] += 1

    if 'safety' in want:
        for ob in st.obligations:
            c = ob.cond
            record(ob.kind, ob.site, c if isinstance(c, bool) else c, ob.pc, ob.info)
    if st.cut:
        return
    if st.raised is not None:
        record('no_raise', 0, False, st.pc, info=repr(st.raised))
        return
    regs = st.reglist.items
    if len(regs) != 30:
        record('reg_count', 0, False, st.pc)
        return
    if 'safety' in want:
        for i in range(30):
            if regs[i] is st.regs0[i]:
                continue
            v = regs[i]
            lo, hi = reg_interval(i)
            if i == Z.T:
                record('t_mono', 0, cmpop('>=', v, st.regs0[Z.T]), st.pc)
                continue
            if not isinstance(v, (int, SV, SB)):
                record('reg_range.' + Z.REGNAMES[i], 0, False, st.pc, info=type(v).__name__)
                continue
            record('reg_range.' + Z.REGNAMES[i], 0, and_(cmpop('>=', v, lo), cmpop('<=', v, hi)), st.pc)

    key = (tn, index)
    if key in DISPATCH:
        tgt, off = DISPATCH[key]
        d = st.dispatch
        ok = d is not None and d[0] == tgt
        if ok:
            exp = SpecSymMem(st.mem.arr0, facts).rd((st.regs0[Z.PC] + off) & 0xFFFF)
            record('dispatch', 0, cmpop('==', d[1], exp), st.pc)
            record('dispatch_frame', 0, all(regs[i] is st.regs0[i] for i in range(30)) and not st.mem.writes, st.pc)
        else:
            record('dispatch', 0, False, st.pc, info=str(d))
        return
    if st.dispatch is not None:
        record('no_dispatch', 0, False, st.pc)
        return
    if not ({'func', 'timing'} & set(want)):
        return

    # ---- the oracle
    cfg = mk_cfg(mach, st, tracer)
    smem = SpecSymMem(st.mem.arr0, facts)
    oldc = poly.set_collectors(facts, defs)
    try:
        spec = Z.Step(prefix, index, st.regs0, smem, cfg, inval=st.inval)
        check_against_spec(mach, st, regs, spec, smem, cfg, record, want)
    finally:
        poly.set_collectors(*oldc)


def check_against_spec(mach, st, regs, spec, smem, cfg, record, want):
    if 'func' in want:
        for i in range(30):
            if i in (Z.T, Z.MEMPTR, Z.SP2):
                continue
            got, exp = regs[i], spec.r[i]
            if i == Z.F:
                m = spec.mask
                got = got & m
                exp = exp & m
            if got is exp:
                c = True
            else:
                c = cmpop('==', got, exp)
            record('post.' + Z.REGNAMES[i], 0, c, st.pc)
        if not mach.cmio:
            record('frame.MEMPTR', 0, regs[Z.MEMPTR] is st.regs0[Z.MEMPTR], st.pc)
        record('frame.SP2', 0, regs[Z.SP2] is st.regs0[Z.SP2], st.pc)
        # whole-memory equality: no stray store anywhere
        if st.mem.arr.eq(smem.arr):
            record('post.mem', 0, True, st.pc)
        else:
            record('post.mem', 0, SB(st.mem.arr == smem.arr), st.pc)
        # port accesses
        ev = st.events
        sp = spec.ports
        if len(ev) != len(sp) or any(a[0] != b[0] for a, b in zip(ev, sp)):
            record('post.ports', 0, False, st.pc, info='%s vs %s' % ([e[0] for e in ev], [e[0] for e in sp]))
        else:
            for k, (a, b) in enumerate(zip(ev, sp)):
                c = cmpop('==', a[1], b[1])
                if a[0] == 'out':
                    c = and_(c, cmpop('==', a[2], b[2]))
                record('post.ports', k, c, st.pc)
    if 'timing' in want:
        dT = regs[Z.T] - st.regs0[Z.T]
        if not mach.cmio:
            record('post.T', 0, cmpop('==', regs[Z.T], spec.r[Z.T]), st.pc)
        else:
            c = cmpop('==', regs[Z.T], spec.r[Z.T])
            if spec.alt_cyc is not None:
                tm = st.regs0[Z.T] % cfg.fd
                alt = st.regs0[Z.T] + spec.base + Z.ula_fold(cfg.machine, tm, spec.alt_cyc, cfg.o7ffd)
                c = or_(c, cmpop('==', regs[Z.T], alt))
            record('post.T', 0, c, st.pc)
            # corollaries of C19, stated separately
            record('t_ge_base', 0, cmpop('>=', dT, spec.base), st.pc)
            tm = st.regs0[Z.T] % cfg.fd
            first = Z.CONT_FIRST[cfg.machine]
            outside = or_(tm + 64 < first, tm >= first + Z.LINE[cfg.machine] * 192)
            nocont = and_(*[or_(not_(ex), not_(cont)) for cont, n, ex in spec.cyc])
            record('t_eq_base_uncontended', 0, or_(not_(or_(outside, nocont)), cmpop('==', dT, spec.base)), st.pc)


def extract_model(model, st, mach, tracer, tn, index):
    def val(t):
        v = model.eval(t, model_completion=True)
        n = v.as_long()
        if n >= 1 << (poly.W - 1):
            n -= 1 << poly.W
        return n
    regs = [val(r.t) for r in st.regs0]
    cells = {}
    for a in st.mem.reads:
        try:
            av = val(a)
            cells[av] = val(z3.Select(st.mem.arr0, a))
        except Exception:
            pass
    # cells the spec reads (opcode operands) are covered by the same reads; also sample around PC/SP
    for base in (regs[Z.PC], regs[Z.SP]):
        for k in range(-2, 5):
            a = (base + k) & 0xFFFF
            if a not in cells:
                cells[a] = val(z3.Select(st.mem.arr0, z3.BitVecVal(a, poly.W)))
    return {'regs': regs, 'cells': {str(k): v & 255 for k, v in cells.items() if 0 <= k < 65536},
            'o7ffd': val(st.o7ffd.t) & 255, 'inval': val(st.inval.t) & 255, 'tracer': tracer,
            'cls': mach.clsname, 'machine': mach.machine, 'table': tn, 'index': index}


# ---------------------------------------------------------------- concrete side
from props.simconc import Tracer as _Tracer, random_case, compare as _compare, ADDRS


def concrete_run(case, fill=0):
    """Run the real closure of case['table'][case['index']] once on the concrete
    state of `case`; compare with the spec evaluated on ints. Returns diffs."""
    if (case['table'], case['index']) in DISPATCH:
        return concrete_dispatch(case)
    r = concrete_exec(case)
    if r is None:
        return []
    mach, sim, exc, got, flat0, flat1, log = r
    return exc + _compare(case, mach.cmio, got, flat0, flat1, log, sim.frame_duration, sim.int_active)


def concrete_dispatch(case):
    """A slot that only dispatches into another table: run the real closure with the target table's entries replaced by
    recorders (the closure holds the table object itself); it must call exactly the entry numbered by the byte at
    PC + offset (mod 65536) and touch neither registers nor memory."""
    mach = get_machine(case['cls'], case['machine'])
    sim = mach.new_sim()
    mem = sim.memory
    cells = {int(k): v for k, v in case['cells'].items()}
    if case['machine'] == 128:
        mem.out7ffd(case['o7ffd'])
        for a, v in cells.items():
            mem.memory[a // 0x4000][a % 0x4000] = v
    else:
        for a, v in cells.items():
            mem[a] = v
    regs = list(case['regs'])
    sim.registers[:] = regs
    tgt, off = DISPATCH[(case['table'], case['index'])]
    table = getattr(sim, tgt)
    hits = []
    saved = list(table)
    try:
        for i in range(len(table)):
            table[i] = (lambda i=i: hits.append(i))
        exp = mem[(regs[Z.PC] + off) & 0xFFFF]
        try:
            getattr(sim, case['table'])[case['index']]()
        except Exception as ex:
            return [('exception', repr(ex))]
    finally:
        table[:] = saved
    diffs = []
    if hits != [exp]:
        diffs.append(('dispatch', 'entry %s of %s' % (hits, tgt), 'entry %d: the byte at PC + %d = %d' % (exp, off, (regs[Z.PC] + off) & 0xFFFF)))
    if list(sim.registers) != regs:
        diffs.append(('dispatch_frame', 'registers changed', 'unchanged'))
    return diffs


def concrete_exec(case):
    """Run the real closure once; returns (machine, sim, exception diffs, registers, memory before, memory after, port log)."""
    mach = get_machine(case['cls'], case['machine'])
    sim = mach.new_sim()
    mem = sim.memory
    cells = {int(k): v for k, v in case['cells'].items()}
    if case['machine'] == 128:
        mem.out7ffd(case['o7ffd'])
        for a, v in cells.items():
            mem.memory[a // 0x4000][a % 0x4000] = v
        flat0 = [mem[a] for a in range(65536)]
    else:
        for a, v in cells.items():
            mem[a] = v
        flat0 = list(mem)
    regs = list(case['regs'])
    sim.registers[:] = regs
    tr = _Tracer(case['inval'])
    if case['tracer']:
        sim.set_tracer(tr)
    tn, index = case['table'], case['index']
    if (tn, index) in DISPATCH:
        return None
    exc = []
    try:
        getattr(sim, tn)[index]()
    except Exception as ex:   # the real code raised
        exc = [('exception', repr(ex))]
    got = list(sim.registers)
    flat1 = [mem[a] for a in range(65536)] if case['machine'] == 128 else list(mem)
    return mach, sim, exc, got, flat0, flat1, tr.log


def engine_selfcheck(mach, tn, index, tracer, paths, n, seed):
    """Soundness guard for the encoding itself: for n concrete pre-states, the
    symbolic post-state of the (unique) path whose condition holds, evaluated
    under that assignment (with every opaque function revealed), must equal
    what CPython computes by running the real closure."""
    from pyvc.solve import mk_solver
    bad = []
    if (tn, index) in DISPATCH or len(paths) > 16:
        return 0, bad       # the block-I/O closures have dozens of paths: too costly here, they are covered by the concrete differential
    rnd = random.Random('%s/self/%s/%s/%s/%s/%s' % (seed, mach.clsname, mach.machine, tn, index, tracer))
    done = 0
    for k in range(n):
        case = random_case(rnd, mach.clsname, mach.machine, tn, index, tracer)
        r = concrete_exec(case)
        if r is None:
            continue
        _, sim, exc, got, flat0, flat1, log = r
        if exc:
            continue
        matched = 0
        inconclusive = False
        for st in paths:
            if st.cut or st.raised is not None or len(st.reglist.items) != 30:
                continue
            s = mk_solver(20000)
            for i in range(30):
                s.add(st.regs0[i].t == case['regs'][i])
            s.add(st.o7ffd.t == case['o7ffd'], st.inval.t == case['inval'])
            s.add(st.facts)
            s.add(poly.reveal(st.defs))
            s.add(st.pc)
            # the initial memory is pinned down cell by cell, only where this path reads it: evaluate the read
            # addresses in a model, fix those cells to the concrete contents, repeat until no new address appears
            known = set()
            res = s.check()
            rounds = 0
            while res == z3.sat and rounds < 12:
                rounds += 1
                m0 = s.model()
                fresh_cells = []
                for a_t in st.mem.reads:
                    av = m0.eval(a_t, model_completion=True).as_long()
                    if 0 <= av < len(flat0) and av not in known:
                        known.add(av)
                        fresh_cells.append(av)
                if not fresh_cells:
                    break
                for av in fresh_cells:
                    s.add(z3.Select(st.mem.arr0, poly.bvv(av)) == poly.bvv(flat0[av]))
                res = s.check()
            if res == z3.unknown:
                inconclusive = True     # solver budget exhausted (busy machine): this sample says nothing
                continue
            if res != z3.sat:
                continue
            matched += 1
            if matched > 1:
                break
            m = s.model()
            for i in range(30):
                v = m.eval(sv(st.reglist.items[i]).t, model_completion=True).as_long()
                if v >= 1 << (poly.W - 1):
                    v -= 1 << poly.W
                if v != got[i]:
                    bad.append(('register %s: engine %d, CPython %d' % (Z.REGNAMES[i], v, got[i]), case))
            for a, _v in st.mem.writes:
                av = m.eval(a.t, model_completion=True).as_long()
                mv = m.eval(z3.Select(st.mem.arr, a.t), model_completion=True).as_long()
                if 0 <= av < 65536 and mv != flat1[av]:
                    bad.append(('memory[%d]: engine %d, CPython %d' % (av, mv, flat1[av]), case))
        if inconclusive and matched != 1:
            continue
        if matched != 1:
            bad.append(('%d paths match a concrete state (expected exactly 1)' % matched, case))
        done += 1
        if bad:
            break
    return done, bad


def crosscheck_slot(clsname, machine, tn, index, n, seed):
    """Concrete differential: real closure vs int-evaluated spec on n states."""
    rnd = random.Random('%s/%s/%s/%s/%s' % (seed, clsname, machine, tn, index))
    mach = get_machine(clsname, machine)
    func = getattr(mach.sim, tn)[index]
    bad = []
    tr_opts = (True, False) if uses_tracer(func) else (True,)
    for k in range(n):
        case = random_case(rnd, clsname, machine, tn, index, tr_opts[k % len(tr_opts)])
        d = concrete_run(case)
        if d:
            bad.append((case, d))
            if len(bad) >= 2:
                break
    return n, bad


def replay_search(cex, kind, tries=300):
    """Replay a solver counterexample on the real closure. If the exact model does
    not manifest (e.g. a stray store that happens to write the value already
    there), perturb the parts of the state the model leaves arbitrary: fill
    value of untouched memory, then random register/cell values."""
    d = concrete_run(cex)
    if d:
        return {'case': cex, 'diffs': d, 'how': 'exact model'}
    rnd = random.Random(repr(sorted(cex['cells'].items())) + kind)
    for k in range(tries):
        c2 = dict(cex)
        c2['cells'] = dict(cex['cells'])
        regs = list(cex['regs'])
        if k % 3 != 2:
            # same addresses, different data: vary 8-bit registers that are not address bytes on odd tries
            for i in (Z.A, Z.F, Z.xA, Z.xF) if k % 3 == 0 else range(24):
                if i in (Z.SP, Z.SP2):
                    continue
                if rnd.random() < 0.5:
                    regs[i] = rnd.randrange(256)
        for a in list(c2['cells']):
            if rnd.random() < 0.5:
                c2['cells'][a] = rnd.randrange(256)
        # make sure cells next to every 16-bit pointer differ from what a stray store would write
        for hi, lo in ((Z.H, Z.L), (Z.D, Z.E), (Z.B, Z.C), (Z.IXh, Z.IXl), (Z.IYh, Z.IYl)):
            base = regs[lo] + 256 * regs[hi]
            for off in range(-130, 130, 1) if k < 3 else (-1, 0, 1):
                c2['cells'].setdefault(str((base + off) & 0xFFFF), rnd.randrange(256))
        for off in (-2, -1, 0, 1):
            c2['cells'].setdefault(str((regs[Z.SP] + off) & 0xFFFF), rnd.randrange(256))
        # the instruction bytes after the first one, and the cells a wrapped or mis-wrapped fetch would read instead
        # (a dispatch that reads the wrong cell shows only if that cell holds something else)
        for off in range(1, 5):
            for a in ((regs[Z.PC] + off) & 0xFFFF, (regs[Z.PC] + off) % 65535, off - 1):
                if str(a) not in cex['cells']:
                    c2['cells'][str(a)] = rnd.randrange(256)
        c2['regs'] = regs
        c2['inval'] = rnd.randrange(256)
        d = concrete_run(c2)
        if d:
            return {'case': c2, 'diffs': d, 'how': 'model + perturbation %d' % k}
    return {'case': cex, 'diffs': [], 'how': 'not reproduced in %d tries' % tries}
