"""Runs the slot verification of props.simvc over all dispatch slots of the four
Python simulator configurations in a process pool, with a content-addressed
cache (key: hash of every file under /repo/skoolkit plus the verifier's own
sources), so that C05/C06/C07/C08/C19 - which read different obligation kinds
from the same symbolic execution - pay for it once per state of the trees.
"""
import collections
import fcntl
import glob
import gzip
import hashlib
import json
import os
import pickle
import sys
import time
import traceback
from multiprocessing import Pool

from props import common

CONFIGS = (('Simulator', 48), ('Simulator', 128), ('CMIOSimulator', 48), ('CMIOSimulator', 128))
TABLES = ('opcodes', 'after_CB', 'after_ED', 'after_DD', 'after_FD', 'after_DDCB', 'after_FDCB')
REPO = os.environ.get('VERIF_REPO', '/repo')
CACHE_DIR = os.path.join(common.ROOT, '.cache')


def tree_hash():
    """Hash of every source the slot verification depends on: the skoolkit modules
    actually imported when the four simulator configurations are built, plus
    the verifier's own sources."""
    import importlib
    for m in ('skoolkit.simulator', 'skoolkit.cmiosimulator', 'skoolkit.simtables', 'skoolkit.simutils', 'skoolkit.pagingtracer'):
        importlib.import_module(m)
    h = hashlib.sha256()
    files = sorted({getattr(m, '__file__', None) for n, m in list(sys.modules.items())
                    if (n == 'skoolkit' or n.startswith('skoolkit.')) and getattr(m, '__file__', None)})
    for d in ('pyvc', 'contracts'):
        files += sorted(glob.glob(os.path.join(common.ROOT, d, '*.py')))
    files += [os.path.join(common.ROOT, 'props', 'simvc.py'), os.path.join(common.ROOT, 'props', 'simrun.py')]
    for f in files:
        h.update(os.path.basename(f).encode())
        with open(f, 'rb') as fh:
            h.update(fh.read())
    h.update(repr((os.environ.get('PYVC_Z3_TIMEOUT_MS'), os.environ.get('PYVC_FORCE_SOLVER'))).encode())
    return h.hexdigest()[:20]


def _compact(res, crosscheck):
    """Shrink a verify_slot result: counts per (kind,status,backend), the
    non-proved records, a couple of samples."""
    counts = collections.Counter()
    times = collections.Counter()
    bad = []
    samples = []
    for o in res['obls']:
        k = (o['kind'], o['status'], o['backend'])
        counts[k] += 1
        times[k] += o.get('t', 0)
        if o['status'] not in ('proved', 'dead'):
            bad.append(o)
        elif o['backend'] in ('z3', 'cvc5') and len(samples) < 1 and o['kind'].startswith('post'):
            samples.append({'id': o['id'], 'result': 'unsat', 'backend': o['backend'], 'seconds': o['t']})
    out = {k: res.get(k) for k in ('cls', 'machine', 'table', 'index', 'closure', 'slot_id', 'refused', 'paths',
                                   'covers', 'srchash', 'time', 'error', 'selfcheck', 'selfcheck_bad')}
    out['counts'] = dict(counts)
    out['times'] = dict(times)
    out['bad'] = bad
    out['samples'] = samples
    out['crosscheck'] = crosscheck
    return out


def _work(task):
    cls, machine, tn, index, nx, seed = task
    from props import simvc
    try:
        res = simvc.verify_slot(cls, machine, tn, index)
    except Exception:
        res = {'cls': cls, 'machine': machine, 'table': tn, 'index': index, 'closure': '?', 'obls': [],
               'slot_id': '%s/%s[%s:%02X]' % (cls, machine, tn, index), 'refused': None, 'paths': 0, 'covers': 0,
               'srchash': '', 'time': 0, 'error': traceback.format_exc()[-1500:]}
    # replay every counterexample on the real code, right here
    for o in res['obls']:
        if o['status'] == 'failed':
            cx = o.get('cex')
            if cx is not None:
                try:
                    o['replay'] = simvc.replay_search(cx, o['kind'])
                except Exception:
                    o['replay'] = {'error': traceback.format_exc()[-800:]}
    # concrete differential (also the fallback when the engine refused or a model is missing)
    n = nx
    need_search = res.get('refused') or res.get('error') or any(
        o['status'] in ('failed', 'unknown') and not (o.get('replay') or {}).get('diffs') for o in res['obls'])
    if need_search:
        n = max(nx, 400)
    try:
        cnt, badc = simvc.crosscheck_slot(cls, machine, tn, index, n, seed)
        cc = {'n': cnt, 'bad': [{'case': c, 'diffs': d} for c, d in badc]}
    except Exception:
        cc = {'n': 0, 'bad': [], 'error': traceback.format_exc()[-800:]}
    return _compact(res, cc)


def run_config(cls, machine, nx, seed, nproc=None):
    from props import simvc
    mach = simvc.get_machine(cls, machine)
    tasks = []
    for tn in TABLES:
        tab = getattr(mach.sim, tn)
        for i in range(len(tab)):
            tasks.append((simvc.closure_key(tab[i]), (cls, machine, tn, i, nx, seed)))
    nslots = {tn: len(getattr(mach.sim, tn)) for tn in TABLES}
    only = os.environ.get('VERIF_SLOTS')
    if only:
        # selftest mode: "table:index,table:index" - only these slots (results are not cached)
        want = set()
        for item in only.split(','):
            tn, ix = item.split(':')
            want.add((tn, int(ix, 16)))
        tasks = [t for t in tasks if (t[1][2], t[1][3]) in want]
    # longest-processing-time-first scheduling: the I/O and block-I/O closures have by far the most
    # paths, then the conditional/stack forms; one task per dispatch so the pool stays balanced
    def weight(key):
        f = key.split('.')[1] if '.' in key else key
        for names, w in ((('outi', 'ini'), 100), (('in_a', 'in_c', 'out_a', 'out_c'), 30), (('call', 'ex_sp', 'ldi', 'cpi', 'ret'), 10),
                         (('jr', 'djnz', 'jp', 'halt', 'ld_a_ir', 'push', 'pop', 'rst', 'ld_mm_rr', 'ld_rr_mm'), 5)):
            if f in names:
                return w
        return 1
    tasks.sort(key=lambda t: -weight(t[0]))
    tasks = [t[1] for t in tasks]
    t0 = time.time()
    with Pool(nproc or common.NCPU) as p:
        res = list(p.imap_unordered(_work, tasks, chunksize=1))
    # obligations left undecided while all cores were busy get one more attempt, alone, with 4x the budgets
    retry = [i for i, r in enumerate(res) if any(o.get('status') == 'unknown' for o in r.get('bad', ()))]
    if retry:
        from pyvc import solve
        z, c = solve.Z3_TIMEOUT_MS, solve.CVC5_TIMEOUT_S
        solve.Z3_TIMEOUT_MS, solve.CVC5_TIMEOUT_S = 4 * z, 4 * c
        try:
            for i in retry[:40]:
                r = res[i]
                res[i] = _work((r['cls'], r['machine'], r['table'], r['index'], nx, seed))
                res[i]['retried'] = True
        finally:
            solve.Z3_TIMEOUT_MS, solve.CVC5_TIMEOUT_S = z, c
    order = {tn: k for k, tn in enumerate(TABLES)}
    res.sort(key=lambda r: (order.get(r['table'], 9), r['index']))
    return {'cls': cls, 'machine': machine, 'slots': res, 'nslots': nslots, 'wall': time.time() - t0}


def run_all(configs=CONFIGS, nx=4, use_cache=True, verbose=True):
    """Returns {'hash':..., 'configs': {(cls,machine): run}, 'cache_hit': bool}"""
    os.makedirs(CACHE_DIR, exist_ok=True)
    h = tree_hash()
    seed = common.seed()
    out = {'hash': h, 'configs': {}, 'cache_hit': {}}
    for cls, machine in configs:
        path = os.path.join(CACHE_DIR, 'simvc_%s_%s_%s_nx%d_s%d.pkl.gz' % (h, cls, machine, nx, seed))
        lock = open(path + '.lock', 'w')
        fcntl.flock(lock, fcntl.LOCK_EX)
        try:
            run = None
            if use_cache and not os.environ.get('VERIF_SLOTS') and os.path.exists(path):
                try:
                    with gzip.open(path, 'rb') as f:
                        run = pickle.load(f)
                    out['cache_hit'][(cls, machine)] = True
                except Exception:
                    run = None
            if run is None:
                if verbose:
                    print('[simrun] verifying %s/%sK slots ...' % (cls, machine), flush=True)
                run = run_config(cls, machine, nx, seed)
                out['cache_hit'][(cls, machine)] = False
                if not os.environ.get('VERIF_SLOTS'):
                    tmp = path + '.tmp%d' % os.getpid()
                    with gzip.open(tmp, 'wb') as f:
                        pickle.dump(run, f)
                    os.replace(tmp, path)
                if verbose:
                    print('[simrun] %s/%sK: %d slots in %.1fs' % (cls, machine, len(run['slots']), run['wall']), flush=True)
            out['configs'][(cls, machine)] = run
        finally:
            fcntl.flock(lock, fcntl.LOCK_UN)
            lock.close()
    # keep the cache small: drop files of other tree states (not when a scratch tree is being checked)
    for f in glob.glob(os.path.join(CACHE_DIR, 'simvc_*')):
        if h not in f and REPO == '/repo' and not os.environ.get('VERIF_SLOTS'):
            try:
                os.unlink(f)
            except OSError:
                pass
    return out
