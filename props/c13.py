"""C13 - Simulated LOAD results do not depend on speed-up options or simulator choice.

P: LoadTracer.dec_a (the Python DEC A accelerator): the miss branch equals the
   plain DEC A step; each hit branch (DEC A: JR NZ,$-1 / DEC A: JP NZ,$-1 with
   IFF == 0) equals a' = (A or 256) iterations of the two instructions as given
   by the ISA contracts proved for the closures - by induction on the iteration
   count (base / step for a symbolic k / final, each discharged by z3), then the
   real code against the closed form.
P: every entry of loadsample.ACCELERATORS (props/progexec.py): the signature's own
   bytes are executed symbolically over the ISA contracts; under the condition
   _read_port tests, one real trip round the loop equals one fast-forwarded
   iteration (loop_time, loop_r_inc, counter, flags, frame; exits infeasible), up
   to components proved dead at the IN instruction.
P: the fast-forward statement of LoadTracer._read_port (mechanical slice of the
   real function) equals `loops` such iterations, never skips an IN after the
   next edge and never the iteration that ends the count.
B: final-snapshot equality of tap2sna.main across accelerator / accelerate-dec-a
   / pause / python settings, and loaded-bytes/PC/SP equality across fast-load
   and cmio, on tapes made by bin2tap. Signature matching, the edge bookkeeping of
   LoadTracer.run and the C re-implementation are covered only by this part.
"""
import contextlib
import io
import os
import random
import shutil
import tempfile
import time
from multiprocessing import Pool

import z3

from props import common, simvc
from props.funcvc import FuncVC
from pyvc import poly
from pyvc.poly import SV, SB, ite, and_, or_, not_, sv, cmpop, truth
from pyvc.engine import Engine, ObjModel, SymList, SymMem
from pyvc.solve import check_sat
from contracts import z80spec as Z


def closed_form(regs, a1, kind):
    """State after a' iterations of DEC A ; JR/JP NZ back (final iteration falls through)."""
    r = list(regs)
    r[Z.A] = 0
    r[Z.F] = 0x42 | (regs[Z.F] & 1)
    r[Z.R] = Z.r_inc(regs[Z.R], 0) if False else (regs[Z.R] & 0x80) | ((regs[Z.R] + 2 * a1) & 0x7F)
    if kind == 'jr':
        r[Z.T] = regs[Z.T] + 16 * a1 - 5
        r[Z.PC] = (regs[Z.PC] + 3) & 0xFFFF
    else:
        r[Z.T] = regs[Z.T] + 14 * a1
        r[Z.PC] = (regs[Z.PC] + 4) & 0xFFFF
    return r


def induction(rep, kind):
    """Spec-level induction: iterating Step(DEC A); Step(JR/JP NZ) from the pre-state
    gives closed_form after a' iterations. k is symbolic."""
    W = poly.W
    name = 'lemma: DEC A ; %s NZ,$-1 iterated == closed form' % kind.upper()
    t0 = time.time()
    facts = []
    defs = []
    old = poly.set_collectors(facts, defs)
    try:
        regs = simvc.initial_regs()
        pre = simvc.wf_pre(regs)
        arr = z3.Array('mem', z3.BitVecSort(W), z3.BitVecSort(W))
        pc = regs[Z.PC]
        cfg = Z.Cfg(machine=48)
        a1 = ite(regs[Z.A] == 0, 256, regs[Z.A])
        k = SV(z3.BitVec('k', W), 0, 255)
        facts.append(z3.And(k.t >= 0, k.t < sv(a1).t))
        # program bytes
        pb = [0x3D, 0x20, 0xFD] if kind == 'jr' else [0x3D, 0xC2, None, None]
        for i, b in enumerate(pb):
            cell = z3.Select(arr, sv((pc + i) & 0xFFFF).t)
            if b is None:
                b = (pc & 255) if i == 2 else (pc >> 8)
            facts.append(cell == sv(b).t)

        def state_k(kk):
            s = list(regs)
            s[Z.A] = (regs[Z.A] - kk) & 255
            s[Z.F] = SV(z3.BitVec('Fk', W), 0, 255)        # flags after k iterations: only the carry is known to be the original one
            s[Z.R] = (regs[Z.R] & 0x80) | ((regs[Z.R] + 2 * kk) & 0x7F)
            s[Z.T] = regs[Z.T] + (16 if kind == 'jr' else 14) * kk
            return s
        sk = state_k(k)
        facts.append(z3.And(sk[Z.F].t >= 0, sk[Z.F].t <= 255, (sk[Z.F].t & 1) == (regs[Z.F].t & 1)))
        m1 = simvc.SpecSymMem(arr, facts)
        s1 = Z.Step('', 0x3D, sk, m1, cfg)
        m2 = simvc.SpecSymMem(m1.arr, facts)
        s2 = Z.Step('', 0x20 if kind == 'jr' else 0xC2, s1.r, m2, cfg)
        nxt = state_k(k + 1)
        last = cmpop('==', k + 1, a1)
        obligations = []
        # step: not the last iteration -> back at pc with state k+1 (flags: carry preserved)
        step_ok = and_(*[cmpop('==', s2.r[i], nxt[i]) for i in range(30) if i != Z.F], cmpop('==', s2.r[Z.F] & 1, regs[Z.F] & 1), SB(m2.arr == arr))
        obligations.append(('step', or_(last, step_ok)))
        cf = closed_form(regs, a1, kind)
        final_ok = and_(*[cmpop('==', s2.r[i], cf[i]) for i in range(30)], SB(m2.arr == arr))
        obligations.append(('final', or_(not_(last), final_ok)))
        for oname, cond in obligations:
            ts = time.time()
            r, backend, model = check_sat(pre + facts + [z3.Not(poly.bterm(cond))])
            rep.add('C13/%s/%s' % (name, oname), 'proved' if r == 'unsat' else ('failed' if r == 'sat' else 'unknown'), backend, time.time() - ts, name)
            if r == 'sat':
                rep.errors.append('induction %s for %s fails: the closed form in the contract is wrong' % (oname, kind))
    finally:
        poly.set_collectors(*old)


def check_dec_a(rep):
    import skoolkit.loadtracer as LT
    from skoolkit.simulator import Simulator
    W = poly.W
    mach = simvc.get_machine('Simulator', 48)
    for kind in ('jr', 'jp'):
        induction(rep, kind)

    class FakeTracer:
        pass

    def start(eng):
        p = eng.path
        regs = simvc.initial_regs()
        p.regs0 = list(regs)
        p.reglist = SymList(regs, 'registers')
        p.mem = SymMem('mem')
        sim = ObjModel(None, name='simulator')
        sim.attrs.update({'registers': p.reglist, 'memory': p.mem})
        tr = ObjModel(None, name='tracer', cls=LT.LoadTracer)
        tr.attrs.update({'simulator': sim, 'dec_a_jr_hits': 0, 'dec_a_jp_hits': 0, 'dec_a_misses': 0})
        eng.objmap = dict(mach.tabreg)
        func = eng.call_function(LT.LoadTracer.dec_a, [tr, True, True])
        p.ret = eng.call_function(func, [])
        p.tr = tr

    def post(p, prove):
        regs = p.reglist.items
        r0 = p.regs0
        pc = r0[Z.PC]
        smem = simvc.SpecSymMem(p.mem.arr0, poly._facts)
        m1 = smem.rd((pc + 1) & 0xFFFF)
        m2 = smem.rd((pc + 2) & 0xFFFF)
        m3 = smem.rd((pc + 3) & 0xFFFF)
        jr_hit = and_(r0[Z.IFF] == 0, m1 == 0x20, m2 == 0xFD)
        jp_hit = and_(r0[Z.IFF] == 0, not_(jr_hit), m1 == 0xC2, m2 == (pc & 255), m3 == (pc >> 8))
        a1 = ite(r0[Z.A] == 0, 256, r0[Z.A])
        cf_jr = closed_form(r0, a1, 'jr')
        cf_jp = closed_form(r0, a1, 'jp')
        plain = Z.Step('', 0x3D, r0, simvc.SpecSymMem(p.mem.arr0, poly._facts), Z.Cfg(machine=48))
        for i in range(30):
            exp = ite(jr_hit, cf_jr[i], ite(jp_hit, cf_jp[i], plain.r[i]))
            got = regs[i]
            prove('post.' + Z.REGNAMES[i], cmpop('==', got, exp))
        prove('post.mem', p.mem.arr.eq(p.mem.arr0))
        for i in range(30):
            if regs[i] is not r0[i] and i != Z.T:
                lo, hi = simvc.reg_interval(i)
                prove('reg_range.' + Z.REGNAMES[i], and_(cmpop('>=', regs[i], lo), cmpop('<=', regs[i], hi)))
    eng = simvc.SimEngine(inline_ok=lambda f: f.__module__ == 'skoolkit.loadtracer')
    FuncVC(rep, 'C13', LT.LoadTracer.dec_a, 'skoolkit.loadtracer.LoadTracer.dec_a', eng, pre=lambda p: simvc.wf_pre(p.regs0)).run(start, post, replay_dec_a)


def replay_dec_a(vals, kind):
    regs = [vals.get('r%d' % i, 0) for i in range(30)]
    for which in ('jr', 'jp'):
        for r_ in (regs[Z.R], regs[Z.R] | 0x80, regs[Z.R] & 0x7F):
            rr = list(regs)
            rr[Z.R] = r_
            d = concrete_dec_a(rr, vals, which)
            if d:
                return {'case': {'regs': rr, 'loop': which}, 'diffs': d}
    return {'case': {'regs': regs}, 'diffs': []}


def concrete_dec_a(regs, vals=None, which='jr'):
    """Accelerated closure vs stepping DEC A / JR NZ on the plain simulator."""
    import skoolkit.loadtracer as LT
    from skoolkit.simulator import Simulator
    regs = list(regs)
    pc = regs[Z.PC] & 0xFFFF
    regs[Z.IFF] = 0
    base = [0] * 65536
    seq = [0x3D, 0x20, 0xFD] if which == 'jr' else [0x3D, 0xC2, pc & 255, pc >> 8]
    for i, b in enumerate(seq):
        base[(pc + i) & 0xFFFF] = b
    m1 = list(base)
    s1 = Simulator(m1)
    s1.registers[:] = regs

    class T:
        pass
    t = object.__new__(LT.LoadTracer)
    t.simulator = s1
    t.dec_a_jr_hits = t.dec_a_jp_hits = t.dec_a_misses = 0
    f = t.dec_a(True, True)
    f()
    m2 = list(base)
    s2 = Simulator(m2)
    s2.registers[:] = regs
    for _ in range(600):
        s2.run(s2.registers[Z.PC])
        if s2.registers[Z.PC] != pc and s2.registers[Z.PC] != (pc + 1) & 0xFFFF:
            break
    d = [(Z.REGNAMES[i], s1.registers[i], s2.registers[i]) for i in range(30) if s1.registers[i] != s2.registers[i]]
    return d


# ------------------------------------------------------------------ B
def _run_main(mainf, args):
    out = io.StringIO()
    with contextlib.redirect_stdout(out), contextlib.redirect_stderr(out):
        try:
            mainf(args)
            return out.getvalue()
        except SystemExit as e:
            return out.getvalue() + '\nEXIT %s' % e
        except Exception as e:
            return out.getvalue() + '\nEXC %r' % (e,)


def option_case(args):
    seed, k = args
    from skoolkit import bin2tap, tap2sna
    from skoolkit.snapshot import Snapshot
    rnd = random.Random('%s/opt/%s' % (seed, k))
    tmp = tempfile.mkdtemp(prefix='c13_')
    try:
        L = rnd.choice((5, 100, rnd.randrange(1, 1200)))
        org = rnd.choice((32768, 40000, rnd.randrange(24000, 65536 - L)))
        data = bytes(rnd.randrange(256) for _ in range(L))
        binf = os.path.join(tmp, 'x.bin')
        with open(binf, 'wb') as f:
            f.write(data)
        ext = rnd.choice(('tap', 'pzx'))
        tapef = os.path.join(tmp, 'x.' + ext)
        clear = org - 1 - rnd.randrange(0, 20)
        o1 = _run_main(bin2tap.main, ['-o', str(org), '-s', str(org), '-c', str(clear), binf, tapef])
        if 'EXC' in o1 or 'EXIT' in o1:
            return ('bin2tap', 'seed=%s/%s' % (seed, k), o1[-150:])

        def load(cfg):
            z = os.path.join(tmp, 'o%d.z80' % load.n)
            load.n += 1
            args = []
            for c in cfg:
                args += ['-c', c]
            o = _run_main(tap2sna.main, args + [tapef, z])
            if not os.path.exists(z):
                return None, o[-200:]
            s = Snapshot.get(z)
            regs = (s.a, s.f, s.bc, s.de, s.hl, s.a2, s.f2, s.bc2, s.de2, s.hl2, s.ix, s.iy, s.sp, s.i, s.r, s.pc, s.iff1, s.im, s.border, s.tstates)
            why = [l for l in o.split('\n') if l.startswith('Simulation stopped')]
            return (regs, list(s.ram())), (why[-1].split(':')[0] if why else o)
        load.n = 0
        ref, o = load(['accelerator=none', 'accelerate-dec-a=0', 'fast-load=0'])
        ref_why = o
        if ref is None:
            return ('reference load failed', 'seed=%s/%s org=%d len=%d %s' % (seed, k, org, L, ext), o)
        variants = [['accelerator=auto', 'accelerate-dec-a=1', 'fast-load=0'], ['accelerator=rom', 'accelerate-dec-a=2', 'fast-load=0'],
                    ['accelerator=none', 'accelerate-dec-a=0', 'fast-load=0', 'python=1'], ['accelerator=auto', 'accelerate-dec-a=1', 'fast-load=0', 'python=1'],
                    ['accelerator=auto', 'accelerate-dec-a=3', 'fast-load=0', 'pause=0']]
        v = rnd.sample(variants, 2)
        for cfg in v:
            got, o = load(cfg)
            desc = 'seed=%s/%s org=%d len=%d %s config=%s' % (seed, k, org, L, ext, ' '.join(cfg))
            if got is None:
                return ('load failed', desc, o)
            if got != ref:
                names = ('a', 'f', 'bc', 'de', 'hl', 'a2', 'f2', 'bc2', 'de2', 'hl2', 'ix', 'iy', 'sp', 'i', 'r', 'pc', 'iff', 'im', 'border', 'tstates')
                d = [(names[i], got[0][i], ref[0][i]) for i in range(len(names)) if got[0][i] != ref[0][i]]
                if got[1] != ref[1]:
                    d.append(('ram', [a + 16384 for a in range(49152) if got[1][a] != ref[1][a]][:4]))
                return ('snapshot differs', desc, d[:6])
        if k % 3 == 0:
            # with contention simulation the choice of simulator still must not matter (acceleration is off under cmio=1,
            # whatever the accelerator options say)
            c0, o0 = load(['cmio=1', 'fast-load=0'])
            c1, o1_ = load(['cmio=1', 'fast-load=0', 'python=1', 'accelerate-dec-a=%d' % rnd.randrange(4)])
            desc = 'seed=%s/%s org=%d len=%d %s config=cmio=1 fast-load=0: python=0 against python=1' % (seed, k, org, L, ext)
            if c0 is None or c1 is None:
                return ('load failed', desc, o0 if c0 is None else o1_)
            if c0 != c1:
                names = ('a', 'f', 'bc', 'de', 'hl', 'a2', 'f2', 'bc2', 'de2', 'hl2', 'ix', 'iy', 'sp', 'i', 'r', 'pc', 'iff', 'im', 'border', 'tstates')
                d = [(names[i], c1[0][i], c0[0][i]) for i in range(len(names)) if c1[0][i] != c0[0][i]]
                if c1[1] != c0[1]:
                    d.append(('ram', [a + 16384 for a in range(49152) if c1[1][a] != c0[1][a]][:4]))
                return ('snapshot differs', desc, d[:6])
        # fast-load / cmio may change scratch state but not the loaded bytes, PC, SP
        cfg = rnd.choice((['fast-load=1'], ['cmio=1', 'fast-load=0', 'accelerator=none']))
        got, o = load(cfg)
        desc = 'seed=%s/%s org=%d len=%d %s config=%s' % (seed, k, org, L, ext, ' '.join(cfg))
        if got is None:
            return ('load failed', desc, o)
        mem = [0] * 16384 + got[1]
        if bytes(mem[org:org + L]) != data:
            return ('loaded bytes differ', desc, [a for a in range(org, org + L) if mem[a] != data[a - org]][:4])
        # PC/SP are comparable when both simulations stopped for the same reason (without fast loading the
        # simulation stops at the end of the tape, inside the ROM's LD-BYTES, as documented for tap2sna)
        if o == ref_why and (got[0][15] != ref[0][15] or got[0][12] != ref[0][12]):
            return ('PC/SP differ', desc, (got[0][15], ref[0][15], got[0][12], ref[0][12]))
        return None
    finally:
        shutil.rmtree(tmp, ignore_errors=True)


def run(tier):
    rep = common.Report('C13', tier, 'other', './check C13 --tier %s' % tier)
    rep.trust('pyvc, z3, contracts/z80spec (the ISA contracts proved for the closures under C05); CPython + tap2sna itself for the bounded part')
    rep.assume('dec_a hit branches require IFF == 0 (checked by the code): no interrupt can be accepted between the iterations they replace')
    rep.assume('accelerator matching (signature comparison, move-to-front), the rest of LoadTracer.run (interrupts, stop conditions, block transitions) and the C re-implementation CSimulator_load are not under VC: bounded option differential only')
    rep.assume('composition of the per-iteration accelerator obligations into `loops` iterations is the induction argument of props/progexec.py (pred preserves cond and inv; D-equivalence is a bisimulation by O3); the induction itself is on paper, its premises are the discharged obligations')
    from props import tablecheck
    for mod, name, b in tablecheck.check_tables(rep, names=('DEC', 'DEC0', 'INC0', 'R1')):
        rep.violation('C13/table/%s.%s' % (mod, name), 'table %s.%s entry %s: real %s, flag rules give %s' % (mod, name, b[1], b[2], b[3]), {'table': name, 'index': b[1]})
    check_dec_a(rep)
    from props import progexec
    progexec.check_accelerators(rep)        # every ACCELERATORS entry: one real trip round the loop == one fast-forwarded iteration
    progexec.check_ffwd_arith(rep)          # the real fast-forward statement of _read_port == `loops` such iterations, never past the edge
    from props import fastloadvc, edgevc
    edgevc.check_edge_bookkeeping(rep, 'C13')   # LoadTracer.run: edge index advanced over exactly the edges strictly before the current time
    edgevc.check_fast_load_bookkeeping(rep, 'C13')   # ... and set to the block's last edge after a fast load
    fastloadvc.check_fast_load(rep, 'C13')  # ROM fast loading: which bytes land where, registers on exit
    fastloadvc.crosscheck_fast_load(rep, 'C13')
    # the tracer's port decoder (LoadTracer inherits PagingTracer.write_port): on a 48K machine out7ffd - which run() sets to 0x10 as
    # "the 48K ROM is always in" and tests before reading the tape at 0x0562..0x05F1 / fast loading at 0x0556 - is never changed
    from props import paging
    for label, fn, via, cls in paging.write_port_targets():
        if label.startswith('skoolkit.pagingtracer.PagingTracer.write_port'):
            for is128 in (False, True):
                paging.check_write_port(rep, 'C13', label, fn, via, cls, is128)
    fastloadvc.check_block_selection(rep, 'C13')    # which block fast_load picks: the selection loop and next_block (contracts, termination)
    fastloadvc.block_selection_bounded(rep, 'C13')  # pilotless junk blocks between ROM blocks, through tap2sna
    progexec.crosscheck_ffwd(rep, 'C13')
    quick = tier == 'quick'
    n = 16 if quick else 300
    with Pool(common.NCPU) as p:
        res = p.map(option_case, [(common.seed(), k) for k in range(n)], chunksize=1)
    bad = [r for r in res if r]
    rep.bounded.append({'function': 'skoolkit.tap2sna.main (simulated LOAD under different speed-up options)', 'contract': 'bit-identical snapshot across accelerator/accelerate-dec-a/pause/python; same loaded bytes, PC, SP across fast-load/cmio',
                        'bound': '%d generated tapes (bin2tap, tap/pzx) x 3 option sets each' % n, 'evaluations': n * 4})
    seen = set()
    for b in bad:
        key = 'C13/options/%s' % b[0]
        if key in seen:
            continue
        seen.add(key)
        rep.violation(key, 'tap2sna %s: %s' % (b[1], b[2]), {'case': {'desc': b[1]}, 'observed': b[2]})
    rep.extra['explanation'] = ('P: dec_a accelerator against the ISA contracts by induction; every tape-sampling accelerator table entry against the ISA contracts '
                                '(program-level symbolic execution of its signature bytes); the fast-forward arithmetic of _read_port against its closed form. '
                                'B: option differential of whole loads')
    return rep.finish()


def replay(path):
    import json
    with open(path) as f:
        doc = json.load(f)
    print('replaying', doc.get('key'), doc.get('case'))
    case = doc.get('case') or {}
    if 'block' in case and 'regs' in case:
        from props import fastloadvc
        d = fastloadvc.concrete_fast_load(case['regs'], case['block'])
        print('real fast_load vs contract:', d)
        if d:
            print('VIOLATION property=C13 replay=%s' % path)
            return 1
        return 0
    if 'port' in case and 'out7ffd' in case and 'is128' in case:
        from props import paging
        import skoolkit.pagingtracer as pt
        bad = False
        for fn in (pt.PagingTracer.write_port, pt.PagingTracer.write_port_with_border_list):
            d = paging.concrete_write_port(fn, 'simulator', pt.PagingTracer, case['is128'], case['port'], case['value'], case['out7ffd'], case.get('outfffd', 0))
            print(fn.__name__, d)
            bad = bad or bool(d)
        if bad:
            print('VIOLATION property=C13 replay=%s' % path)
            return 1
        print('does not reproduce on this tree')
        return 0
    if 'block_selection' in case or 'blocks' in case:
        from props import fastloadvc
        if 'blocks' in case:
            r = fastloadvc.concrete_selection()
        else:
            r = fastloadvc.block_selection_scenarios(tuple(case['block_selection']))
        print(r['diffs'][:2])
        if r['diffs']:
            print('VIOLATION property=C13 replay=%s' % path)
            return 1
        print('does not reproduce on this tree')
        return 0
    if 'accelerator_fields' in case:
        from props import progexec
        d = progexec.concrete_ffwd(case['regs'], case['next_edge_t'], case['edge_index'], tuple(case['accelerator_fields']))
        print('real _read_port closure vs closed form:', d)
        if d:
            print('VIOLATION property=C13 replay=%s' % path)
            return 1
        print('does not reproduce on this tree')
        return 0
    if doc.get('no_failing_input_found'):
        print(doc.get('what'))
        print('VIOLATION property=C13 replay=%s no-failing-input-found' % path)
        return 1
    if 'regs' in case:
        for which in ('jr', 'jp'):
            d = concrete_dec_a(case['regs'], which=which)
            print(which, d)
            if d:
                print('VIOLATION property=C13 replay=%s' % path)
                return 1
        return 0
    return 1
