"""C06 - All four simulator implementations execute every program identically.

No verifier for C is installed, so the C functions cannot be put under
machine-checked contract. The bridge: every Python slot is *proved* equal to
z80spec.Step (shared with C05/C19, reported here per class); the C side is the
bounded stand-in bounded/c06_worker.py (run under the repo's interpreter after
rebuilding the extension from c/csimulator.c): per-slot single steps against the
same contract, Python-vs-C lock-step programs, accept_interrupt.
"""
import json
import os
import subprocess
import sys

from props import common, simrun, simprops
from props.c08 import TRUSTED, ASSUME

VENV_PY = '/venv/bin/python'


def run(tier):
    rep = common.Report('C06', tier, 'other', './check C06 --tier %s' % tier)
    for t in TRUSTED:
        rep.trust(t)
    for a in ASSUME:
        rep.assume(a)
    rep.assume('C implementations: bounded differential only, never counted as proved; skoolkit/__init__.py implementation selection is import-time and not under contract')
    rep.assume('MEMPTR is not specified by the ISA oracle: Python-vs-C MEMPTR equality is bounded only')
    # P: both Python classes against the same oracle (so they agree with each other on everything but T/MEMPTR)
    out = simrun.run_all(nx=4 if tier == 'quick' else 40)
    simprops.gather(rep, out, lambda kind, cmio: simprops.is_func(kind, cmio) or simprops.is_timing(kind, cmio), lambda d: d.startswith('post.') or d.startswith('frame.'), 'C06')
    # P: the interrupt loop of Simulator.run (inherited by CMIOSimulator): an interrupt is offered after an instruction iff the
    # clock is then inside the INT window and IFF is set - the rule the C simulators implement by re-testing after every instruction
    from props import c10
    c10.schedule_lemma(rep, 'simulator', prop='C06')
    # B: the C side
    env = dict(os.environ)
    env['PYTHONPATH'] = '%s:%s' % (os.environ.get('VERIF_REPO', '/repo'), common.ROOT)
    r = subprocess.run([VENV_PY, os.path.join(common.ROOT, 'bounded', 'c06_worker.py'), tier, str(common.seed())], capture_output=True, text=True, env=env)
    if r.returncode != 0 or not r.stdout.strip():
        rep.errors.append('C worker failed: %s' % r.stderr[-600:])
        return rep.finish()
    doc = json.loads(r.stdout.strip().split('\n')[-1])
    for it in doc['items']:
        rep.bounded.append(it)
    for v in doc['violations']:
        rep.violation('C06/' + v['key'], v['what'], {'case': v.get('case'), 'observed_vs_expected': v.get('diffs'), 'worker': 'bounded/c06_worker.py'})
    rep.extra['c_build_s'] = doc.get('build_s')
    rep.extra['explanation'] = ('Python half: every slot of Simulator and CMIOSimulator proved equal to the same ISA oracle (P). C half: bounded differential of the rebuilt '
                               'extension modules against that oracle and against the Python classes in lock step (B).')
    return rep.finish()


def replay(path):
    with open(path) as f:
        doc = json.load(f)
    print('replaying', doc.get('key'))
    case = doc.get('case') or {}
    if doc.get('key', '').endswith('no-tracer/out7ffd') or case.get('paged_without_tracer'):
        code = ("from skoolkit import CSimulator, simutils\nfrom skoolkit.simulator import Simulator\nfrom skoolkit.pagingtracer import Memory\n"
                "def mk():\n m=Memory(); m.banks[0][0]=11; m.banks[1][0]=22\n for i,b in enumerate([1,0xFD,0x7F,0x3E,1,0xED,0x79,0x3A,0,0xC0]): m[0x8000+i]=b\n return m\n"
                "m1=mk(); p=simutils.from_memory(Simulator,m1); p.run(0x8000,0x800A)\nm2=mk(); m2.convert(); c=simutils.from_memory(CSimulator,m2); c.run(0x8000,0x800A)\n"
                "print('A after LD BC,7FFD; LD A,1; OUT (C),A; LD A,(C000): python', p.registers[0], 'C', c.registers[0])\nimport sys; sys.exit(1 if p.registers[0]!=c.registers[0] else 0)\n")
        r = subprocess.run([VENV_PY, '-c', code], capture_output=True, text=True, env={**os.environ, 'PYTHONPATH': os.environ.get('VERIF_REPO', '/repo')})
        print(r.stdout, r.stderr[-300:])
        if r.returncode == 1:
            print('VIOLATION property=C06 replay=%s' % path)
            return 1
        return 0
    if 'table' in case:
        from props import simvc
        d = simvc.concrete_run(case)
        print('python closure vs contract:', d)
    print(doc.get('what'))
    return 1
