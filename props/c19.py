"""C19 - Contention simulation only ever adds the delays the ULA would impose."""
from props import common, simrun, simprops, tablecheck
from props.c08 import TRUSTED, ASSUME


def diff_select(name):
    return name.startswith('post.') or name in ('exception', 't_mono')


def run(tier):
    rep = common.Report('C19', tier, 'proof', './check C19 --tier %s' % tier)
    for t in TRUSTED:
        rep.trust(t)
    for a in ASSUME:
        rep.assume(a)
    rep.trust('machine-cycle breakdowns of DESIGN.md Appendix A (comp.sys.sinclair FAQ) as transcribed in contracts/z80spec.py')
    rep.assume('repeating OTIR/OTDR: the five extra bc:1 cycles are accepted with BC before or after the decrement of B (oracle ambiguity, DESIGN.md C19)')
    rep.assume('while halted the fetch address is PC+1 (as skoolkit models the HALT state)')
    bad = tablecheck.check_tables(rep, names=('DELAYS_48K', 'DELAYS_128K'))
    for mod, name, b in bad:
        rep.violation('C19/table/%s.%s' % (mod, name), 'delay table %s entry %s: real %s, closed form %s' % (name, b[1], b[2], b[3]),
                      {'table': name, 'index': b[1], 'real': b[2], 'contract': b[3]})
    check_constants(rep)
    out = simrun.run_all(configs=(('CMIOSimulator', 48), ('CMIOSimulator', 128)), nx=4 if tier == 'quick' else 40)
    simprops.gather(rep, out, lambda kind, cmio: cmio and (simprops.is_timing(kind, cmio) or simprops.is_func(kind, cmio)), diff_select, 'C19')
    rep.extra['explanation'] = ('for every CMIOSimulator slot (48K and 128K, symbolic o7ffd) and every path: post-state equals the plain-simulator spec, '
                               'T\' - T == base timing + fold of the documented machine-cycle list through the ULA delay function at the symbolic frame position; '
                               'corollaries T\'-T >= base and == base when uncontended or outside the display are separate obligations; delay tables exhaustively '
                               'against the closed form')
    return rep.finish()


def check_constants(rep):
    """t0/t1 window constants and the lemmas behind the opaque ULA function."""
    import z3
    from contracts import z80spec as Z
    from pyvc import poly
    from pyvc.solve import check_sat
    from skoolkit.simutils import CONTENTION_INTERVALS, FRAME_DURATIONS, INT_ACTIVE
    import time
    for k, machine in enumerate((48, 128)):
        ok = (CONTENTION_INTERVALS[k][0] == Z.CONT_FIRST[machine] and CONTENTION_INTERVALS[k][1] == Z.ula_last(machine)
              and FRAME_DURATIONS[k] == Z.FRAME[machine] and INT_ACTIVE[k] == Z.INT_ACTIVE[machine])
        rep.add('C19/simutils.constants[%d]' % machine, 'proved' if ok else 'failed', 'exhaustive', 0, 'skoolkit.simutils.CONTENTION_INTERVALS')
        if not ok:
            rep.violation('C19/simutils.constants[%d]' % machine, 'frame/contention constants differ from the documented ones: %s %s %s' % (
                CONTENTION_INTERVALS[k], FRAME_DURATIONS[k], INT_ACTIVE[k]), {'machine': machine}, no_input=True)
        # lemma ula_window: the cheap facts asserted about every application of the opaque delay function
        t0 = time.time()
        t = poly.SV(z3.BitVec('t', poly.W), 0, (1 << 38) - 1)
        old = poly.set_collectors([], [])
        poly._revealing = True
        try:
            d = poly.sv(Z.ula_delay_def(machine, t))
        finally:
            poly._revealing = False
            poly.set_collectors(*old)
        first, last = Z.CONT_FIRST[machine], Z.ula_last(machine)
        claim = z3.And(d.t >= 0, d.t <= 6, z3.Or(z3.And(t.t >= first, t.t < last), d.t == 0))
        r, backend, model = check_sat([t.t >= 0, t.t < (1 << 38), z3.Not(claim)])
        rep.add('C19/lemma.ula_window[%d]' % machine, 'proved' if r == 'unsat' else ('failed' if r == 'sat' else 'unknown'), backend, time.time() - t0,
                'contracts.z80spec.ula_delay_at')
        if r == 'sat':
            rep.errors.append('lemma ula_window[%d] is false: the opaque-function facts are unsound' % machine)
