"""Contract of skoolkit.opcodes.decode (used as a callee contract by C14 and C01):
every yielded (addr, size, ...) has start <= addr < end and 1 <= size <= 4, the
first addr is `start`, and consecutive addresses differ by exactly `size`
(no RST handler).  E: the size column of the five opcode dictionaries; P: the
decode loop and its helper functions with dictionary lookups replaced by that
fact (a lookup either yields a size in the dictionary's range or raises KeyError)."""
import ast

import z3

from pyvc import poly
from pyvc.poly import SV, SB, and_, or_, not_, cmpop, ite
from pyvc.engine import Engine, CallModel, UNK, PathEnd, _Raise, func_ast
from props.funcvc import FuncVC


class SizeDict:
    def __init__(self, name, lo, hi, total):
        self.name, self.lo, self.hi, self.total = name, lo, hi, total


class SnapBytes:
    pass


class DecodeEngine(Engine):
    def getitem(self, base, idx, node):
        if isinstance(base, SnapBytes):
            if isinstance(idx, (tuple, slice)):
                return UNK
            return self.fresh('byte', 0, 255)
        if isinstance(base, SizeDict):
            if not base.total:
                self.fresh_n += 1
                present = SB(z3.Bool('present!%d' % self.fresh_n))
                if not self.decide(present):
                    raise _Raise(KeyError('opcode'))
            return (self.fresh('size', base.lo, base.hi), self.fresh('max_count', 0, 8), self.fresh('op_id', 0, 1 << 17), UNK)
        return super().getitem(base, idx, node)


def check_decode(rep, prop):
    import skoolkit.opcodes as O
    W = poly.W
    # ---- E: sizes in the dictionaries
    dicts = {}
    bad = []
    n = 0
    for name, total in (('OPCODES', False), ('AFTER_CB', True), ('AFTER_DD', False), ('AFTER_FD', False), ('AFTER_ED', False), ('AFTER_DDCB', False), ('AFTER_FDCB', False)):
        d = getattr(O, name)
        sizes = [v[0] for v in d.values()]
        n += len(d)
        if not all(isinstance(k, int) and 0 <= k <= 255 for k in d) or not all(isinstance(x, int) and 1 <= x <= 4 for x in sizes):
            bad.append(name)
        if total and sorted(d) != list(range(256)):
            bad.append(name + ' is not total')
        dicts[name] = SizeDict(name, min(sizes), max(sizes), total)
    for k in (0xCB, 0xED, 0xDD, 0xFD):
        n += 1
    # decode() looks OPCODES up for every byte that is not a prefix: it must be total on those
    if sorted(O.OPCODES) != [k for k in range(256) if k not in (0xCB, 0xED, 0xDD, 0xFD)]:
        bad.append('OPCODES keys')
    dicts['OPCODES'].total = True
    rep.add_bulk(n if not bad else 0, 'exhaustive', 0, 'skoolkit.opcodes size columns', n=n)
    for b in bad:
        rep.violation('%s/opcodes.tables/%s' % (prop, b), 'opcode dictionary %s: key/size column outside the contract (keys 0..255, sizes 1..4)' % b, {'table': b}, no_input=True)

    # ---- P: the decode loop
    fn = O.decode
    node, _ = func_ast(fn)
    loops = sorted([x for x in ast.walk(node) if isinstance(x, (ast.While, ast.For))], key=lambda x: (x.lineno, x.col_offset))
    q = fn.__qualname__

    def start(eng):
        p = eng.path
        p.start = SV(z3.BitVec('start', W), 0, 65535)
        p.end = SV(z3.BitVec('end', W), 1, 65536)
        p.facts.extend([p.start.t >= 0, p.start.t < p.end.t, p.end.t <= 65536])
        p.yields = []
        eng.objmap = {id(getattr(O, k)): v for k, v in dicts.items()}
        p.expect = p.start        # ghost: the address the next yielded instruction must have

        def on_yield(e, v, n_):
            addr, size = v[0], v[1]
            e.oblige('yield.addr_is_cursor', cmpop('==', addr, p.expect), n_)
            e.oblige('yield.addr_in_range', and_(cmpop('>=', addr, p.start), cmpop('<', addr, p.end)), n_)
            e.oblige('yield.size', and_(cmpop('>=', size, 1), cmpop('<=', size, 4)), n_)
            p.expect = addr + size
            p.yields.append((addr, size))
        eng.on_yield = on_yield

        def defb(e, args, kwargs, n_):
            return (args[2], 0, UNK, UNK)
        eng.call_models[id(O._defb)] = defb

        def loop(e, node_):
            fr = e.frames[-1]
            e.oblige('inv.establish', cmpop('==', fr.loc['addr'], p.expect), node_)
            a = e.fresh('addr', 0, 65539)
            fr.loc['addr'] = a
            p.expect = a
            e.assume(cmpop('>=', a, p.start))
            c = cmpop('<', a, p.end)
            if e.decide(c):
                e.exec_block(node_.body)
                e.oblige('inv.preserve', cmpop('==', fr.loc['addr'], p.expect), node_)
                raise PathEnd()
        eng.loop_invariants = {(q, 0): loop}
        eng.call_function(fn, [SnapBytes(), p.start, p.end, None])

    eng = DecodeEngine(inline_ok=lambda f: f.__module__ == 'skoolkit.opcodes', unknown_ok=True)
    FuncVC(rep, prop, fn, 'skoolkit.opcodes.decode', eng).run(start, None, None)
    # _defb returns its size argument (the call model above): checked on its AST
    dn, _ = func_ast(O._defb)
    ret = [x for x in ast.walk(dn) if isinstance(x, ast.Return)]
    ok = len(ret) == 1 and isinstance(ret[0].value, ast.Tuple) and isinstance(ret[0].value.elts[0], ast.Name) and ret[0].value.elts[0].id == 'size' \
        and not any(isinstance(x, (ast.Assign, ast.AugAssign)) and any(isinstance(t, ast.Name) and t.id == 'size' for t in (x.targets if isinstance(x, ast.Assign) else [x.target])) for x in ast.walk(dn))
    rep.add('%s/skoolkit.opcodes._defb/returns_size' % prop, 'proved' if ok else 'failed', 'ast-dataflow', 0, 'skoolkit.opcodes._defb')
    if not ok:
        rep.violation('%s/skoolkit.opcodes._defb/returns_size' % prop, '_defb no longer returns its size argument unchanged', {}, no_input=True)
