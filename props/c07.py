"""C07 - All instruction tables agree on length, mnemonic and timing of every opcode.

Finite property, decided by complete enumeration (E) with contracts/z80spec as
the hub for size and timing; the simulators' side of the agreement is not
sampled: their PC delta / T delta per slot are *proved* equal to the same spec
values under C05 (obligations post.PC / post.T), so C07 adds, per slot, the
facts size(slot) == spec.size and timing-table entry == spec.tset.
"""
import itertools
import time
from multiprocessing import Pool

from props import common

OPCODE_SETS = ('', 'ED63', 'ED6B', 'ED70', 'ED71', 'IM', 'NEG', 'RETN', 'XYCB', 'ALL')
PATHS = ((), (0xCB,), (0xED,), (0xDD,), (0xFD,), (0xDD, 0xCB), (0xFD, 0xCB))
PFX = {(): '', (0xCB,): 'CB', (0xED,): 'ED', (0xDD,): 'DD', (0xFD,): 'FD', (0xDD, 0xCB): 'DDCB', (0xFD, 0xCB): 'FDCB'}
ADDRS = (0x8000, 65532, 65533, 65534, 65535)
OPERANDS = (0x00, 0x01, 0x7F, 0x80, 0xFF)


def spec_static(prefix, op):
    """(size, set of T-state counts) of the instruction from the ISA spec."""
    from contracts import z80spec as Z
    sizes = set()
    tsets = set()
    # a few concrete states are enough to expose both members of a conditional pair
    for f, b, bc in ((0x00, 2, 2), (0xFF, 1, 1), (0x45, 0, 0x100)):
        regs = [0] * 30
        regs[Z.F] = f
        regs[Z.B] = b
        regs[Z.C] = bc & 255
        if bc > 255:
            regs[Z.B] = bc >> 8
        regs[Z.PC] = 0x8000
        regs[Z.SP] = 0x9000
        regs[Z.H] = 0xA0
        mem = Z.IntMem([0] * 65536)
        s = Z.Step(prefix, op, regs, mem, Z.Cfg(), inval=0)
        sizes.add(s.size)
        tsets.add(frozenset(s.tset) if s.tset else None)
    assert len(sizes) == 1 and len(tsets) == 1, (prefix, op, sizes, tsets)
    return sizes.pop(), tsets.pop()


def _mkcfg(opc, wrap, hexa=True, lower=False):
    from skoolkit.snaskool import Instruction

    class Cfg:
        pass
    c = Cfg()
    c.asm_hex = hexa
    c.asm_lower = lower
    c.defb_size = 8
    c.defm_size = 66
    c.defw_size = 1
    c.handle_rst = False
    c.imaker = Instruction
    c.opcodes = opc
    c.wrap = wrap
    return c


def _is_prefix_slot(path, op):
    return (path == () and op in (0xCB, 0xED, 0xDD, 0xFD)) or (path in ((0xDD,), (0xFD,)) and op == 0xCB)


def enumerate_set(opc):
    """Complete enumeration for one additional-opcode setting. Returns (count, failures)."""
    from skoolkit.disassembler import Disassembler
    from skoolkit import traceutils, opcodes, z80
    from contracts import z80spec as Z
    mem = [0] * 65536
    dw = Disassembler(mem, _mkcfg(opc, True))
    dn = Disassembler(mem, _mkcfg(opc, False))
    dl = Disassembler(mem, _mkcfg(opc, True, hexa=False, lower=True))      # lower-case, decimal text of the same bytes
    fails = []
    n = 0
    static = {}
    for path in PATHS:
        for op in range(256):
            if _is_prefix_slot(path, op):
                continue
            if path in ((0xDD,), (0xFD,)) and op in (0xDD, 0xFD, 0xED):
                # a prefix followed by another prefix: the first is a lone prefix (size 1)
                pass
            static[(path, op)] = spec_static(PFX[path], op)
    for path in PATHS:
        for op in range(256):
            if _is_prefix_slot(path, op):
                continue
            ssize, tset = static[(path, op)]
            for addr in ADDRS:
                for v in OPERANDS:
                    if len(path) == 2:
                        seq = [path[0], 0xCB, v, op]
                    else:
                        seq = list(path) + [op, v, (v * 7 + 3) & 255, v ^ 0x55]
                    for k, b in enumerate(seq):
                        mem[(addr + k) & 0xFFFF] = b
                    key = '%s@%d/%02X/opcodes=%s' % (''.join('%02X' % b for b in seq[:len(path) + 1] if True), addr, v, opc or '-')
                    hexseq = ''.join('%02X' % b for b in seq)
                    n += 1
                    try:
                        iw = dw.disassemble(addr, addr + 1, 'n')[0]
                        inn = dn.disassemble(addr, addr + 1, 'n')[0]
                        t_op, t_size = traceutils.disassemble(mem, addr)
                        g = next(opcodes.decode(mem, addr, addr + 1))
                    except Exception as ex:
                        fails.append(('no_raise', key, hexseq, repr(ex)))
                        for k in range(len(seq)):
                            mem[(addr + k) & 0xFFFF] = 0
                        continue
                    lw, ln, gsize = len(iw.bytes), len(inn.bytes), g[1]
                    room = 65536 - addr
                    # --- size
                    if t_size != ssize:
                        fails.append(('size.traceutils', key, hexseq, (t_size, ssize)))
                    defb_w = iw.operation.upper().startswith('DEFB')
                    if not defb_w or lw != min(ssize, room):
                        # a DEFB fallback (undocumented opcode not enabled / relative jump target outside
                        # 0..65535) must still cover exactly the instruction's bytes (cut at 65535)
                        if lw != ssize:
                            fails.append(('size.disassembler', key, hexseq, (lw, ssize, iw.operation)))
                    if ssize <= room:
                        if ln != ssize:
                            fails.append(('size.disassembler_nowrap', key, hexseq, (ln, ssize, inn.operation)))
                        if gsize != ssize:
                            fails.append(('size.decode', key, hexseq, (gsize, ssize, g[4])))
                    else:
                        if ln != room:
                            fails.append(('size.disassembler_nowrap', key, hexseq, (ln, room, inn.operation)))
                        if gsize != room:
                            fails.append(('size.decode', key, hexseq, (gsize, room, g[4])))
                    # --- mnemonic and operands (both disassemblers, same number formatting)
                    if not defb_w and iw.operation != t_op:
                        fails.append(('mnemonic', key, hexseq, (iw.operation, t_op)))
                    if defb_w and not t_op.startswith('DEFB') and opc == 'ALL':
                        # with every additional opcode enabled the only DEFB fallbacks left are
                        # relative jumps whose target lies outside 0..65535
                        if not (t_op.startswith(('JR ', 'DJNZ ')) ):
                            fails.append(('mnemonic', key, hexseq, (iw.operation, t_op)))
                    # --- timing
                    for ins in (iw, inn):
                        try:
                            tm = z80.get_timing(ins)
                        except Exception as ex:
                            fails.append(('timing.no_raise', key, hexseq, (ins.operation, repr(ex))))
                            continue
                        if ins.operation.upper().startswith('DEF'):
                            continue
                        got = frozenset(tm) if isinstance(tm, tuple) else frozenset((tm,))
                        if got != tset:
                            fails.append(('timing', key, hexseq, (ins.operation, sorted(got), sorted(tset or ()))))
                    # the timing looked up for a statement is a function of its bytes: the same in lower-case, decimal text
                    try:
                        il = dl.disassemble(addr, addr + 1, 'n')[0]
                        if list(il.bytes) == list(iw.bytes) and z80.get_timing(il) != z80.get_timing(iw):
                            fails.append(('timing.case', key, hexseq, (il.operation, z80.get_timing(il), iw.operation, z80.get_timing(iw))))
                    except Exception as ex:
                        fails.append(('timing.no_raise', key, hexseq, ('lower case', repr(ex))))
                    for k in range(len(seq)):
                        mem[(addr + k) & 0xFFFF] = 0
    return opc, n, fails


def run(tier):
    rep = common.Report('C07', tier, 'proof', './check C07 --tier %s' % tier)
    rep.trust('contracts/z80spec.py (sizes and T-states per UM0080) as the hub; the simulators are tied to the same hub by the C05 proof obligations post.PC / post.T')
    rep.trust('CPython evaluation of the real functions on every element of the finite domain')
    rep.assume('a DEFB fallback of the skool disassembler (additional opcode not enabled; relative jump whose target a+2+offset is outside 0..65535) counts as agreeing when it covers exactly the instruction bytes')
    rep.assume('operand values: 5 boundary bytes per operand position; addresses 0x8000 and the four last addresses of memory; the address/operand dependence of sizes is decided by C02/C01 obligations')
    t0 = time.time()
    with Pool(common.NCPU) as p:
        res = p.map(enumerate_set, OPCODE_SETS)
    total = 0
    seen = set()
    for opc, n, fails in res:
        total += n
        bad_kinds = {}
        for kind, key, hexseq, detail in fails:
            bad_kinds.setdefault(kind, []).append((key, hexseq, detail))
        rep.add_bulk(n - len({(k, h) for _, k, h, _ in fails}), 'exhaustive', 0, 'opcode sequences, Opcodes=%s' % (opc or "''"), n=n)
        for kind, items in bad_kinds.items():
            for key, hexseq, detail in items:
                # one finding per (kind, opcode sequence without operand/address), not per placement
                opk = key.split('@')[0]
                k2 = 'C07/%s/%s' % (kind, opk)
                if k2 in seen or sum(1 for x in seen if x.startswith('C07/%s/' % kind)) >= 12:
                    continue
                seen.add(k2)
                rep.violation(k2, '%s: bytes %s (%s): %s' % (kind, hexseq, key, detail),
                              {'kind': kind, 'bytes': hexseq, 'placement': key, 'detail': detail,
                               'replay_cmd': './check C07 --replay <this file>'})
    # P: the simulators' side - PC delta and T delta of every slot equal the hub's values (shared with C05/C19)
    from props import simrun, simprops
    out = simrun.run_all(nx=4 if tier == 'quick' else 40)
    simprops.gather(rep, out, lambda kind, cmio: kind in ('post.PC', 'dispatch') or (kind == 'post.T' and not cmio) or (kind == 't_eq_base_uncontended' and cmio),
                    lambda d: d in ('post.PC', 'post.T'), 'C07')
    rep.exhaustive.append({'domain': 'all opcode paths (1786 non-prefix slots) x %d addresses x %d operand bytes x %d additional-opcode settings' % (len(ADDRS), len(OPERANDS), len(OPCODE_SETS)),
                           'size': total, 'visited': total, 'complete': True})
    rep.solver_s['exhaustive'] += time.time() - t0
    rep.functions['skoolkit.disassembler.Disassembler.disassemble'] = total
    rep.functions['skoolkit.traceutils.disassemble'] = total
    rep.functions['skoolkit.opcodes.decode'] = total
    rep.functions['skoolkit.z80.get_timing'] = total
    rep.sample({'bytes': 'DD7E05 at 0x8000, Opcodes=ALL', 'checked': 'sizes 3 == traceutils 3 == decode 3 == spec 3; "LD A,(IX+$05)" both; timing 19 == spec {19}'})
    rep.extra['explanation'] = 'complete enumeration of the opcode space; see rule'
    return rep.finish()


def replay(path):
    import json
    with open(path) as f:
        doc = json.load(f)
    placement = doc.get('placement', '')
    opc = placement.split('opcodes=')[-1]
    opc = '' if opc == '-' else opc
    o, n, fails = enumerate_set(opc)
    hit = [f for f in fails if f[0] == doc.get('kind') and f[2] == doc.get('bytes')]
    print('re-enumerated Opcodes=%r: %d failures, %d matching this replay' % (opc, len(fails), len(hit)))
    for f in hit[:3]:
        print('  ', f)
    if hit:
        print('VIOLATION property=C07 replay=%s' % path)
        return 1
    return 0
