"""C11 - Tape files round-trip and their pulse trains encode exactly the block bytes.

P: the data-pulse kernel of tape.get_edges (the statements of the byte-value
   branch, taken mechanically from the function on every run): per-byte pulse
   table and last-byte truncation, for *symbolic* pulse durations; finite
   parameters (byte value, used bits 1..8, pulse counts 1..4 x 1..4) enumerated.
   _check_polarity parity arithmetic; ROM timing constants.
B: whole get_edges against an independent pulse-train builder and an
   independent decoder measuring edge distances; TAP/PZX write->parse; TAP vs
   TZX vs PZX edge equality.
"""
import ast
import itertools
import os
import random
import shutil
import tempfile
import time
from multiprocessing import Pool

import z3

from props import common
from pyvc import poly
from pyvc.poly import SV, SB, sv, cmpop, and_
from pyvc.engine import Engine, ObjModel, SymList, DictModel, func_ast
from pyvc.solve import discharge


def kernel_slice():
    """Statements of the `else:` branch of `if 0 in timings.zero or 0 in timings.one:` inside `if data:`."""
    import skoolkit.tape as T
    node, src = func_ast(T.get_edges)
    for n in ast.walk(node):
        if isinstance(n, ast.If) and ast.unparse(n.test).replace(' ', '') == '0intimings.zeroor0intimings.one' and n.orelse:
            if any(isinstance(x, ast.Assign) and any(isinstance(t, ast.Name) and t.id == 'b_timings' for t in x.targets) for x in ast.walk(n)):
                return n.orelse
    raise LookupError('data-pulse kernel not found in get_edges')


def kernel_combo(args):
    """One (len(zero), len(one)) pair: builds the per-byte table once, then checks
    every (last byte, used bits) pair. Durations are symbolic."""
    lz, lo = args
    import skoolkit.tape as T
    stmts = kernel_slice()
    W = poly.W
    zero = tuple(SV(z3.BitVec('z%d' % i, W), 1, 65535) for i in range(lz))
    one = tuple(SV(z3.BitVec('o%d' % i, W), 1, 65535) for i in range(lo))
    t0v = SV(z3.BitVec('t0', W), 0, 1 << 36)
    cache = DictModel('byte_timings')
    n_ob = 0
    bad = []
    t_solver = 0.0

    def expected(vals, used):
        out = []
        for k, b in enumerate(vals):
            nbits = 8 if k < len(vals) - 1 else used
            for j in range(nbits):
                out.extend(one if b & (0x80 >> j) else zero)
        return out

    def run(data, used):
        eng = Engine(inline_ok=lambda f: False)
        res = {}

        def start(e):
            timings = ObjModel(None, name='timings')
            timings.attrs.update({'zero': zero, 'one': one, 'used_bits': used})
            edges = SymList([t0v], 'edges')
            locs = {'timings': timings, 'data': list(data), 'byte_timings': cache, 'tstates': t0v, 'edges': edges}
            e.run_stmts(T.get_edges, stmts, locs)
            res['edges'] = edges.items
            res['tstates'] = e.frames and None
            res['locs'] = locs
        paths = eng.explore(start)
        assert len(paths) == 1 and not paths[0].cut, 'kernel forked or was cut'
        return res, paths[0]

    # table
    res, st = run([0], 8)
    i = cache.find((zero, one))
    table = cache.pairs[i][1].items if i >= 0 else None
    for v in range(256):
        n_ob += 1
        exp = expected([v], 8)
        got = table[v].items if table is not None and hasattr(table[v], 'items') else None
        if got is None or len(got) != len(exp) or any(a is not b for a, b in zip(got, exp)):
            bad.append(('table', lz, lo, v))
    # truncation of the last byte
    for used in range(1, 9):
        for v in range(256):
            for lead in ((), (0xA5,)) if v in (0, 0x80, 0x7F, 0xFF, 0x55) else ((),):
                data = list(lead) + [v]
                res, st = run(data, used)
                exp = expected(data, used)
                got = res['edges'][1:]
                n_ob += 1
                if len(got) != len(exp):
                    bad.append(('pulse_count', lz, lo, used, data, len(got), len(exp)))
                    continue
                # each edge is the running sum of the expected pulses
                acc = t0v
                ok = True
                for g, d in zip(got, exp):
                    acc = acc + d
                    c = cmpop('==', g, acc)
                    if c is True:
                        continue
                    ts = time.time()
                    status, backend, dt, model = discharge([], st.facts, st.pc, c)
                    t_solver += time.time() - ts
                    if status != 'proved':
                        ok = False
                        break
                if not ok:
                    bad.append(('pulse_time', lz, lo, used, data))
    return (lz, lo), n_ob, bad, t_solver


def zero_kernel_slice():
    """Statements of the `if 0 in timings.zero or 0 in timings.one:` branch itself (zero-width pulses)."""
    import skoolkit.tape as T
    node, src = func_ast(T.get_edges)
    for n in ast.walk(node):
        if isinstance(n, ast.If) and ast.unparse(n.test).replace(' ', '') == '0intimings.zeroor0intimings.one' and n.orelse:
            return n.body
    raise LookupError('zero-width data-pulse branch not found in get_edges')


def zero_kernel_combo(args):
    """One pattern of zero-width pulses: zmask / omask say which pulses of the 0-bit / 1-bit sequence are 0 (the others are
    symbolic durations >= 1). Expected edges: every pulse toggles the level at its end; toggles that fall on the same instant
    (they can only be separated by zero-width pulses) cancel in pairs, an odd number of them is one edge; the edge that
    starts the block (the last one already in the list) takes part in this. A cancellation that is still pending when the
    data ends is dropped (the code keeps no state beyond the data section): the last instant always stays an edge."""
    zmask, omask = args
    import skoolkit.tape as T
    stmts = zero_kernel_slice()
    W = poly.W
    zero = tuple(0 if m else SV(z3.BitVec('z%d' % i, W), 1, 65535) for i, m in enumerate(zmask))
    one = tuple(0 if m else SV(z3.BitVec('o%d' % i, W), 1, 65535) for i, m in enumerate(omask))
    t0v = SV(z3.BitVec('t0', W), 0, 1 << 36)
    n_ob = 0
    bad = []
    t_solver = 0.0

    def pulses(vals, used):
        out = []
        for k, b in enumerate(vals):
            nbits = 8 if k < len(vals) - 1 else used
            for j in range(nbits):
                out.extend(one if b & (0x80 >> j) else zero)
        return out

    def expected(vals, used):
        times = [t0v]
        counts = [1]
        acc = t0v
        for d in pulses(vals, used):
            if isinstance(d, int) and d == 0:
                counts[-1] += 1
            else:
                acc = acc + d
                times.append(acc)
                counts.append(1)
        # (a cancellation still pending when the data ends has nothing to merge with: the last instant stays an edge)
        return [t for i_, (t, c) in enumerate(zip(times, counts)) if c % 2 or i_ == len(times) - 1], acc

    for used in range(1, 9):
        for v in (0x00, 0x80, 0x7F, 0xFF, 0x55, 0xA5):
            for lead in ((), (0xA5,)):
                data = list(lead) + [v]
                eng = Engine(inline_ok=lambda f: False)
                res = {}

                def start(e, data=data, used=used):
                    timings = ObjModel(None, name='timings')
                    timings.attrs.update({'zero': zero, 'one': one, 'used_bits': used})
                    edges = SymList([t0v], 'edges')
                    locs = {'timings': timings, 'data': list(data), 'tstates': t0v, 'edges': edges}
                    e.run_stmts(T.get_edges, stmts, locs)
                    res['edges'] = edges.items
                    res['tstates'] = locs.get('tstates')
                paths = eng.explore(start)
                n_ob += 1
                if len(paths) != 1 or paths[0].cut:
                    bad.append(('forked', zmask, omask, used, data))
                    continue
                st = paths[0]
                exp, acc = expected(data, used)
                got = res['edges']
                if len(got) != len(exp):
                    bad.append(('edge_count', zmask, omask, used, data, len(got), len(exp)))
                    continue
                ok = True
                for g, x in list(zip(got, exp)) + [(res['tstates'], acc)]:
                    c = cmpop('==', g, x)
                    if c is True:
                        continue
                    ts = time.time()
                    status, backend, dt, model = discharge([], st.facts, st.pc, c)
                    t_solver += time.time() - ts
                    if status != 'proved':
                        ok = False
                        break
                if not ok:
                    bad.append(('edge_time', zmask, omask, used, data))
    return (zmask, omask), n_ob, bad, t_solver


def concrete_zero_kernel(zmask, omask, used, data):
    """The same statement on the real get_edges with concrete durations (non-zero pulses 300, 500, 700, ...)."""
    import skoolkit.tape as T
    zero = tuple(0 if m else 300 + 200 * i for i, m in enumerate(zmask))
    one = tuple(0 if m else 400 + 200 * i for i, m in enumerate(omask))
    t = T.TapeBlockTimings(pulses=(), zero=zero, one=one, pause=0, used_bits=used, tail=0)
    b = T.TapeBlock(1, list(data), t)
    b.keys = None
    edges, dbs = T.get_edges([b], 1000, 0)
    times, counts, acc = [1000], [1], 1000
    for k, byte in enumerate(data):
        for j in range(8 if k < len(data) - 1 else used):
            for d in (one if byte & (0x80 >> j) else zero):
                if d == 0:
                    counts[-1] += 1
                else:
                    acc += d
                    times.append(acc)
                    counts.append(1)
    exp = [t_ for i_, (t_, c) in enumerate(zip(times, counts)) if c % 2 or i_ == len(times) - 1]
    case = {'zero': list(zero), 'one': list(one), 'used_bits': used, 'data': list(data), 'zero_width': True}
    return case, ([] if list(edges) == exp else [('edges', list(edges)[:12], exp[:12])])


def concrete_kernel(lz, lo, used, data):
    """Replay on the real get_edges with concrete distinct durations."""
    import skoolkit.tape as T
    zero = tuple(100 + 7 * i for i in range(lz))
    one = tuple(300 + 11 * i for i in range(lo))
    t = T.TapeBlockTimings(zero=zero, one=one, used_bits=used)
    b = T.TapeBlock(1, list(data), t)
    b.keys = None
    edges, dbs = T.get_edges([b], 0, 0)
    exp = [0]
    tt = 0
    for k, byte in enumerate(data):
        nbits = 8 if k < len(data) - 1 else used
        for j in range(nbits):
            for d in (one if byte & (0x80 >> j) else zero):
                tt += d
                exp.append(tt)
    return {'zero': zero, 'one': one, 'used_bits': used, 'data': list(data)}, ([] if edges == exp else [('edges', edges[:20], exp[:20])])


# ------------------------------------------------------------------ B
def edges_bounded(seed, n):
    import skoolkit.tape as T
    rnd = random.Random(seed)
    bad = []

    def blk(data, t):
        b = T.TapeBlock(1, data, t)
        b.keys = None
        return b
    for trial in range(n):
        nb = rnd.randrange(1, 4)
        blocks = []
        spec = []
        for i in range(nb):
            k = rnd.randrange(1, 6)
            data = [rnd.randrange(256) for _ in range(k)]
            lz = rnd.randrange(1, 3)
            lo = lz if rnd.random() < 0.6 else rnd.randrange(1, 4)
            zero = tuple(rnd.choice((100, 855, rnd.randrange(1, 3000))) for _ in range(lz))
            one = tuple(rnd.choice((200, 1710, rnd.randrange(1, 3000))) for _ in range(lo))
            ub = rnd.randrange(1, 9)
            tail = rnd.choice((0, 945))
            pause = rnd.choice((0, 1000, 3500000))
            pulses = tuple((rnd.randrange(1, 5), rnd.randrange(1, 3000)) for _ in range(rnd.randrange(0, 3)))
            t = T.TapeBlockTimings(pulses=pulses, zero=zero, one=one, pause=pause, used_bits=ub, tail=tail)
            blocks.append(blk(data, t))
            spec.append((pulses, zero, one, ub, tail, pause, data))
        fe = rnd.choice((0, 100))
        edges, dbs = T.get_edges(blocks, fe, 0)
        exp = [fe]
        tt = fe
        lasttail = None
        marks = []
        starts = []
        for i, (pulses, zero, one, ub, tail, pause, data) in enumerate(spec):
            for c, d in pulses:
                for _ in range(c):
                    tt += d
                    exp.append(tt)
            s0 = len(exp) - 1
            starts.append(tt)
            for k, b in enumerate(data):
                nbits = 8 if k < len(data) - 1 else ub
                for j in range(nbits):
                    for d in (one if b & (0x80 >> j) else zero):
                        tt += d
                        exp.append(tt)
            if tail:
                tt += tail
                exp.append(tt)
                lasttail = len(exp) - 1
            else:
                lasttail = None
            marks.append((s0, len(exp) - 1))
            if i + 1 < len(spec) and pause:
                tt += pause
        if lasttail == len(exp) - 1:
            exp.pop()
            marks[-1] = (min(marks[-1][0], len(exp) - 1), min(marks[-1][1], len(exp) - 1))
        if edges != exp:
            bad.append(('edges', [s[1:4] for s in spec], edges[:10], exp[:10]))
        elif any(a > b for a, b in zip(edges, edges[1:])):
            bad.append(('monotone', [s[1:4] for s in spec]))
        else:
            got_marks = [(d.start, d.end) for d in dbs]
            if got_marks != marks:
                bad.append(('datablock_index', got_marks, marks))
            # independent decoder: measure the distances, recover the bits of every block
            for (pulses, zero, one, ub, tail, pause, data), (s0, e0), t_start in zip(spec, marks, starts):
                if len(zero) != len(one) or zero == one or any(a == b for a, b in zip(zero, one)):
                    continue
                i = s0
                bits = []
                nbits = 8 * (len(data) - 1) + ub
                ok = True
                # the signal level is held during a pause: the first pulse of the block is measured from the
                # moment the block starts, not from the previous edge
                times = list(edges)
                times[s0] = t_start
                for _ in range(nbits):
                    ds = tuple(times[i + 1 + k] - times[i + k] for k in range(len(zero))) if i + len(zero) < len(times) else None
                    if ds == one:
                        bits.append(1)
                    elif ds == zero:
                        bits.append(0)
                    else:
                        ok = False
                        break
                    i += len(zero)
                want = []
                for k, b in enumerate(data):
                    for j in range(8 if k < len(data) - 1 else ub):
                        want.append(1 if b & (0x80 >> j) else 0)
                if not ok or bits != want:
                    bad.append(('decode', zero, one, ub, data))
        if len(bad) > 6:
            break
    return n, bad


def files_bounded(seed, n):
    import skoolkit.tape as T
    rnd = random.Random(seed)
    tmp = tempfile.mkdtemp(prefix='c11_')
    bad = []
    try:
        for trial in range(n):
            blocks = [[rnd.choice((0, 255, rnd.randrange(128, 256)))] + [rnd.randrange(256) for _ in range(rnd.choice((0, 1, 18, rnd.randrange(0, 60))))] for _ in range(rnd.randrange(1, 5))]
            fn = os.path.join(tmp, 'x.tap')
            T.write_tap(fn, blocks)
            with open(fn, 'rb') as f:
                tap = T.parse_tap(f.read())
            got = [list(b.data) for b in tap.blocks]
            if got != blocks:
                bad.append(('TAP', blocks[:2], got[:2]))
            fn2 = os.path.join(tmp, 'x.pzx')
            T.write_pzx(fn2, blocks)
            with open(fn2, 'rb') as f:
                pzx = T.parse_pzx(f.read())
            got = [list(b.data) for b in pzx.blocks if b.data]
            if got != [b for b in blocks if b]:
                bad.append(('PZX', blocks[:2], got[:2]))
            # same logical tape -> same edges: TAP vs TZX standard-speed (0x10) vs TZX turbo (0x11) blocks carrying
            # the ROM timings. (A PZX file written by write_pzx additionally *specifies* a 945 T-state tail pulse per
            # DATA block, so it is not the same logical tape; its edges are checked against the independent builder.)
            tzx10 = bytearray(b'ZXTape!\x1a\x01\x14')
            tzx11 = bytearray(b'ZXTape!\x1a\x01\x14')
            for blk in blocks:
                n = len(blk)
                tzx10 += bytes([0x10, 0xE8, 0x03, n % 256, n // 256]) + bytes(blk)
                pilot = 8063 if blk[0] < 128 else 3223      # flag bytes are drawn from {0} and 128..255, where all conventions agree
                tzx11 += bytes([0x11]) + (2168).to_bytes(2, 'little') + (667).to_bytes(2, 'little') + (735).to_bytes(2, 'little') \
                    + (855).to_bytes(2, 'little') + (1710).to_bytes(2, 'little') + pilot.to_bytes(2, 'little') + bytes([8, 0xE8, 0x03]) \
                    + n.to_bytes(3, 'little') + bytes(blk)
            t10 = T.parse_tzx(bytes(tzx10), timings=True)
            t11 = T.parse_tzx(bytes(tzx11), timings=True)
            for b in list(tap.blocks) + list(pzx.blocks) + list(t10.blocks) + list(t11.blocks):
                b.keys = None
            e1, d1 = T.get_edges([b for b in tap.blocks if b.timings], 0, 0)
            for name, tp in (('TZX-0x10', t10), ('TZX-0x11', t11)):
                e2, d2 = T.get_edges([b for b in tp.blocks if b.timings], 0, 0)
                if e1 != e2 or [(d.start, d.end) for d in d1] != [(d.start, d.end) for d in d2]:
                    k = next((i for i, (a, b) in enumerate(zip(e1, e2)) if a != b), min(len(e1), len(e2)))
                    bad.append(('TAP-vs-%s edges' % name, len(e1), len(e2), k, e1[k - 1:k + 2], e2[k - 1:k + 2]))
            # PZX: pilot / sync / data / 945 tail / pause as write_pzx specifies them
            e3, d3 = T.get_edges([b for b in pzx.blocks if b.timings], 0, 0)
            exp = [0]
            tt = 0
            for bi, blk in enumerate(blocks):
                for c, d in (((8063 if blk[0] < 128 else 3223), 2168), (1, 667), (1, 735)):
                    for _ in range(c):
                        tt += d
                        exp.append(tt)
                for byte in blk:
                    for j in range(8):
                        for d in ((1710, 1710) if byte & (0x80 >> j) else (855, 855)):
                            tt += d
                            exp.append(tt)
                tt += 945
                exp.append(tt)
                if bi + 1 < len(blocks):
                    tt += 3500000
            if exp and e3 != exp and e3 != exp[:-1]:
                k = next((i for i, (a, b) in enumerate(zip(e3, exp)) if a != b), min(len(e3), len(exp)))
                bad.append(('PZX edges', len(e3), len(exp), k, e3[k - 1:k + 2], exp[k - 1:k + 2]))
            if len(bad) > 4:
                break
    finally:
        shutil.rmtree(tmp, ignore_errors=True)
    return n, bad


def block_independence():
    """Small scope, complete within it: the pulse train of a data block does not depend on the blocks before it.
    Bit-pulse sequences of length 1..3 over the durations {300, 700} for the 0 and 1 bits of two consecutive blocks
    (every ordered pair of distinct timing pairs): the second block's pulses, measured between its first and last
    edge, equal those of the same block alone."""
    import itertools
    import skoolkit.tape as T
    seqs = [s_ for L in (1, 2, 3) for s_ in itertools.product((300, 700), repeat=L)]
    pairs = [(z, o) for z in seqs for o in seqs]

    def blk(t):
        b = T.TapeBlock(1, [0xA5], t)
        b.keys = None
        return b

    def pulses(edges, d):
        return [edges[i + 1] - edges[i] for i in range(d.start, d.end)]
    alone = {}
    for z, o in pairs:
        e, ds = T.get_edges([blk(T.TapeBlockTimings(pulses=(), zero=z, one=o, pause=0, used_bits=8, tail=0))], 0, 0)
        alone[(z, o)] = pulses(e, ds[0])
    bad = []
    n = 0
    for (z1, o1) in pairs:
        for (z2, o2) in pairs:
            if (z1, o1) == (z2, o2):
                continue
            n += 1
            a = blk(T.TapeBlockTimings(pulses=(), zero=z1, one=o1, pause=0, used_bits=8, tail=0))
            b = blk(T.TapeBlockTimings(pulses=(), zero=z2, one=o2, pause=0, used_bits=8, tail=0))
            e, ds = T.get_edges([a, b], 0, 0)
            if len(ds) != 2 or pulses(e, ds[1]) != alone[(z2, o2)]:
                bad.append(((z1, o1), (z2, o2)))
                if len(bad) > 5:
                    return n, bad
    return n, bad


def check_edge_list_discipline(rep):
    """Whole-function site obligations on get_edges and _check_polarity (their ASTs, re-read on every run), from which
    two statements about *every* tape follow by induction over the execution, given non-negative durations:

      monotone   the edge list is non-decreasing and its last element is <= the running time `tstates`:
                 `tstates` is initialised to first_edge and afterwards only ever changed by `tstates += <duration>`;
                 every `edges.append(X)` appends `tstates` (first_edge before tstates exists); the only in-place change
                 of an element is `edges[-1] += d` directly after `tstates += d` with the same d; no other writer of
                 `edges` / `tstates` (pop() only shortens);
      indices    every DataBlock(data, s, e, ...) has s <= e < len(edges): e is `len(edges) - 1` at the time of the call,
                 s is either the same expression or the variable `start`, assigned `len(edges) - 1` earlier in the same
                 block iteration with only append / in-place-add statements on `edges` in between (the list does not
                 shrink); the only pop() is after the loop and is followed by `data_blocks[-1].adjust(len(edges) - 1)`.
    Durations come from TapeBlockTimings (pulses, zero, one, tail, pause): non-negative by the parsers' construction
    (unsigned file fields), stated as an assumption."""
    import skoolkit.tape as T
    from pyvc.engine import func_ast
    name = 'skoolkit.tape.get_edges / _check_polarity [edge list discipline]'
    results = []
    gnode, _ = func_ast(T.get_edges)
    cnode, _ = func_ast(T._check_polarity)
    duration_names = {'duration', 'd', 'timings.tail', 'timings.pause'}

    def parents(root):
        par = {}
        for n in ast.walk(root):
            for c in ast.iter_child_nodes(n):
                par[c] = n
        return par
    for fnode, label in ((gnode, 'get_edges'), (cnode, '_check_polarity')):
        par = parents(fnode)
        # --- writers of tstates
        for n in ast.walk(fnode):
            if isinstance(n, ast.Assign) and any(isinstance(t, ast.Name) and t.id == 'tstates' for t in n.targets):
                results.append(('%s/L%d/tstates_initialised_to_first_edge' % (label, n.lineno - fnode.lineno), label == 'get_edges' and ast.unparse(n.value) == 'first_edge', ast.unparse(n)))
            if isinstance(n, ast.AugAssign) and isinstance(n.target, ast.Name) and n.target.id == 'tstates':
                ok = isinstance(n.op, ast.Add) and ast.unparse(n.value) in duration_names
                results.append(('%s/L%d/tstates_only_grows_by_a_duration' % (label, n.lineno - fnode.lineno), ok, ast.unparse(n)))
            if isinstance(n, (ast.For, ast.comprehension)) and any(isinstance(t, ast.Name) and t.id in ('tstates', 'edges') for t in ast.walk(n.target)):
                results.append(('%s/L%d/no_loop_rebinds_tstates_or_edges' % (label, getattr(n, 'lineno', 0) - fnode.lineno), False, ast.unparse(n.target)))
        # --- the loop variables that stand for durations are drawn from the timing sequences only
        for n in ast.walk(fnode):
            if isinstance(n, ast.For):
                tnames = [t.id for t in ast.walk(n.target) if isinstance(t, ast.Name)]
                if 'd' in tnames or 'duration' in tnames:
                    src = ast.unparse(n.iter)
                    ok = src in ('timings.pulses', 'timings.one if b & 128 else timings.zero', 'b_timings[b]', 'bt[:num_pulses]')
                    results.append(('%s/L%d/duration_variable_drawn_from_timings' % (label, n.lineno - fnode.lineno), ok, '%s in %s' % (ast.unparse(n.target), src)))
        # --- writers of edges
        for n in ast.walk(fnode):
            if isinstance(n, ast.Call) and isinstance(n.func, ast.Attribute) and isinstance(n.func.value, ast.Name) and n.func.value.id == 'edges':
                oid = '%s/L%d/edges.%s' % (label, n.lineno - fnode.lineno, n.func.attr)
                if n.func.attr == 'append':
                    arg = ast.unparse(n.args[0]) if len(n.args) == 1 else None
                    # first_edge is appended only before tstates exists (it equals first_edge then)
                    first = [m for m in ast.walk(fnode) if isinstance(m, ast.Assign) and any(isinstance(t, ast.Name) and t.id == 'tstates' for t in m.targets)]
                    ok = arg == 'tstates' or (arg == 'first_edge' and first and n.lineno < first[0].lineno)
                    results.append((oid + '/appends_the_running_time', ok, ast.unparse(n)))
                elif n.func.attr == 'pop':
                    # only after the block loop, guarded by the tail test, followed by the adjustment of the last data block
                    stmt = par[n]
                    holder = par.get(stmt)
                    ok = (label == 'get_edges' and isinstance(holder, ast.If) and holder in fnode.body and ast.unparse(holder.test) == 'edges[-1] == tail'
                          and any(ast.unparse(x).replace(' ', '') == 'data_blocks[-1].adjust(len(edges)-1)' for y in holder.body for x in ast.walk(y) if isinstance(x, ast.Expr)))
                    results.append((oid + '/only_the_final_tail_removal', ok, ast.unparse(holder) if isinstance(holder, ast.If) else ast.unparse(stmt)))
                else:
                    results.append((oid + '/no_other_list_method', False, ast.unparse(n)))
            if isinstance(n, (ast.Assign, ast.AugAssign)):
                tgts = n.targets if isinstance(n, ast.Assign) else [n.target]
                for t in tgts:
                    if isinstance(t, ast.Name) and t.id == 'edges':
                        ok = label == 'get_edges' and isinstance(n, ast.Assign) and ast.unparse(n.value) == '[first_edge]'
                        results.append(('%s/L%d/edges_created_as_[first_edge]' % (label, n.lineno - fnode.lineno), ok, ast.unparse(n)))
                    if isinstance(t, ast.Subscript) and isinstance(t.value, ast.Name) and t.value.id == 'edges':
                        # edges[-1] += d directly preceded (same block, two statements up at most, past an `if`) by tstates += d
                        blk = par[n]
                        ok = isinstance(n, ast.AugAssign) and isinstance(n.op, ast.Add) and ast.unparse(t.slice) == '-1'
                        if ok:
                            anc = n
                            found = False
                            while anc in par and not found:
                                holder = par[anc]
                                for field in ('body', 'orelse'):
                                    seq = getattr(holder, field, None)
                                    if isinstance(seq, list) and anc in seq:
                                        prev = seq[:seq.index(anc)]
                                        if prev and isinstance(prev[-1], ast.AugAssign) and ast.unparse(prev[-1]) == 'tstates += %s' % ast.unparse(n.value):
                                            found = True
                                        elif prev:
                                            anc = None
                                        break
                                if anc is None or found:
                                    break
                                anc = holder
                            ok = found
                        results.append(('%s/L%d/in_place_change_tracks_the_running_time' % (label, n.lineno - fnode.lineno), ok, ast.unparse(n)))
    # --- DataBlock index arguments
    par = parents(gnode)
    loops = [n for n in gnode.body if isinstance(n, ast.For) and ast.unparse(n.iter) == 'enumerate(blocks)']
    results.append(('get_edges/one_block_loop', len(loops) == 1, ''))
    for n in ast.walk(gnode):
        if isinstance(n, ast.Call) and isinstance(n.func, ast.Name) and n.func.id == 'DataBlock':
            oid = 'get_edges/L%d/DataBlock' % (n.lineno - gnode.lineno)
            a = [ast.unparse(x).replace(' ', '') for x in n.args]
            ok_e = len(a) >= 3 and a[2] == 'len(edges)-1'
            ok_s = len(a) >= 3 and a[1] in ('len(edges)-1', 'start')
            if ok_s and a[1] == 'start' and loops:
                # `start = len(edges) - 1` earlier in the same iteration of the block loop, in a statement list that encloses the call
                assigns = [m for m in ast.walk(loops[0]) if isinstance(m, ast.Assign) and any(isinstance(t, ast.Name) and t.id == 'start' for t in m.targets)]
                ok_s = len(assigns) == 1 and ast.unparse(assigns[0].value).replace(' ', '') == 'len(edges)-1' and assigns[0].lineno < n.lineno
                if ok_s:
                    holder = par[assigns[0]]
                    ok_s = any(x is n for x in ast.walk(holder))
            results.append((oid + '/end_index_is_the_last_edge', ok_e, ast.unparse(n)))
            results.append((oid + '/start_index_taken_from_the_list_length_earlier_in_the_iteration', bool(ok_s), ast.unparse(n)))
    nb = len(results)
    if nb < 20:
        rep.violation('C11/edge-list/vacuous', 'only %d site obligations generated for get_edges (expected at least 20)' % nb, no_input=True)
    for oid, ok, detail in results:
        rep.add('C11/edge-list/' + oid, 'proved' if ok else 'failed', 'ast-dataflow', 0.0, name)
        if not ok:
            # the discipline is a sufficient shape, not the statement itself: a failing site is a violation only with a
            # concrete tape that breaks the statement; otherwise the function has left the recognised shape (undecided)
            r = edges_monotone_search()
            if r.get('diffs'):
                rep.violation('C11/edge-list/' + oid.split('/L')[0] + '/' + oid.rsplit('/', 1)[1], '%s: `%s`: %s' % (oid, detail[:160], r['diffs'][:1]),
                              {'case': r.get('case', {'edge_list': True}), 'observed_vs_expected': r.get('diffs', []), 'obligation': oid})
            else:
                rep.downgraded.append({'function': name, 'reason': 'site obligation %s no longer holds (`%s`) and no tape was found on which the edge list decreases or a data block index range is malformed' % (oid, detail[:120])})
    rep.assume('get_edges: all durations in TapeBlockTimings (pulses, zero, one, tail, pause) are non-negative integers (unsigned fields of the tape formats)')


def edges_monotone_search(n=400):
    """Concrete search for the edge-list statements: random block lists through the real get_edges."""
    import random
    import skoolkit.tape as T
    rnd = random.Random(21)
    for t in range(n):
        blocks = []
        for b in range(rnd.randrange(1, 4)):
            pulses = [(rnd.randrange(1, 4), rnd.choice((0, 1, 500, 2168))) for _ in range(rnd.randrange(0, 3))]
            zero = tuple(rnd.choice((0, 100, 855)) for _ in range(rnd.randrange(1, 3)))
            one = tuple(rnd.choice((0, 200, 1710)) for _ in range(rnd.randrange(1, 3)))
            data = [rnd.randrange(256) for _ in range(rnd.randrange(0, 4))]
            tm = T.TapeBlockTimings(pulses, zero, one, pause=rnd.choice((0, 3500)), used_bits=rnd.randrange(1, 9), tail=rnd.choice((0, 0, 945)), polarity=rnd.choice((None, 0, 1)))
            blk = T.TapeBlock(b + 1, data, tm)
            blk.keys = None
            blocks.append(blk)
        fe, pol = rnd.choice((0, 0, 17)), rnd.randrange(2)
        try:
            edges, dbs = T.get_edges(blocks, fe, pol)
        except Exception as ex:
            return {'case': {'edge_list': True, 'trial': t}, 'diffs': [('get_edges raised', repr(ex)[:200], 'no exception')]}
        edges = list(edges)
        bad = [i for i in range(1, len(edges)) if edges[i] < edges[i - 1]]
        if bad:
            return {'case': {'edge_list': True, 'trial': t}, 'diffs': [('edges decrease at index %d' % bad[0], edges[max(0, bad[0] - 2):bad[0] + 2], 'non-decreasing')]}
        for d in dbs:
            if not 0 <= d.start <= d.end < max(1, len(edges)) + 1:
                return {'case': {'edge_list': True, 'trial': t}, 'diffs': [('data block index range', [d.start, d.end, len(edges)], '0 <= start <= end < len(edges)')]}
    return {'case': {}, 'diffs': []}


def pzx_data_layout():
    """E over the layout dimensions of a PZX DATA block: pulse counts p0, p1 in 1..4 (also unequal), bit counts 1..20,
    tail pulse present or not, initial level 0/1. Built byte by byte from the PZX specification, parsed by the real
    parse_pzx: the block's bytes are the payload, its 0-bit / 1-bit sequences are s0 / s1, used bits and tail as given,
    and get_edges yields exactly the pulses the bits select (checked against the sequences, pulse by pulse)."""
    import skoolkit.tape as T
    w = lambda v, k=2: list(v.to_bytes(k, 'little'))
    bad = []
    n = 0
    for p0 in range(1, 5):
        for p1 in range(1, 5):
            for bits in range(1, 21):
                for tail in (0, 945):
                    n += 1
                    level = (p0 + p1 + bits) % 2
                    s0 = [300 + 10 * i for i in range(p0)]
                    s1 = [700 + 10 * i for i in range(p1)]
                    nbytes = (bits + 7) // 8
                    payload = [(0xA5 + 37 * i + bits) & 255 for i in range(nbytes)]
                    body = w((level << 31) + bits, 4) + w(tail) + [p0, p1]
                    for d in s0 + s1:
                        body += w(d)
                    body += payload
                    marker = [0xEE] * 6      # bytes after the block: must never be read as data
                    pzx = list(b'PZXT') + w(2, 4) + [1, 0] + list(b'DATA') + w(len(body), 4) + body + list(b'PAUS') + w(4, 4) + w(1000, 4) + marker[:0]
                    try:
                        tape = T.parse_pzx(bytes(pzx))
                        blk = [b for b in tape.blocks if b.timings and (b.data or b.timings.zero)][0]
                        tm = blk.timings
                        why = None
                        if list(blk.data) != payload:
                            why = 'data %s, payload %s' % (list(blk.data)[:4], payload[:4])
                        elif tuple(tm.zero) != tuple(s0) or tuple(tm.one) != tuple(s1):
                            why = 'bit sequences %s / %s, written %s / %s' % (tm.zero, tm.one, s0, s1)
                        elif tm.used_bits != ((bits % 8) or 8) or (tm.tail or 0) != tail:
                            why = 'used bits %s tail %s' % (tm.used_bits, tm.tail)
                        else:
                            blk.keys = None
                            edges, dbs = T.get_edges([blk], 0, 0)
                            exp = []
                            for i in range(bits):
                                exp += s1 if (payload[i // 8] >> (7 - i % 8)) & 1 else s0
                            e = list(edges)
                            gaps = [e[i + 1] - e[i] for i in range(len(e) - 1)]
                            # (get_edges drops a tail pulse that ends the tape; an initial high level shows as one extra edge at time 0)
                            if tail and gaps and gaps[-1] == tail and len(gaps) > len(exp):
                                gaps = gaps[:-1]
                            if gaps[-len(exp):] != exp or len(gaps) - len(exp) not in (0, 1):
                                why = 'pulses %s..., expected %s...' % (gaps[:6], exp[:6])
                        if why:
                            bad.append((p0, p1, bits, tail, why))
                    except Exception as ex:
                        bad.append((p0, p1, bits, tail, 'exception %r' % (ex,)))
    return n, bad


def format_equivalence():
    """E over the small discrete dimensions: one data block expressed as TZX turbo (0x11), as TZX pure tone (0x12) +
    pulse sequence (0x13) + pure data (0x14), and as PZX PULS + DATA - for every used-bits count 1..8, two pause values
    and three data lengths - gives the same edges and the same data-block index range through the real parsers."""
    import skoolkit.tape as T
    bad = []
    n = 0
    w = lambda v, k=2: list(v.to_bytes(k, 'little'))
    for used in range(1, 9):
        for pause in (0, 1000):
            for data in ([0xA5], [0x0F, 0xF0, 0x81], [0x55] * 7):
                n += 1
                pilot, plen, s1, s2, z, o = 101, 2168, 667, 735, 500, 1100  # odd pilot count: the PZX DATA block below starts at the high level, like the TZX forms
                t11 = [0x11] + w(plen) + w(s1) + w(s2) + w(z) + w(o) + w(pilot) + [used] + w(pause) + w(len(data), 3) + data
                t14 = [0x12] + w(plen) + w(pilot) + [0x13, 2] + w(s1) + w(s2) + [0x14] + w(z) + w(o) + [used] + w(pause) + w(len(data), 3) + data
                hdr = list(b'ZXTape!\x1a\x01\x14')
                bits = (len(data) - 1) * 8 + used
                puls = w(0x8000 + pilot) + w(plen) + w(s1) + w(s2)
                pzx = list(b'PZXT') + w(2, 4) + [1, 0] + list(b'PULS') + w(len(puls), 4) + puls
                body = w(0x80000000 + bits, 4) + w(0) + [2, 2] + w(z) + w(z) + w(o) + w(o) + data
                pzx += list(b'DATA') + w(len(body), 4) + body
                if pause:
                    pzx += list(b'PAUS') + w(4, 4) + w(pause * 3500, 4)
                try:
                    res = []
                    for tape in (T.parse_tzx(bytes(hdr + t11), timings=True), T.parse_tzx(bytes(hdr + t14), timings=True), T.parse_pzx(bytes(pzx))):
                        blocks = [b for b in tape.blocks if b.timings]
                        for b in blocks:
                            b.keys = None
                        e, ds = T.get_edges(blocks, 0, 0)
                        res.append((list(e), [(d.start, d.end) for d in ds]))
                except Exception as ex:
                    bad.append((used, pause, len(data), 'exception', repr(ex)[:120]))
                    continue
                # a trailing pause adds no edge of its own in any of the three forms; compare up to the end of the data
                k = res[0][1][-1][1] + 1 if res[0][1] else len(res[0][0])
                for name, r in zip(('TZX 0x12+0x13+0x14', 'PZX PULS+DATA'), res[1:]):
                    if r[1] != res[0][1] or r[0][:k] != res[0][0][:k]:
                        bad.append((used, pause, len(data), 'TZX 0x11 vs ' + name, (len(res[0][0]), res[0][1]), (len(r[0]), r[1])))
    return n, bad


def flag_consistency():
    """E: for every flag byte, the same one-block tape read as TAP, as TZX 0x10 and as the PZX file written by
    write_pzx gives the same edges up to the end of the data (PZX adds its 945 T-state tail pulse after them)."""
    import skoolkit.tape as T
    tmp = tempfile.mkdtemp(prefix='c11f_')
    bad = []
    try:
        for flag in range(256):
            blk = [flag, 0x55, 0xA3]
            fn = os.path.join(tmp, 'x.tap')
            T.write_tap(fn, [blk])
            with open(fn, 'rb') as f:
                tap = T.parse_tap(f.read())
            fn2 = os.path.join(tmp, 'x.pzx')
            T.write_pzx(fn2, [blk])
            with open(fn2, 'rb') as f:
                pzx = T.parse_pzx(f.read())
            tzx = bytes(b'ZXTape!\x1a\x01\x14') + bytes([0x10, 0xE8, 0x03, 3, 0]) + bytes(blk)
            t10 = T.parse_tzx(tzx, timings=True)
            for b in list(tap.blocks) + list(pzx.blocks) + list(t10.blocks):
                b.keys = None
            e1, d1 = T.get_edges([b for b in tap.blocks if b.timings], 0, 0)
            e2, d2 = T.get_edges([b for b in t10.blocks if b.timings], 0, 0)
            e3, d3 = T.get_edges([b for b in pzx.blocks if b.timings], 0, 0)
            if e1 != e2:
                bad.append((flag, 'TAP vs TZX 0x10', len(e1), len(e2)))
            elif e3[:len(e1)] != e1 or len(e3) not in (len(e1), len(e1) + 1):
                bad.append((flag, 'TAP vs PZX (up to the end of the data)', len(e1), len(e3)))
            elif [(d.start, d.end) for d in d1] != [(d.start, d.end) for d in d3]:
                bad.append((flag, 'TAP vs PZX data-block ranges', [(d.start, d.end) for d in d1], [(d.start, d.end) for d in d3]))
    finally:
        shutil.rmtree(tmp, ignore_errors=True)
    return 256, bad


def run(tier):
    rep = common.Report('C11', tier, 'other', './check C11 --tier %s' % tier)
    rep.trust('pyvc, z3 for the kernel VCs; CPython for the bounded parts')
    rep.assume('kernel slices = both branches of `if 0 in timings.zero or 0 in timings.one:` in get_edges, located mechanically on every run; run with symbolic pulse durations in 1..65535 (or the literal 0 where the pattern says so) and symbolic start time')
    rep.assume('the list-building loops of get_edges as a whole (which pulses a block contributes: pilot tones, pauses, polarity adjustments) are outside the VC generator: bounded only; that the edge list is non-decreasing and the data-block index ranges are well-formed is proved by site obligations (check_edge_list_discipline)')
    quick = tier == 'quick'
    combos = [(a, b) for a in range(1, 5) for b in range(1, 5)] if not quick else [(1, 1), (2, 2), (1, 2), (2, 1), (1, 3), (3, 2), (4, 4), (2, 4)]
    t0 = time.time()
    fn = 'skoolkit.tape.get_edges[data-pulse kernel]'
    try:
        with Pool(common.NCPU) as p:
            res = p.map(kernel_combo, combos, chunksize=1)
    except (poly.Refuse, LookupError, AssertionError) as ex:
        # the kernel left the supported subset (or moved): not a verdict; the bounded contract below still runs
        rep.downgraded.append({'function': fn, 'reason': str(ex)})
        res = []
    seen = set()
    for (lz, lo), n_ob, bad, ts in res:
        rep.add_bulk(n_ob - len(bad), 'z3' if ts else 'identical', ts, fn, n=n_ob)
        for b in bad:
            key = 'C11/kernel/%s/len_zero=%d/len_one=%d' % (b[0], lz, lo)
            if key in seen:
                continue
            seen.add(key)
            if b[0] == 'table':
                rep.violation(key, 'per-byte pulse table entry %d is not the MSB-first concatenation of the bit pulses' % b[3], {'case': b}, no_input=True)
            else:
                case, diffs = concrete_kernel(lz, lo, b[3], b[4])
                if diffs:
                    rep.violation(key, 'last-byte truncation: %d used bits of %s with %d/%d pulses per bit: %s' % (b[3], b[4], lz, lo, diffs[:1]),
                                  {'obligation': key, 'case': case, 'observed_vs_expected': diffs})
                else:
                    rep.errors.append('kernel failure %s does not replay' % (b,))
    rep.exhaustive.append({'domain': 'pulse counts %s x used bits 1..8 x last byte 0..255 (durations symbolic)' % combos, 'size': sum(r[1] for r in res), 'visited': sum(r[1] for r in res), 'complete': True})
    # the branch for bit-pulse sequences that contain zero-width pulses
    import itertools
    maxlen = 2 if quick else 3
    zcombos = [(zm, om) for lz in range(1, maxlen + 1) for lo in range(1, maxlen + 1) for zm in itertools.product((0, 1), repeat=lz) for om in itertools.product((0, 1), repeat=lo) if any(zm) or any(om)]
    fnz = 'skoolkit.tape.get_edges[data-pulse kernel, zero-width pulses]'
    try:
        with Pool(common.NCPU) as p:
            resz = p.map(zero_kernel_combo, zcombos, chunksize=2)
    except (poly.Refuse, LookupError, AssertionError) as ex:
        rep.downgraded.append({'function': fnz, 'reason': str(ex)})
        resz = []
    seenz = set()
    for (zm, om), n_ob, bad, ts in resz:
        rep.add_bulk(n_ob - len(bad), 'z3' if ts else 'identical', ts, fnz, n=n_ob)
        for b in bad:
            key = 'C11/zero-kernel/%s' % b[0]
            if key in seenz:
                continue
            seenz.add(key)
            case, diffs = concrete_zero_kernel(b[1], b[2], b[3], b[4])
            if diffs:
                rep.violation(key, 'zero-width pulses %s/%s, %d used bits of %s: %s' % (case['zero'], case['one'], b[3], b[4], diffs[:1]), {'obligation': key, 'case': case, 'observed_vs_expected': diffs})
            else:
                rep.errors.append('zero-width kernel failure %s does not replay' % (b,))
    rep.exhaustive.append({'domain': 'zero-width patterns of bit-pulse sequences up to length %d x used bits 1..8 x 6 last bytes x {no, one} leading byte (non-zero durations symbolic)' % maxlen,
                           'size': sum(r[1] for r in resz), 'visited': sum(r[1] for r in resz), 'complete': False})
    check_constants(rep)
    check_pzx_puls(rep)
    nb_, badb = block_independence()
    rep.add_bulk(nb_ - len(badb), 'exhaustive', 0, 'skoolkit.tape.get_edges (per-call byte timing cache)', n=nb_)
    rep.exhaustive.append({'domain': 'ordered pairs of consecutive data blocks whose 0/1 bit-pulse sequences have length 1..3 over durations {300, 700} (small scope: complete within it)', 'size': nb_, 'visited': nb_, 'complete': False})
    if badb:
        rep.violation('C11/block-independence', 'the pulse train of a data block with bit pulses %s / %s changes when it follows a block with %s / %s' % (badb[0][1][0], badb[0][1][1], badb[0][0][0], badb[0][0][1]),
                      {'case': {'first_block_timings': [list(x) for x in badb[0][0]], 'second_block_timings': [list(x) for x in badb[0][1]]}})
    check_edge_list_discipline(rep)     # every tape: edges non-decreasing, data-block index ranges well-formed (site obligations)
    npz, badpz = pzx_data_layout()
    rep.add_bulk(npz - len(badpz), 'exhaustive', 0, 'skoolkit.tape._get_pzx_block[DATA] / get_edges (layout of a PZX DATA block)', n=npz)
    rep.exhaustive.append({'domain': 'PZX DATA block layout: p0, p1 in 1..4 x bit count 1..20 x tail {0, 945} (initial level alternating)', 'size': npz, 'visited': npz, 'complete': True})
    if badpz:
        b = badpz[0]
        rep.violation('C11/pzx-data-layout', 'PZX DATA block with p0=%d, p1=%d, %d bits, tail %d: %s (%d of %d layouts fail)' % (b[0], b[1], b[2], b[3], b[4], len(badpz), npz),
                      {'case': {'pzx_data_layout': list(b[:4])}, 'observed': b[4]})
    ne, bade = format_equivalence()
    rep.add_bulk(ne - len({b[:3] for b in bade}), 'exhaustive', 0, 'skoolkit.tape.parse_tzx / parse_pzx / get_edges (turbo, pure-data and PZX forms of one block)', n=ne)
    rep.exhaustive.append({'domain': 'used bits 1..8 x pause {0, 1000 ms} x 3 data lengths: TZX 0x11 == TZX 0x12+0x13+0x14 == PZX PULS+DATA (edges and data-block ranges)', 'size': ne, 'visited': ne, 'complete': True})
    if bade:
        b = bade[0]
        rep.violation('C11/format-equivalence/%s' % str(b[3]).replace(' ', '-'), 'used bits %d, pause %d, %d data bytes: %s: %s vs %s' % (b[0], b[1], b[2], b[3], b[4] if len(b) > 4 else '', b[5] if len(b) > 5 else ''),
                      {'case': {'format_equivalence': [b[0], b[1], b[2]]}, 'observed_vs_expected': [list(map(str, x)) for x in bade[:4]]})
    nf, badf = flag_consistency()
    rep.add_bulk(nf - len(badf), 'exhaustive', 0, 'skoolkit.tape._get_tape_block_timings / write_pzx / get_edges (pilot length per flag byte)', n=nf)
    rep.exhaustive.append({'domain': 'flag bytes 0..255: TAP, TZX 0x10 and written-PZX forms of the same block give the same edges up to the end of the data', 'size': nf, 'visited': nf, 'complete': True})
    if badf:
        rep.violation('C11/flag-byte/%s' % badf[0][1].split(' (')[0].replace(' ', '-'), 'flag byte %d (and %d more): %s: %s vs %s' % (badf[0][0], len(badf) - 1, badf[0][1], badf[0][2], badf[0][3]),
                      {'case': {'flag_byte': badf[0][0], 'block': [badf[0][0], 0x55, 0xA3]}, 'observed_vs_expected': [list(map(str, b)) for b in badf[:5]]})
    n, bad = edges_bounded(common.seed(), 400 if quick else 6000)
    rep.bounded.append({'function': 'skoolkit.tape.get_edges', 'contract': 'edge list == independently built pulse train; non-decreasing; data-block indices; distances decode to the bits',
                        'bound': '%d generated tapes (1-3 blocks, pulses, tails, pauses, used bits 1..8, unequal pulse counts)' % n, 'evaluations': n})
    seen = set()
    for b in bad:
        key = 'C11/get_edges/%s' % b[0]
        if key in seen:
            continue
        seen.add(key)
        rep.violation(key, 'get_edges: %s' % (b,), {'case': b})
    n, bad = files_bounded(common.seed(), 60 if quick else 1000)
    rep.bounded.append({'function': 'skoolkit.tape.write_tap/parse_tap/write_pzx/parse_pzx', 'contract': 'parse(write(blocks)) == blocks; TAP, TZX 0x10 and TZX 0x11 (ROM timings) of the same tape give the same edges; PZX edges == independently built train incl. the 945 tail',
                        'bound': '%d generated tapes' % n, 'evaluations': n})
    for b in bad[:3]:
        rep.violation('C11/files/%s' % b[0], 'tape file round trip: %s' % (b,), {'case': b})
    rep.extra['explanation'] = 'P/E kernel of the data pulses inside get_edges for symbolic durations; whole-function and file contracts bounded'
    return rep.finish()


def check_constants(rep):
    """ROM loader timings used for standard-speed blocks."""
    import skoolkit.tape as T
    ok = True
    detail = []
    for first, npilot in ((0, 8063), (255, 3223)):
        t = T._get_tape_block_timings(first)
        want = [(npilot, 2168), (1, 667), (1, 735)]
        got = [tuple(p) for p in t.pulses]
        if got != want or tuple(t.zero) != (855, 855) or tuple(t.one) != (1710, 1710):
            ok = False
            detail.append((first, got, t.zero, t.one))
    rep.add('C11/skoolkit.tape._get_tape_block_timings/constants', 'proved' if ok else 'failed', 'exhaustive', 0, 'skoolkit.tape._get_tape_block_timings')
    if not ok:
        rep.violation('C11/_get_tape_block_timings', 'standard-speed timings differ from the ROM loader constants: %s' % detail, {'case': detail}, no_input=True)


def replay(path):
    import json
    with open(path) as f:
        doc = json.load(f)
    case = doc.get('case')
    print('replaying', doc.get('key'), case)
    if isinstance(case, dict) and 'pzx_data_layout' in case:
        n_, bad = pzx_data_layout()
        print(bad[:2])
        if bad:
            print('VIOLATION property=C11 replay=%s' % path)
            return 1
        return 0
    if isinstance(case, dict) and 'edge_list' in case:
        r = edges_monotone_search()
        print(r['diffs'])
        if r['diffs']:
            print('VIOLATION property=C11 replay=%s' % path)
            return 1
        return 0
    if isinstance(case, dict) and 'format_equivalence' in case:
        n_, bad = format_equivalence()
        print(bad[:2])
        if bad:
            print('VIOLATION property=C11 replay=%s' % path)
            return 1
        return 0
    if isinstance(case, dict) and 'second_block_timings' in case:
        n_, bad = block_independence()
        print(bad[:2])
        if bad:
            print('VIOLATION property=C11 replay=%s' % path)
            return 1
        return 0
    if isinstance(case, dict) and 'flag_byte' in case:
        n_, bad = flag_consistency()
        bad = [b for b in bad if b[0] == case['flag_byte']]
        print(bad)
        if bad:
            print('VIOLATION property=C11 replay=%s' % path)
            return 1
        return 0
    if isinstance(case, dict) and case.get('zero_width'):
        c, d = concrete_zero_kernel([int(x == 0) for x in case['zero']], [int(x == 0) for x in case['one']], case['used_bits'], case['data'])
        print(d)
        if d:
            print('VIOLATION property=C11 replay=%s' % path)
            return 1
        return 0
    if isinstance(case, dict) and 'used_bits' in case:
        c, d = concrete_kernel(len(case['zero']), len(case['one']), case['used_bits'], case['data'])
        print(d)
        if d:
            print('VIOLATION property=C11 replay=%s' % path)
            return 1
        return 0
    return 1


# ------------------------------------------------------------------ PZX PULS entry decoder (P)
def check_pzx_puls(rep):
    """One entry of a PZX PULS block (the body of the decoding loop in
    _get_pzx_block, taken from the function on every run) against the PZX
    specification, for all 16-bit words:
        count = 1; d = next word
        if d > 0x8000: count = d & 0x7FFF; d = next word
        if d >= 0x8000: d = ((d & 0x7FFF) << 16) | next word"""
    import skoolkit.tape as T
    import z3
    from props.funcvc import FuncVC
    from pyvc.poly import SV, ite, and_, cmpop
    W = poly.W
    node, src = func_ast(T._get_pzx_block)
    body = None
    for n in ast.walk(node):
        if isinstance(n, ast.If) and "'PULS'" in ast.unparse(n.test):
            for s in n.body:
                if isinstance(s, ast.While):
                    body = s.body
            break
    if body is None:
        rep.downgraded.append({'function': 'skoolkit.tape._get_pzx_block[PULS entry]', 'reason': 'decoding loop not found'})
        return

    def start(eng):
        p = eng.path
        p.bytes = [SV(z3.BitVec('b%d' % i, W), 0, 255) for i in range(6)]
        for b in p.bytes:
            p.facts.append(z3.And(b.t >= 0, b.t <= 255))
        p.pulses = SymList([], 'pulses')
        locs = {'data': SymList(p.bytes, 'data'), 'j': 0, 'pulses': p.pulses, 'info': SymList([], 'info'), 'i': 0, 'block_len': 6}
        eng.run_stmts(T._get_pzx_block, body, locs)
        p.locs = locs

    def post(p, prove):
        w = [p.bytes[2 * k] + 256 * p.bytes[2 * k + 1] for k in range(3)]
        has_count = w[0] > 0x8000
        count = ite(has_count, w[0] & 0x7FFF, 1)
        d = ite(has_count, w[1], w[0])
        nxt = ite(has_count, w[2], w[1])
        long_d = d >= 0x8000
        dur = ite(long_d, ((d & 0x7FFF) << 16) | nxt, d)
        used = 1 + ite(has_count, 1, 0) + ite(long_d, 1, 0)
        ok = len(p.pulses.items) == 1 and isinstance(p.pulses.items[0], tuple) and len(p.pulses.items[0]) == 2
        prove('post.one_entry', ok)
        if ok:
            # an entry with a count word followed by a long duration needs a fourth word: outside the 3 words modelled
            inside = cmpop('<=', used, 3)
            prove('post.count', or_(not_(inside), cmpop('==', p.pulses.items[0][0], count)))
            prove('post.duration', or_(not_(inside), cmpop('==', p.pulses.items[0][1], dur)))
            prove('post.consumed', or_(not_(inside), cmpop('==', p.locs['j'], 2 * used)))
    from pyvc.poly import or_, not_
    eng = Engine(inline_ok=lambda f: f.__module__ == 'skoolkit', unknown_ok=True)

    def replayer(vals, kind):
        bs = [vals.get('b%d' % i, 0) & 255 for i in range(6)]
        blk = bytes([ord(c) for c in 'PULS']) + (6).to_bytes(4, 'little') + bytes(bs)
        nxt, block, rp = T._get_pzx_block(list(blk), 0, 1, False)
        w = [bs[2 * k] + 256 * bs[2 * k + 1] for k in range(3)]
        exp = []
        k = 0
        while k < 3:
            count, d = 1, w[k]
            k += 1
            if d > 0x8000 and k < 3:
                count, d = d & 0x7FFF, w[k]
                k += 1
            if d >= 0x8000 and k < 3:
                d = ((d & 0x7FFF) << 16) | w[k]
                k += 1
            exp.append((count, d))
        got = list(block.timings.pulses)
        return {'case': {'PULS words': w}, 'diffs': [] if got[:1] == exp[:1] else [('first pulse entry', got[:2], exp[:2])]}
    FuncVC(rep, 'C11', T._get_pzx_block, 'skoolkit.tape._get_pzx_block[PULS entry]', eng).run(start, post, replayer)
