"""Concrete (int) side of the simulator contracts, importable without z3 so
that it also runs under the repository's own interpreter (needed for the C
extension modules): state generation, spec evaluation, comparison."""
import random

from contracts import z80spec as Z

TABLE_NAMES = (('opcodes', ''), ('after_CB', 'CB'), ('after_ED', 'ED'), ('after_DD', 'DD'),
               ('after_FD', 'FD'), ('after_DDCB', 'DDCB'), ('after_FDCB', 'FDCB'))
PREFIX_OF = dict(TABLE_NAMES)
PREFIX_BYTES = {'': (), 'CB': (0xCB,), 'ED': (0xED,), 'DD': (0xDD,), 'FD': (0xFD,), 'DDCB': (0xDD, 0xCB), 'FDCB': (0xFD, 0xCB)}
DISPATCH = {('opcodes', 0xCB), ('opcodes', 0xED), ('opcodes', 0xDD), ('opcodes', 0xFD), ('after_DD', 0xCB), ('after_FD', 0xCB)}
ADDRS = (0, 1, 0x3FFE, 0x3FFF, 0x4000, 0x4001, 0x5000, 0x7FFE, 0x7FFF, 0x8000, 0xBFFF, 0xC000, 0xFFFE, 0xFFFF)


def reg_interval(i):
    if i in (Z.SP, Z.PC, Z.MEMPTR):
        return 0, 0xFFFF
    if i == Z.T:
        return 0, (1 << 38) - 1
    if i in (Z.IFF, Z.HALT):
        return 0, 1
    if i == Z.SP2:
        return 0, 0
    if i == Z.IM:
        return 0, 255        # an 8-bit slot; the closures only test it for == 2
    return 0, 255


class Tracer:
    def __init__(self, val):
        self.val = val
        self.log = []

    def read_port(self, registers, port):
        self.log.append(('in', port))
        return self.val

    def write_port(self, registers, port, value, offset=None):
        self.log.append(('out', port, value))


def opcode_bytes(tn, index, d=0):
    pfx = PREFIX_BYTES[PREFIX_OF[tn]]
    if len(pfx) == 2:
        return [pfx[0], 0xCB, d, index]
    return list(pfx) + [index]


def random_case(rnd, clsname, machine, tn, index, tracer=True):
    regs = [rnd.choice((0, 1, 0x0F, 0x10, 0x7F, 0x80, 0xFF, rnd.randrange(256))) for _ in range(30)]

    def addr():
        return rnd.choice(ADDRS + (rnd.randrange(65536), rnd.randrange(0x4000, 0x8000), rnd.randrange(65536)))
    for hi, lo in ((Z.H, Z.L), (Z.D, Z.E), (Z.B, Z.C), (Z.IXh, Z.IXl), (Z.IYh, Z.IYl)):
        if rnd.random() < 0.7:
            a = addr()
            regs[hi] = a >> 8
            regs[lo] = a & 255
    for i in (Z.SP, Z.PC, Z.MEMPTR):
        regs[i] = addr()
    fd = Z.FRAME[machine]
    first = Z.CONT_FIRST[machine]
    regs[Z.T] = rnd.randrange(3) * fd + rnd.choice((0, 1, 30, 31, 32, 35, 36, 37, first - 24, first - 23, first - 22, first - 1, first, first + 1,
                                                   rnd.randrange(first - 30, first + 300), rnd.randrange(first, first + 192 * Z.LINE[machine]),
                                                   first + 192 * Z.LINE[machine] - rnd.randrange(0, 130), rnd.randrange(fd), fd - 1, fd - 4, fd - 9))
    regs[Z.IFF] = rnd.randrange(2)
    regs[Z.IM] = rnd.randrange(3)
    regs[Z.HALT] = rnd.randrange(2) if (tn, index) == ('opcodes', 0x76) else 0
    regs[Z.SP2] = 0
    cells = {}
    pc = regs[Z.PC]
    for k in range(4):
        cells[(pc + k) & 0xFFFF] = rnd.choice((0, 1, 0x7F, 0x80, 0xFE, 0xFF, rnd.randrange(256)))
    ob = opcode_bytes(tn, index, cells[(pc + 2) & 0xFFFF])
    for k, b in enumerate(ob):
        cells[(pc + k) & 0xFFFF] = b
    for base in (regs[Z.SP], regs[Z.L] + 256 * regs[Z.H], regs[Z.E] + 256 * regs[Z.D], regs[Z.C] + 256 * regs[Z.B]):
        for k in (-2, -1, 0, 1):
            cells.setdefault((base + k) & 0xFFFF, rnd.randrange(256))
    for off in (1, 2):
        nn = cells[(pc + off) & 0xFFFF] + 256 * cells[(pc + off + 1) & 0xFFFF]
        for k in (0, 1):
            cells.setdefault((nn + k) & 0xFFFF, rnd.randrange(256))
    for hh, ll in ((Z.IXh, Z.IXl), (Z.IYh, Z.IYl)):
        for dpos in (1, 2):
            d = cells[(pc + dpos) & 0xFFFF]
            d = d - 256 if d > 127 else d
            cells.setdefault((regs[ll] + 256 * regs[hh] + d) & 0xFFFF, rnd.randrange(256))
    vaddr = 255 + 256 * regs[Z.I]
    cells.setdefault(vaddr, rnd.randrange(256))
    cells.setdefault((vaddr + 1) & 0xFFFF, rnd.randrange(256))
    return {'regs': regs, 'cells': {str(k): v for k, v in cells.items()},
            'o7ffd': rnd.choice((0, 1, 3, 5, 7, 16, 17, 0x1F, rnd.randrange(256))) if machine == 128 else 0,
            'inval': rnd.randrange(256), 'tracer': tracer, 'cls': clsname, 'machine': machine, 'table': tn, 'index': index}


def compare(case, cmio, got, flat0, flat1, log, frame_duration, int_active):
    """Differences between an observed post-state and z80spec.Step on ints."""
    regs = list(case['regs'])
    tn, index = case['table'], case['index']
    cfg = Z.Cfg(machine=case['machine'], cmio=cmio, in_a_n=case['tracer'], in_r_c=case['tracer'],
                ini=case['tracer'], out=case['tracer'], o7ffd=case['o7ffd'] if case['machine'] == 128 else 0,
                frame_duration=frame_duration, int_active=int_active)
    im = Z.IntMem(flat0)
    spec = Z.Step(PREFIX_OF[tn], index, regs, im, cfg, inval=case['inval'])
    diffs = []
    if len(got) != 30:
        return [('reg_count', len(got))]
    for i in range(30):
        lo, hi = reg_interval(i)
        g = got[i]
        if i != Z.T and not (isinstance(g, int) and lo <= g <= hi):
            diffs.append(('reg_range.' + Z.REGNAMES[i], g))
        if i in (Z.MEMPTR, Z.SP2):
            if i == Z.SP2 or not cmio:
                if g != regs[i]:
                    diffs.append(('frame.' + Z.REGNAMES[i], g, regs[i]))
            continue
        e = spec.r[i]
        if i == Z.F:
            g &= spec.mask
            e &= spec.mask
        if i == Z.T and spec.alt_cyc is not None and cmio:
            tm = regs[Z.T] % cfg.fd
            alt = regs[Z.T] + spec.base + Z.ula_fold(cfg.machine, tm, spec.alt_cyc, cfg.o7ffd)
            if g not in (e, alt):
                diffs.append(('post.T', g, e, alt))
            continue
        if g != e:
            diffs.append(('post.' + Z.REGNAMES[i], g, e))
    if got[Z.T] < regs[Z.T]:
        diffs.append(('t_mono', got[Z.T], regs[Z.T]))
    expm = list(flat0)
    page = case['o7ffd'] & 7 if case['machine'] == 128 else None
    for a, v in im.w.items():
        expm[a] = v
        # 128K: bank 5 / bank 2 paged at 0xC000 is the same physical cell as 0x4000+ / 0x8000+
        if page == 5 and (a >> 14) in (1, 3):
            expm[a ^ 0x8000] = v
        elif page == 2 and (a >> 14) in (2, 3):
            expm[(a & 0x3FFF) | (0x8000 if a >= 0xC000 else 0xC000)] = v
    if expm != flat1:
        bad = [(a, flat1[a], expm[a]) for a in range(65536) if flat1[a] != expm[a]][:4]
        diffs.append(('post.mem', bad))
    if any(flat1[a] != flat0[a] for a in range(0x4000)):
        diffs.append(('rom_guard', [a for a in range(0x4000) if flat1[a] != flat0[a]][:4]))
    if any(not (isinstance(v, int) and 0 <= v <= 255) for v in flat1):
        diffs.append(('byte_range', [(a, v) for a, v in enumerate(flat1) if not (isinstance(v, int) and 0 <= v <= 255)][:4]))
    exp_ports = [tuple(p) for p in spec.ports]
    if case['tracer'] and log != exp_ports:
        diffs.append(('post.ports', log, exp_ports))
    return diffs
