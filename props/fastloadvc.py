"""LoadTracer.fast_load (skoolkit's shortcut for the ROM's LD-BYTES) under contract.

The verified text is a mechanical slice of the real function, re-read on every
run: every statement from `memory = simulator.memory` to the end, except the
progress-message `if` (it only calls write_line / get_text and assigns `name`,
which nothing else reads).  The block-selection preamble (while ... next_block)
is not part of the slice.

Contract (48K flat memory; block = data_block.data of any length n >= 2,
ix/de/a/SP taken from the registers):

  * AF and AF' are exchanged, IFF := 0, SP := SP - 2, 0x053F pushed (ROM guarded),
    PC := 0x05E2 - whatever else happens;
  * flag byte mismatch (A != block[0]): F = 0, H = 0, nothing loaded;
  * otherwise L = min(DE, n - 1) bytes are consumed: for every k < L the cell
    (IX + k) mod 65536 holds block[1 + k] if it is RAM (> 0x3FFF); every cell
    outside those L addresses holds what it held after the push;
    IX' = IX + L (mod 65536), DE' = DE - L; if DE <= n - 2 (the block is long
    enough) A' = XOR of block[0 .. L + 1] and F = 0x40*(A' == 1) + (A' == 0),
    else F = 0x40 (edge detection failed: ran out of tape);
  * no cell <= 0x3FFF is ever written (rom_guard obligations at the stores).

The byte loop `while length:` is treated with an inductive invariant over the
number j of bytes done; the memory part of the invariant is stated for one
arbitrary offset k and one arbitrary address a (Skolem constants chosen before
the loop), which is equivalent to the universally quantified statement because
each preservation step needs the hypothesis only at the same k and a.  The
running parity is the uninterpreted prefix-XOR function XP with its two
defining equations instantiated at j.
"""
import ast
import random

import z3

from props import simvc
from props.funcvc import FuncVC
from pyvc import poly
from pyvc.poly import SV, SB, ite, and_, or_, not_, sv, cmpop, truth
from pyvc.engine import ObjModel, SymList, SymMem, func_ast, PathEnd, UNK, CallModel
from contracts import z80spec as Z


def fast_load_slice():
    import skoolkit.loadtracer as LT
    node, _ = func_ast(LT.LoadTracer.fast_load)
    body = node.body
    start = None
    for i, s in enumerate(body):
        if isinstance(s, ast.Assign) and ast.unparse(s).startswith('memory = simulator.memory'):
            start = i
    if start is None:
        raise LookupError('fast_load: `memory = simulator.memory` not found')
    out = []
    dropped = []
    for s in body[start:]:
        calls = [n for n in ast.walk(s) if isinstance(n, ast.Call) and isinstance(n.func, ast.Name) and n.func.id == 'write_line']
        if isinstance(s, ast.If) and calls:
            stores = set(n.id for n in ast.walk(s) if isinstance(n, ast.Name) and isinstance(n.ctx, ast.Store))
            if stores - {'name'}:
                raise LookupError('fast_load: the message statement now assigns %s' % sorted(stores - {'name'}))
            dropped.append(s.lineno)
            continue
        out.append(s)
    whiles = [n for s in out for n in ast.walk(s) if isinstance(n, ast.While)]
    if len(whiles) != 1:
        raise LookupError('fast_load: expected exactly one while loop in the slice')
    return out, whiles[0], dropped


def check_fast_load(rep, prop):
    import skoolkit.loadtracer as LT
    W = poly.W
    stmts, loop_node, dropped = fast_load_slice()
    name = 'skoolkit.loadtracer.LoadTracer.fast_load[from `memory = simulator.memory`]'
    q = LT.LoadTracer.fast_load.__qualname__
    XP = z3.Function('XP', z3.BitVecSort(W), z3.BitVecSort(W))      # XP(j) = block[0] ^ ... ^ block[j]

    def start(eng):
        p = eng.path
        regs = simvc.initial_regs()
        p.regs0 = list(regs)
        p.reglist = SymList(regs, 'registers')
        p.mem = SymMem('mem')
        n = SV(z3.BitVec('block_len', W), 2, 1 << 20)
        p.facts.append(z3.And(n.t >= 2, n.t <= (1 << 20)))
        p.n = n
        p.block = SymMem('block', size=n)
        sim = ObjModel(None, name='simulator')
        sim.attrs.update({'registers': p.reglist, 'memory': p.mem})
        blk = ObjModel(None, name='data_block')
        blk.attrs.update({'data': p.block, 'fast_load': True})
        me = ObjModel(None, name='tracer', cls=LT.LoadTracer)
        p.state = SymList([UNK] * 10, 'state')
        me.attrs.update({'state': p.state, 'text': UNK})
        # Skolem constants of the memory invariant
        p.k = SV(z3.BitVec('k_any', W), 0, 65535)
        p.a = SV(z3.BitVec('a_any', W), 0, 65535)
        p.facts.append(z3.And(p.k.t >= 0, p.k.t <= 65535, p.a.t >= 0, p.a.t <= 65535))
        r0 = p.regs0
        ix0 = r0[Z.IXl] + 256 * r0[Z.IXh]
        p.ix0 = ix0
        p.de0 = r0[Z.E] + 256 * r0[Z.D]

        def blk_at(i):
            t = z3.Select(p.block.arr0, sv(i).t)
            return SV(t, 0, 255)

        def loop(e, node_):
            fr = e.frames[-1]
            L0 = fr.loc['length']
            p.L0 = L0
            p.mem_pushed = p.mem.arr
            # --- establish (j = 0)
            e.oblige('inv.establish', and_(cmpop('==', fr.loc['i'], 1), cmpop('==', fr.loc['addr'], ix0), cmpop('==', fr.loc['parity'], blk_at(0)),
                                          cmpop('>=', L0, 0), cmpop('<=', L0, 65535), cmpop('<=', L0, p.n - 1)), node_)
            # --- havoc: the state after j bytes
            j = e.fresh('j', 0, 65535)
            e.assume(cmpop('<=', j, L0))
            arr = z3.Array('mem_j', z3.BitVecSort(W), z3.BitVecSort(W))
            p.mem.arr = arr
            xpj = SV(XP(j.t), 0, 255)
            e.path.facts.append(z3.And(xpj.t >= 0, xpj.t <= 255))
            e.path.facts.append(z3.Implies(j.t == 0, xpj.t == blk_at(0).t))
            fr.loc.update({'i': j + 1, 'addr': (ix0 + j) & 0xFFFF, 'parity': xpj, 'length': L0 - j})

            def mem_inv(arr_, jj):
                ak = (ix0 + p.k) & 0xFFFF
                loaded = or_(not_(and_(cmpop('<', p.k, jj), cmpop('>', ak, 0x3FFF))), SB(z3.Select(arr_, ak.t) == blk_at(p.k + 1).t))
                untouched = or_(cmpop('<', (p.a - ix0) & 0xFFFF, jj), SB(z3.Select(arr_, p.a.t) == z3.Select(p.mem_pushed, p.a.t)))
                # cells of the range that are ROM keep their contents as well
                rom = or_(cmpop('>', p.a, 0x3FFF), SB(z3.Select(arr_, p.a.t) == z3.Select(p.mem_pushed, p.a.t)))
                return and_(loaded, untouched, rom)
            e.assume(mem_inv(arr, j))
            e.fresh_n += 1
            more = SB(z3.Bool('iterate!%d' % e.fresh_n))
            if e.decide(more):
                e.assume(truth(e.ev_cond(node_.test)))
                e.exec_block(node_.body)
                j1 = j + 1
                xp1 = SV(XP(j1.t), 0, 255)
                e.path.facts.append(xp1.t == (xpj.t ^ blk_at(j1).t))      # defining equation of XP at j + 1
                e.oblige('inv.preserve.i', cmpop('==', fr.loc['i'], j1 + 1), node_)
                e.oblige('inv.preserve.addr', cmpop('==', fr.loc['addr'], (ix0 + j1) & 0xFFFF), node_)
                e.oblige('inv.preserve.parity', cmpop('==', fr.loc['parity'], xp1), node_)
                e.oblige('inv.preserve.length', cmpop('==', fr.loc['length'], L0 - j1), node_)
                e.oblige('inv.preserve.j_le_L', cmpop('<=', j1, L0), node_)
                e.oblige('inv.preserve.mem', mem_inv(p.mem.arr, j1), node_)
                raise PathEnd()
            # --- exit
            e.assume(not_(truth(e.ev_cond(node_.test))))
            p.ghost = (j, arr, xpj)
        all_loops = sorted([n_ for n_ in ast.walk(func_ast(LT.LoadTracer.fast_load)[0]) if isinstance(n_, (ast.While, ast.For))], key=lambda n_: (n_.lineno, n_.col_offset))
        eng.loop_invariants = {(q, all_loops.index(loop_node)): loop}
        eng.call_models[id(LT.write_line)] = lambda e, a, k, n_: None
        p.locs = {'self': me, 'simulator': sim, 'registers': p.reglist, 'data_block': blk}
        p.ret = eng.run_stmts(LT.LoadTracer.fast_load, stmts, p.locs)

    def post(p, prove):
        r0 = p.regs0
        regs = p.reglist.items
        n = p.n
        ix0, de0 = p.ix0, p.de0
        b0 = SV(z3.Select(p.block.arr0, z3.BitVecVal(0, W)), 0, 255)
        prove('post.returns_true', p.ret is True)
        prove('post.PC', cmpop('==', regs[Z.PC], 0x05E2))
        prove('post.IFF', cmpop('==', regs[Z.IFF], 0))
        prove('post.SP', cmpop('==', regs[Z.SP], (r0[Z.SP] - 2) & 0xFFFF))
        for i_alt, i_main in ((16, 0), (17, 1)):
            prove('post.exx_af.%d' % i_alt, cmpop('==', regs[i_alt], r0[i_main]))
        for i in range(30):
            if i in (Z.A, Z.F, Z.H, Z.IXh, Z.IXl, Z.D, Z.E, Z.SP, Z.PC, Z.IFF, 16, 17):
                continue
            prove('frame.' + Z.REGNAMES[i], True if regs[i] is r0[i] else cmpop('==', regs[i], r0[i]))
        # the push
        sp1 = (r0[Z.SP] - 2) & 0xFFFF
        sp2 = (r0[Z.SP] - 1) & 0xFFFF
        pushed = p.mem.arr0
        pushed = z3.If(poly.bterm(cmpop('>', sp1, 0x3FFF)), z3.Store(pushed, sv(sp1).t, z3.BitVecVal(0x3F, W)), pushed)
        pushed = z3.If(poly.bterm(cmpop('>', sp2, 0x3FFF)), z3.Store(pushed, sv(sp2).t, z3.BitVecVal(0x05, W)), pushed)
        a_in = r0[16]       # after EX AF,AF' the flag byte is compared with the old A... the code reads `a` before the exchange
        a_in = r0[Z.A]
        skipped = cmpop('!=', a_in, b0)
        if not hasattr(p, 'ghost'):
            # flag mismatch path (no loop)
            prove('post.skipped.path', skipped)
            prove('post.skipped.F', cmpop('==', regs[Z.F], 0))
            prove('post.skipped.H', cmpop('==', regs[Z.H], 0))
            prove('post.skipped.A', cmpop('==', regs[Z.A], r0[16]))
            for i in (Z.IXh, Z.IXl, Z.D, Z.E):
                prove('post.skipped.frame.' + Z.REGNAMES[i], cmpop('==', regs[i], r0[i]))
            prove('post.skipped.mem', SB(p.mem.arr == pushed))
            return
        j, arr, xpj = p.ghost
        prove('post.loaded.path', not_(skipped))
        prove('post.mem_pushed_first', SB(p.mem_pushed == pushed))
        enough = cmpop('<=', de0, n - 2)
        L = ite(enough, de0, n - 1)
        prove('post.loop_ran_L_times', cmpop('==', j, L))
        prove('post.mem_is_loop_result', SB(p.mem.arr == arr))     # nothing after the loop touches memory
        ix1 = (ix0 + L) & 0xFFFF
        prove('post.IX', cmpop('==', regs[Z.IXl] + 256 * regs[Z.IXh], ix1))
        prove('post.DE', cmpop('==', regs[Z.E] + 256 * regs[Z.D], de0 - L))
        prove('post.H', cmpop('==', regs[Z.H], r0[Z.H]))
        tot = SV(XP(sv(L).t) ^ z3.Select(p.block.arr0, sv(L + 1).t), 0, 255)
        prove('post.A', cmpop('==', regs[Z.A], ite(enough, tot, r0[16])))
        prove('post.F', cmpop('==', regs[Z.F], ite(enough, ite(cmpop('==', tot, 1), 0x40, 0) + ite(cmpop('==', tot, 0), 1, 0), 0x40)))
        # (the memory postcondition is the invariant at j = L, assumed on this path for the Skolem constants k, a)

    eng = simvc.SimEngine(inline_ok=lambda f: False, unknown_ok=True)
    vc = FuncVC(rep, prop, LT.LoadTracer.fast_load, name, eng, pre=lambda p: simvc.wf_pre(p.regs0))
    vc.run(start, post, replay_fast_load)
    rep.notes.append('fast_load slice: statements from `memory = simulator.memory` to the end; dropped: the progress-message if-statement at line(s) %s of the function (calls write_line only)' % dropped)
    rep.assume('fast_load: block selection (while ... next_block) and 128K paged memory are outside the slice; the paged Memory.__setitem__ is proved equal to a flat write of the mapped bank under C08')
    return vc


def replay_fast_load(vals, kind):
    rnd = random.Random(str(sorted(vals.items())))
    regs = [vals.get('r%d' % i, 0) for i in range(30)]
    for attempt in range(200):
        n = max(2, min(vals.get('block_len', 2), 70000)) if attempt == 0 else rnd.choice((2, 3, 19, rnd.randrange(2, 400)))
        block = [rnd.randrange(256) for _ in range(n)]
        if attempt % 4 != 3:
            block[0] = regs[Z.A] & 255
        de = (regs[Z.E] & 255) + 256 * (regs[Z.D] & 255)
        if de <= n - 2:
            # steer the overall parity to the interesting values 0 / 1 / other
            tot = 0
            for b in block[:de + 1]:
                tot ^= b
            block[de + 1] = tot ^ (0, 1, 0x55)[attempt % 3]
        try:
            d = concrete_fast_load(regs, block)
        except Exception as ex:
            d = [('exception in the real function', repr(ex)[:120], 'none')]
        if d:
            return {'case': {'regs': regs, 'block': block if n < 600 else block[:600]}, 'diffs': d}
        regs = list(regs)
        regs[Z.D], regs[Z.E] = rnd.randrange(256) if rnd.random() < 0.3 else 0, rnd.randrange(256)
        regs[Z.IXh], regs[Z.IXl] = rnd.choice((0xFF, 0x3F, rnd.randrange(256))), rnd.choice((0xF0, 0xFF, rnd.randrange(256)))
        regs[Z.SP] = rnd.choice((0, 1, 2, 0x4000, 0x4001, rnd.randrange(65536)))
    return {'case': {'regs': regs}, 'diffs': []}


def spec_fast_load(regs, mem, block):
    """Int evaluation of the contract. Returns (regs, mem)."""
    r = list(regs)
    m = list(mem)
    n = len(block)
    ix = regs[Z.IXl] + 256 * regs[Z.IXh]
    de = regs[Z.E] + 256 * regs[Z.D]
    a = regs[Z.A]
    r[0], r[1], r[16], r[17] = regs[16], regs[17], regs[0], regs[1]
    r[Z.IFF] = 0
    sp = (regs[Z.SP] - 2) & 0xFFFF
    r[Z.SP] = sp
    if sp > 0x3FFF:
        m[sp] = 0x3F
    if (sp + 1) & 0xFFFF > 0x3FFF:
        m[(sp + 1) & 0xFFFF] = 0x05
    if a != block[0]:
        r[Z.F] = 0
        r[Z.H] = 0
    else:
        enough = de <= n - 2
        L = de if enough else n - 1
        for k in range(L):
            ad = (ix + k) & 0xFFFF
            if ad > 0x3FFF:
                m[ad] = block[1 + k]
        ix1 = (ix + L) & 0xFFFF
        de1 = de - L
        r[Z.IXh], r[Z.IXl] = ix1 >> 8, ix1 & 255
        r[Z.D], r[Z.E] = de1 >> 8, de1 & 255
        if enough:
            tot = 0
            for b in block[:L + 2]:
                tot ^= b
            r[Z.A] = tot
            r[Z.F] = (0x40 if tot == 1 else 0) + (1 if tot == 0 else 0)
        else:
            r[Z.F] = 0x40
    r[Z.PC] = 0x05E2
    return r, m


def concrete_fast_load(regs, block):
    import skoolkit.loadtracer as LT
    import skoolkit.loadtracer as mod

    class Sim:
        pass

    class Blk:
        pass
    regs = [x & 0xFFFF if i in (Z.SP, Z.PC) else (x if i == Z.T else x & 255) for i, x in enumerate(regs)]
    rnd = random.Random(len(block))
    mem0 = [rnd.randrange(256) for _ in range(65536)]
    sim = Sim()
    sim.registers = list(regs)
    sim.memory = list(mem0)
    b = Blk()
    b.data = list(block)
    b.fast_load = True
    t = object.__new__(LT.LoadTracer)
    t.block_data_index = 1
    t.state = [0, 0, 0, 0, 0, 0, 0, 0, 0, 0]
    t.max_index = 0
    t.blocks = [b]
    t.block_index = 0

    class Txt:
        def get_text(self, x):
            return ''
    t.text = Txt()
    old = mod.write_line
    mod.write_line = lambda *a: None
    try:
        ret = t.fast_load(sim)
    finally:
        mod.write_line = old
    er, em = spec_fast_load(regs, mem0, block)
    d = [(Z.REGNAMES[i], sim.registers[i], er[i]) for i in range(30) if sim.registers[i] != er[i]]
    if ret is not True:
        d.append(('return', ret, True))
    bad = [a for a in range(65536) if sim.memory[a] != em[a]]
    if bad:
        d.append(('memory[%d]' % bad[0], sim.memory[bad[0]], em[bad[0]]))
    return d


def crosscheck_fast_load(rep, prop, n=150):
    """Standing CPython cross-check of the contract itself: the real fast_load against the int evaluation
    of the contract on boundary-biased random states (guards against an unsound VC engine or encoding)."""
    rnd = random.Random(20260926)
    for t in range(n):
        regs = [rnd.randrange(256) for _ in range(30)]
        regs[Z.SP] = rnd.choice((0, 1, 2, 0x3FFF, 0x4000, 0x4001, 0x4002, rnd.randrange(65536)))
        regs[Z.PC] = rnd.randrange(65536)
        regs[Z.T] = rnd.randrange(10 ** 6)
        regs[13] = 0
        m = rnd.choice((2, 3, 19, rnd.randrange(2, 300)))
        block = [rnd.randrange(256) for _ in range(m)]
        if rnd.random() < 0.75:
            block[0] = regs[Z.A]
        if rnd.random() < 0.6:
            regs[Z.D] = 0
            regs[Z.E] = rnd.randrange(0, min(255, m + 3))
        if rnd.random() < 0.3:
            regs[Z.IXh], regs[Z.IXl] = rnd.choice((0xFF, 0x3F)), rnd.randrange(200, 256)
        de = regs[Z.E] + 256 * regs[Z.D]
        if de <= m - 2 and rnd.random() < 0.6:
            tot = 0
            for b in block[:de + 1]:
                tot ^= b
            block[de + 1] = tot ^ rnd.choice((0, 1, 0x55))
        try:
            d = concrete_fast_load(regs, block)
        except Exception as ex:
            d = [('exception in the real function', repr(ex)[:120], 'none')]
        if d:
            rep.violation('%s/skoolkit.loadtracer.LoadTracer.fast_load/crosscheck' % prop,
                          'real fast_load disagrees with the contract on a concrete state: %s' % (d[:3],),
                          {'case': {'regs': regs, 'block': block}, 'observed_vs_expected': d})
            break
    rep.extra['crosscheck_samples'] = rep.extra.get('crosscheck_samples', 0) + n
