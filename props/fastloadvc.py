"""LoadTracer.fast_load (skoolkit's shortcut for the ROM's LD-BYTES) under contract.

The verified text is a mechanical slice of the real function, re-read on every
run: every statement from `memory = simulator.memory` to the end, except the
progress-message `if` (it only calls write_line / get_text and assigns `name`,
which nothing else reads).  The block-selection preamble (while ... next_block)
is a second slice with its own contract (check_block_selection, end of file).

Contract (48K flat memory; block = data_block.data of any length n >= 2,
ix/de/a/SP taken from the registers):

  * AF and AF' are exchanged, IFF := 0, SP := SP - 2, 0x053F pushed (ROM guarded),
    PC := 0x05E2 - whatever else happens;
  * flag byte mismatch (A != block[0]): F = 0, H = 0, nothing loaded;
  * otherwise L = min(DE, n - 1) bytes are consumed: for every k < L the cell
    (IX + k) mod 65536 holds block[1 + k] if it is RAM (> 0x3FFF); every cell
    outside those L addresses holds what it held after the push;
    IX' = IX + L (mod 65536), DE' = DE - L; if DE <= n - 2 (the block is long
    enough) A' = XOR of block[0 .. L + 1] and F = 0x40*(A' == 1) + (A' == 0),
    else F = 0x40 (edge detection failed: ran out of tape);
  * no cell <= 0x3FFF is ever written (rom_guard obligations at the stores).

The byte loop `while length:` is treated with an inductive invariant over the
number j of bytes done; the memory part of the invariant is stated for one
arbitrary offset k and one arbitrary address a (Skolem constants chosen before
the loop), which is equivalent to the universally quantified statement because
each preservation step needs the hypothesis only at the same k and a.  The
running parity is the uninterpreted prefix-XOR function XP with its two
defining equations instantiated at j.
"""
import ast
import random

import z3

from props import simvc
from props.funcvc import FuncVC
from pyvc import poly
from pyvc.poly import SV, SB, ite, and_, or_, not_, sv, cmpop, truth
from pyvc.engine import ObjModel, SymList, SymMem, func_ast, PathEnd, UNK, CallModel
from contracts import z80spec as Z


def fast_load_slice():
    import skoolkit.loadtracer as LT
    node, _ = func_ast(LT.LoadTracer.fast_load)
    body = node.body
    start = None
    for i, s in enumerate(body):
        if isinstance(s, ast.Assign) and ast.unparse(s).startswith('memory = simulator.memory'):
            start = i
    if start is None:
        raise LookupError('fast_load: `memory = simulator.memory` not found')
    out = []
    dropped = []
    for s in body[start:]:
        calls = [n for n in ast.walk(s) if isinstance(n, ast.Call) and isinstance(n.func, ast.Name) and n.func.id == 'write_line']
        if isinstance(s, ast.If) and calls:
            stores = set(n.id for n in ast.walk(s) if isinstance(n, ast.Name) and isinstance(n.ctx, ast.Store))
            if stores - {'name'}:
                raise LookupError('fast_load: the message statement now assigns %s' % sorted(stores - {'name'}))
            dropped.append(s.lineno)
            continue
        out.append(s)
    whiles = [n for s in out for n in ast.walk(s) if isinstance(n, ast.While)]
    if len(whiles) != 1:
        raise LookupError('fast_load: expected exactly one while loop in the slice')
    return out, whiles[0], dropped


def check_fast_load(rep, prop):
    import skoolkit.loadtracer as LT
    W = poly.W
    stmts, loop_node, dropped = fast_load_slice()
    name = 'skoolkit.loadtracer.LoadTracer.fast_load[from `memory = simulator.memory`]'
    q = LT.LoadTracer.fast_load.__qualname__
    XP = z3.Function('XP', z3.BitVecSort(W), z3.BitVecSort(W))      # XP(j) = block[0] ^ ... ^ block[j]

    def start(eng):
        p = eng.path
        regs = simvc.initial_regs()
        p.regs0 = list(regs)
        p.reglist = SymList(regs, 'registers')
        p.mem = SymMem('mem')
        n = SV(z3.BitVec('block_len', W), 2, 1 << 20)
        p.facts.append(z3.And(n.t >= 2, n.t <= (1 << 20)))
        p.n = n
        p.block = SymMem('block', size=n)
        sim = ObjModel(None, name='simulator')
        sim.attrs.update({'registers': p.reglist, 'memory': p.mem})
        blk = ObjModel(None, name='data_block')
        blk.attrs.update({'data': p.block, 'fast_load': True})
        me = ObjModel(None, name='tracer', cls=LT.LoadTracer)
        p.state = SymList([UNK] * 10, 'state')
        me.attrs.update({'state': p.state, 'text': UNK})
        # Skolem constants of the memory invariant
        p.k = SV(z3.BitVec('k_any', W), 0, 65535)
        p.a = SV(z3.BitVec('a_any', W), 0, 65535)
        p.facts.append(z3.And(p.k.t >= 0, p.k.t <= 65535, p.a.t >= 0, p.a.t <= 65535))
        r0 = p.regs0
        ix0 = r0[Z.IXl] + 256 * r0[Z.IXh]
        p.ix0 = ix0
        p.de0 = r0[Z.E] + 256 * r0[Z.D]

        def blk_at(i):
            t = z3.Select(p.block.arr0, sv(i).t)
            return SV(t, 0, 255)

        def loop(e, node_):
            fr = e.frames[-1]
            L0 = fr.loc['length']
            p.L0 = L0
            p.mem_pushed = p.mem.arr
            # --- establish (j = 0)
            e.oblige('inv.establish', and_(cmpop('==', fr.loc['i'], 1), cmpop('==', fr.loc['addr'], ix0), cmpop('==', fr.loc['parity'], blk_at(0)),
                                          cmpop('>=', L0, 0), cmpop('<=', L0, 65535), cmpop('<=', L0, p.n - 1)), node_)
            # --- havoc: the state after j bytes
            j = e.fresh('j', 0, 65535)
            e.assume(cmpop('<=', j, L0))
            arr = z3.Array('mem_j', z3.BitVecSort(W), z3.BitVecSort(W))
            p.mem.arr = arr
            xpj = SV(XP(j.t), 0, 255)
            e.path.facts.append(z3.And(xpj.t >= 0, xpj.t <= 255))
            e.path.facts.append(z3.Implies(j.t == 0, xpj.t == blk_at(0).t))
            fr.loc.update({'i': j + 1, 'addr': (ix0 + j) & 0xFFFF, 'parity': xpj, 'length': L0 - j})

            def mem_inv(arr_, jj):
                ak = (ix0 + p.k) & 0xFFFF
                loaded = or_(not_(and_(cmpop('<', p.k, jj), cmpop('>', ak, 0x3FFF))), SB(z3.Select(arr_, ak.t) == blk_at(p.k + 1).t))
                untouched = or_(cmpop('<', (p.a - ix0) & 0xFFFF, jj), SB(z3.Select(arr_, p.a.t) == z3.Select(p.mem_pushed, p.a.t)))
                # cells of the range that are ROM keep their contents as well
                rom = or_(cmpop('>', p.a, 0x3FFF), SB(z3.Select(arr_, p.a.t) == z3.Select(p.mem_pushed, p.a.t)))
                return and_(loaded, untouched, rom)
            e.assume(mem_inv(arr, j))
            e.fresh_n += 1
            more = SB(z3.Bool('iterate!%d' % e.fresh_n))
            if e.decide(more):
                e.assume(truth(e.ev_cond(node_.test)))
                e.exec_block(node_.body)
                j1 = j + 1
                xp1 = SV(XP(j1.t), 0, 255)
                e.path.facts.append(xp1.t == (xpj.t ^ blk_at(j1).t))      # defining equation of XP at j + 1
                e.oblige('inv.preserve.i', cmpop('==', fr.loc['i'], j1 + 1), node_)
                e.oblige('inv.preserve.addr', cmpop('==', fr.loc['addr'], (ix0 + j1) & 0xFFFF), node_)
                e.oblige('inv.preserve.parity', cmpop('==', fr.loc['parity'], xp1), node_)
                e.oblige('inv.preserve.length', cmpop('==', fr.loc['length'], L0 - j1), node_)
                e.oblige('inv.preserve.j_le_L', cmpop('<=', j1, L0), node_)
                e.oblige('inv.preserve.mem', mem_inv(p.mem.arr, j1), node_)
                raise PathEnd()
            # --- exit
            e.assume(not_(truth(e.ev_cond(node_.test))))
            p.ghost = (j, arr, xpj)
        all_loops = sorted([n_ for n_ in ast.walk(func_ast(LT.LoadTracer.fast_load)[0]) if isinstance(n_, (ast.While, ast.For))], key=lambda n_: (n_.lineno, n_.col_offset))
        eng.loop_invariants = {(q, all_loops.index(loop_node)): loop}
        eng.call_models[id(LT.write_line)] = lambda e, a, k, n_: None
        p.locs = {'self': me, 'simulator': sim, 'registers': p.reglist, 'data_block': blk}
        p.ret = eng.run_stmts(LT.LoadTracer.fast_load, stmts, p.locs)

    def post(p, prove):
        r0 = p.regs0
        regs = p.reglist.items
        n = p.n
        ix0, de0 = p.ix0, p.de0
        b0 = SV(z3.Select(p.block.arr0, z3.BitVecVal(0, W)), 0, 255)
        prove('post.returns_true', p.ret is True)
        prove('post.PC', cmpop('==', regs[Z.PC], 0x05E2))
        prove('post.IFF', cmpop('==', regs[Z.IFF], 0))
        prove('post.SP', cmpop('==', regs[Z.SP], (r0[Z.SP] - 2) & 0xFFFF))
        for i_alt, i_main in ((16, 0), (17, 1)):
            prove('post.exx_af.%d' % i_alt, cmpop('==', regs[i_alt], r0[i_main]))
        for i in range(30):
            if i in (Z.A, Z.F, Z.H, Z.IXh, Z.IXl, Z.D, Z.E, Z.SP, Z.PC, Z.IFF, 16, 17):
                continue
            prove('frame.' + Z.REGNAMES[i], True if regs[i] is r0[i] else cmpop('==', regs[i], r0[i]))
        # the push
        sp1 = (r0[Z.SP] - 2) & 0xFFFF
        sp2 = (r0[Z.SP] - 1) & 0xFFFF
        pushed = p.mem.arr0
        pushed = z3.If(poly.bterm(cmpop('>', sp1, 0x3FFF)), z3.Store(pushed, sv(sp1).t, z3.BitVecVal(0x3F, W)), pushed)
        pushed = z3.If(poly.bterm(cmpop('>', sp2, 0x3FFF)), z3.Store(pushed, sv(sp2).t, z3.BitVecVal(0x05, W)), pushed)
        a_in = r0[16]       # after EX AF,AF' the flag byte is compared with the old A... the code reads `a` before the exchange
        a_in = r0[Z.A]
        skipped = cmpop('!=', a_in, b0)
        if not hasattr(p, 'ghost'):
            # flag mismatch path (no loop)
            prove('post.skipped.path', skipped)
            prove('post.skipped.F', cmpop('==', regs[Z.F], 0))
            prove('post.skipped.H', cmpop('==', regs[Z.H], 0))
            prove('post.skipped.A', cmpop('==', regs[Z.A], r0[16]))
            for i in (Z.IXh, Z.IXl, Z.D, Z.E):
                prove('post.skipped.frame.' + Z.REGNAMES[i], cmpop('==', regs[i], r0[i]))
            prove('post.skipped.mem', SB(p.mem.arr == pushed))
            return
        j, arr, xpj = p.ghost
        prove('post.loaded.path', not_(skipped))
        prove('post.mem_pushed_first', SB(p.mem_pushed == pushed))
        enough = cmpop('<=', de0, n - 2)
        L = ite(enough, de0, n - 1)
        prove('post.loop_ran_L_times', cmpop('==', j, L))
        prove('post.mem_is_loop_result', SB(p.mem.arr == arr))     # nothing after the loop touches memory
        ix1 = (ix0 + L) & 0xFFFF
        prove('post.IX', cmpop('==', regs[Z.IXl] + 256 * regs[Z.IXh], ix1))
        prove('post.DE', cmpop('==', regs[Z.E] + 256 * regs[Z.D], de0 - L))
        prove('post.H', cmpop('==', regs[Z.H], r0[Z.H]))
        tot = SV(XP(sv(L).t) ^ z3.Select(p.block.arr0, sv(L + 1).t), 0, 255)
        prove('post.A', cmpop('==', regs[Z.A], ite(enough, tot, r0[16])))
        prove('post.F', cmpop('==', regs[Z.F], ite(enough, ite(cmpop('==', tot, 1), 0x40, 0) + ite(cmpop('==', tot, 0), 1, 0), 0x40)))
        # (the memory postcondition is the invariant at j = L, assumed on this path for the Skolem constants k, a)

    eng = simvc.SimEngine(inline_ok=lambda f: False, unknown_ok=True)
    vc = FuncVC(rep, prop, LT.LoadTracer.fast_load, name, eng, pre=lambda p: simvc.wf_pre(p.regs0))
    vc.run(start, post, replay_fast_load)
    rep.notes.append('fast_load slice: statements from `memory = simulator.memory` to the end; dropped: the progress-message if-statement at line(s) %s of the function (calls write_line only)' % dropped)
    rep.assume('fast_load: 128K paged memory is outside the slice (the paged Memory.__setitem__ is proved equal to a flat write of the mapped bank under C08); the block-selection preamble is under its own contract (check_block_selection)')
    return vc


def replay_fast_load(vals, kind):
    rnd = random.Random(str(sorted(vals.items())))
    regs = [vals.get('r%d' % i, 0) for i in range(30)]
    regs[Z.F] |= 1      # the slice is reached only in LOAD mode (carry set on entry): see check_block_selection
    for attempt in range(200):
        n = max(2, min(vals.get('block_len', 2), 70000)) if attempt == 0 else rnd.choice((2, 3, 19, rnd.randrange(2, 400)))
        block = [rnd.randrange(256) for _ in range(n)]
        if attempt % 4 != 3:
            block[0] = regs[Z.A] & 255
        de = (regs[Z.E] & 255) + 256 * (regs[Z.D] & 255)
        if de <= n - 2:
            # steer the overall parity to the interesting values 0 / 1 / other
            tot = 0
            for b in block[:de + 1]:
                tot ^= b
            block[de + 1] = tot ^ (0, 1, 0x55)[attempt % 3]
        try:
            d = concrete_fast_load(regs, block)
        except Exception as ex:
            d = [('exception in the real function', repr(ex)[:120], 'none')]
        if d:
            return {'case': {'regs': regs, 'block': block if n < 600 else block[:600]}, 'diffs': d}
        regs = list(regs)
        regs[Z.D], regs[Z.E] = rnd.randrange(256) if rnd.random() < 0.3 else 0, rnd.randrange(256)
        regs[Z.IXh], regs[Z.IXl] = rnd.choice((0xFF, 0x3F, rnd.randrange(256))), rnd.choice((0xF0, 0xFF, rnd.randrange(256)))
        regs[Z.SP] = rnd.choice((0, 1, 2, 0x4000, 0x4001, rnd.randrange(65536)))
    return {'case': {'regs': regs}, 'diffs': []}


def spec_fast_load(regs, mem, block):
    """Int evaluation of the contract. Returns (regs, mem)."""
    r = list(regs)
    m = list(mem)
    n = len(block)
    ix = regs[Z.IXl] + 256 * regs[Z.IXh]
    de = regs[Z.E] + 256 * regs[Z.D]
    a = regs[Z.A]
    r[0], r[1], r[16], r[17] = regs[16], regs[17], regs[0], regs[1]
    r[Z.IFF] = 0
    sp = (regs[Z.SP] - 2) & 0xFFFF
    r[Z.SP] = sp
    if sp > 0x3FFF:
        m[sp] = 0x3F
    if (sp + 1) & 0xFFFF > 0x3FFF:
        m[(sp + 1) & 0xFFFF] = 0x05
    if a != block[0]:
        r[Z.F] = 0
        r[Z.H] = 0
    else:
        enough = de <= n - 2
        L = de if enough else n - 1
        for k in range(L):
            ad = (ix + k) & 0xFFFF
            if ad > 0x3FFF:
                m[ad] = block[1 + k]
        ix1 = (ix + L) & 0xFFFF
        de1 = de - L
        r[Z.IXh], r[Z.IXl] = ix1 >> 8, ix1 & 255
        r[Z.D], r[Z.E] = de1 >> 8, de1 & 255
        if enough:
            tot = 0
            for b in block[:L + 2]:
                tot ^= b
            r[Z.A] = tot
            r[Z.F] = (0x40 if tot == 1 else 0) + (1 if tot == 0 else 0)
        else:
            r[Z.F] = 0x40
    r[Z.PC] = 0x05E2
    return r, m


def concrete_fast_load(regs, block):
    import skoolkit.loadtracer as LT
    import skoolkit.loadtracer as mod

    class Sim:
        pass

    class Blk:
        pass
    regs = [x & 0xFFFF if i in (Z.SP, Z.PC) else (x if i == Z.T else x & 255) for i, x in enumerate(regs)]
    rnd = random.Random(len(block))
    mem0 = [rnd.randrange(256) for _ in range(65536)]
    sim = Sim()
    sim.registers = list(regs)
    sim.memory = list(mem0)
    b = Blk()
    b.data = list(block)
    b.fast_load = True
    t = object.__new__(LT.LoadTracer)
    t.block_data_index = 1
    t.state = [0, 0, 0, 0, 0, 0, 0, 0, 0, 0]
    t.max_index = 0
    t.blocks = [b]
    t.block_index = 0

    class Txt:
        def get_text(self, x):
            return ''
    t.text = Txt()
    old = mod.write_line
    mod.write_line = lambda *a: None
    try:
        ret = t.fast_load(sim)
    finally:
        mod.write_line = old
    if regs[Z.F] & 1:
        er, em = spec_fast_load(regs, mem0, block)
        exp_ret = True
    else:
        # VERIFY (carry reset on entry): left to the simulated ROM - nothing changes, False is returned
        er, em, exp_ret = list(regs), list(mem0), False
    d = [(Z.REGNAMES[i], sim.registers[i], er[i]) for i in range(30) if sim.registers[i] != er[i]]
    if ret is not exp_ret:
        d.append(('return', ret, exp_ret))
    bad = [a for a in range(65536) if sim.memory[a] != em[a]]
    if bad:
        d.append(('memory[%d]' % bad[0], sim.memory[bad[0]], em[bad[0]]))
    return d


def crosscheck_fast_load(rep, prop, n=150):
    """Standing CPython cross-check of the contract itself: the real fast_load against the int evaluation
    of the contract on boundary-biased random states (guards against an unsound VC engine or encoding)."""
    rnd = random.Random(20260926)
    for t in range(n):
        regs = [rnd.randrange(256) for _ in range(30)]
        regs[Z.SP] = rnd.choice((0, 1, 2, 0x3FFF, 0x4000, 0x4001, 0x4002, rnd.randrange(65536)))
        regs[Z.PC] = rnd.randrange(65536)
        regs[Z.T] = rnd.randrange(10 ** 6)
        regs[13] = 0
        m = rnd.choice((2, 3, 19, rnd.randrange(2, 300)))
        block = [rnd.randrange(256) for _ in range(m)]
        if rnd.random() < 0.75:
            block[0] = regs[Z.A]
        if rnd.random() < 0.6:
            regs[Z.D] = 0
            regs[Z.E] = rnd.randrange(0, min(255, m + 3))
        if rnd.random() < 0.3:
            regs[Z.IXh], regs[Z.IXl] = rnd.choice((0xFF, 0x3F)), rnd.randrange(200, 256)
        de = regs[Z.E] + 256 * regs[Z.D]
        if de <= m - 2 and rnd.random() < 0.6:
            tot = 0
            for b in block[:de + 1]:
                tot ^= b
            block[de + 1] = tot ^ rnd.choice((0, 1, 0x55))
        try:
            d = concrete_fast_load(regs, block)
        except Exception as ex:
            d = [('exception in the real function', repr(ex)[:120], 'none')]
        if d:
            rep.violation('%s/skoolkit.loadtracer.LoadTracer.fast_load/crosscheck' % prop,
                          'real fast_load disagrees with the contract on a concrete state: %s' % (d[:3],),
                          {'case': {'regs': regs, 'block': block}, 'observed_vs_expected': d})
            break
    rep.extra['crosscheck_samples'] = rep.extra.get('crosscheck_samples', 0) + n


# ---------------------------------------------------------------------------------------------------------------------
# Block selection: the preamble of fast_load (everything before `memory = simulator.memory`) and next_block
#
# Ghost model of the tape: blocks[i] has start(i) (index of the first edge of its data bits), end(i) (index of its last
# edge), fast_load(i); the tape position is state[1] (index of the next edge), max_index the index of the last edge.
# Class invariant J (established by __init__, preserved by next_block): block_index < len(blocks) implies
# block_data_index == start(block_index) and state[3] == end(block_index).
#
# Contract, from what LD-BYTES can do at the tape position p = state[1]: it needs the pilot tone and the sync pulses
# of a block, so a block can be loaded only if its data has not begun yet: start(b) > p.  Hence
#   * a block is skipped only if the tape has reached its data (start <= p) and is not at its last edge (p < max_index);
#   * when the loop ends, the tape is at its last edge (p >= max_index), or the selected block has start > p, or no
#     block is left (block_index == len(blocks): the function raises "unexpected end of tape");
#   * the loop terminates: a block is skipped only while one remains (variant len(blocks) - block_index);
#   * skipping goes to the next block in tape order and puts the tape on the edge after the skipped block's last edge
#     (next_block: block_index + 1, state[1] = old state[3] + 1, J again) - or stops the tape after the last block;
#   * the block handed to the loading code is blocks[block_index]; the loading code is reached iff the block is
#     fast-loadable and the routine was entered in LOAD mode (carry set; with carry reset LD-BYTES verifies and stores
#     nothing, which is left to the simulated ROM: F25); otherwise False is returned, with no register or memory write.
class _Blocks:
    def __init__(self, n, W):
        self.n = n
        self.startF = z3.Function('blk_start', z3.BitVecSort(W), z3.BitVecSort(W))
        self.endF = z3.Function('blk_end', z3.BitVecSort(W), z3.BitVecSort(W))
        self.flF = z3.Function('blk_fast_load', z3.BitVecSort(W), z3.BoolSort())
        self.made = []

    def block(self, eng, idx):
        i = sv(idx)
        b = ObjModel(None, name='block')
        st = SV(self.startF(i.t), 0, 1 << 24)
        en = SV(self.endF(i.t), 0, 1 << 24)
        eng.path.facts.append(z3.And(st.t >= 0, st.t <= (1 << 24), en.t >= 0, en.t <= (1 << 24), st.t <= en.t))
        b.attrs.update({'start': st, 'end': en, 'fast_load': SB(self.flF(i.t)), 'keys': UNK, 'data': UNK})
        b.index = idx
        self.made.append(b)
        return b


def _selection_engine():
    class SelEngine(simvc.SimEngine):
        def getitem(self, base, idx, node):
            if isinstance(base, _Blocks):
                self.oblige('block_index_in_range', and_(cmpop('>=', idx, 0), cmpop('<', idx, base.n)), node)
                return base.block(self, idx)
            return super().getitem(base, idx, node)

        def sym_builtin(self, f, name, args, kwargs, node):
            if name == 'len' and len(args) == 1 and isinstance(args[0], _Blocks):
                return args[0].n
            return super().sym_builtin(f, name, args, kwargs, node)

        def call(self, f, args, kwargs, node):
            if f is len and len(args) == 1 and isinstance(args[0], _Blocks):
                return args[0].n
            return super().call(f, args, kwargs, node)
    return SelEngine(inline_ok=lambda f: False, unknown_ok=True)


def _tracer_model(eng, LT, W):
    p = eng.path
    n = SV(z3.BitVec('n_blocks', W), 1, 1 << 16)
    bi = SV(z3.BitVec('block_index', W), 0, 1 << 16)
    bdi = SV(z3.BitVec('block_data_index', W), 0, 1 << 24)
    pos = SV(z3.BitVec('tape_index', W), 0, 1 << 24)
    end3 = SV(z3.BitVec('block_end_index', W), 0, 1 << 24)
    mx = SV(z3.BitVec('max_index', W), 0, 1 << 24)
    for x in (n, bi, bdi, pos, end3, mx):
        p.facts.append(z3.And(x.t >= x.lo, x.t <= x.hi))
    p.n, p.bi0, p.bdi0, p.pos0, p.end0, p.mx = n, bi, bdi, pos, end3, mx
    p.blocks = _Blocks(n, W)
    p.state = SymList([UNK, pos, SV(z3.BitVec('end_of_tape', W), 0, 1 << 20), end3, UNK, UNK, UNK, UNK, UNK, UNK], 'state')
    me = ObjModel(None, name='tracer', cls=LT.LoadTracer)
    # the tape as get_edges builds it: edges[0..max_index]; blocks in tape order, each inside the edge list
    B = p.blocks
    nxt = (bi + 1).t
    # (a pilotless block that follows at once has start == the previous block's end; when a block follows, at least one
    # edge follows the current block's last edge - stated as an assumption in the evidence)
    p.facts.append(z3.And(B.endF(bi.t) <= mx.t, B.endF(nxt) <= mx.t, B.startF(nxt) <= B.endF(nxt), B.endF(bi.t) <= B.startF(nxt),
                          B.endF(bi.t) + 1 <= mx.t, B.endF(bi.t) >= 0, B.startF(nxt) >= 0))
    p.edges = SymMem('edges', size=mx + 1)
    me.attrs.update({'state': p.state, 'blocks': p.blocks, 'block_index': bi, 'block_data_index': bdi, 'max_index': mx, 'edges': p.edges,
                     'pause': SB(z3.Bool('pause')), 'keys': UNK})
    p.me = me
    return me


def _J(p, bi, bdi, end3):
    """The class invariant at (block_index, block_data_index, state[3])."""
    B = p.blocks
    return or_(cmpop('>=', bi, p.n), and_(SB(sv(bdi).t == B.startF(sv(bi).t)), SB(sv(end3).t == B.endF(sv(bi).t))))


def check_block_selection(rep, prop):
    import skoolkit.loadtracer as LT
    W = poly.W
    fn = LT.LoadTracer.fast_load
    node, _ = func_ast(fn)
    cut = [i for i, s_ in enumerate(node.body) if isinstance(s_, ast.Assign) and ast.unparse(s_).startswith('memory = simulator.memory')]
    if not cut:
        raise LookupError('fast_load: `memory = simulator.memory` not found')
    pre_stmts = node.body[:cut[0]]
    loops = [n_ for s_ in pre_stmts for n_ in ast.walk(s_) if isinstance(n_, (ast.While, ast.For))]
    if len(loops) != 1 or not isinstance(loops[0], ast.While):
        raise LookupError('fast_load: expected exactly one while loop before `memory = simulator.memory`')
    all_loops = sorted([n_ for n_ in ast.walk(node) if isinstance(n_, (ast.While, ast.For))], key=lambda n_: (n_.lineno, n_.col_offset))
    q = fn.__qualname__
    name = 'skoolkit.loadtracer.LoadTracer.fast_load[block selection: up to `memory = simulator.memory`]'

    def start(eng):
        p = eng.path
        me = _tracer_model(eng, LT, W)
        eng.assume(_J(p, p.bi0, p.bdi0, p.end0))
        p.skips = 0

        def next_block(e, a, k, n_):
            # used through its contract (proved below): an arbitrary later block state satisfying J
            p.skips += 1
            bi2 = me.attrs['block_index'] + 1
            me.attrs['block_index'] = ite(cmpop('>=', bi2, p.n), p.n, bi2)
            return None
        me.attrs['next_block'] = CallModel(next_block, 'next_block')
        regs = SymList(simvc.initial_regs(), 'registers')
        p.regs = regs
        p.regs0 = list(regs.items)
        sim = ObjModel(None, name='simulator')
        p.mem = SymMem('mem')
        sim.attrs.update({'registers': regs, 'memory': p.mem})

        def sel_loop(e, node_):
            # arbitrary loop-head state: any (block_index, block_data_index, tape position, state[3]) with J
            bi = e.fresh('block_index_k', 0, 1 << 16)
            bdi = e.fresh('block_data_index_k', 0, 1 << 24)
            pos = e.fresh('tape_index_k', 0, 1 << 24)
            end3 = e.fresh('block_end_index_k', 0, 1 << 24)
            e.oblige('inv.establish', _J(p, p.bi0, p.bdi0, p.end0), node_)
            e.assume(_J(p, bi, bdi, end3))
            me.attrs.update({'block_index': bi, 'block_data_index': bdi})
            p.state.items[1] = pos
            p.state.items[3] = end3
            p.head = (bi, bdi, pos, end3)
            test = e.as_cond(e.ev_cond(node_.test))
            started = cmpop('<=', bdi, pos)
            not_last = cmpop('<', pos, p.mx)
            if e.decide(test):
                e.oblige('skip_only_if_the_tape_reached_the_block_data', started, node_)
                e.oblige('skip_only_before_the_last_edge', not_last, node_)
                # termination: the variant len(blocks) - block_index is positive here and next_block decreases it
                e.oblige('progress.a_block_remains_to_skip_to', cmpop('<', bi, p.n), node_)
                k0 = p.skips
                e.exec_block(node_.body)
                e.oblige('skip_is_one_next_block_call', p.skips == k0 + 1, node_)
                raise PathEnd()
            e.oblige('selected_block_data_not_begun_or_tape_at_last_edge_or_no_block_left', or_(not_(started), not_(not_last), cmpop('>=', bi, p.n)), node_)
        eng.loop_invariants = {(q, all_loops.index(loops[0])): sel_loop}
        p.locs = {'self': me, 'simulator': sim}
        p.ret = eng.run_stmts(fn, pre_stmts, p.locs)
        p.fell_through = p.ret is None

    def post(p, prove):
        if not hasattr(p, 'head') or not hasattr(p, 'fell_through'):
            return
        bi = p.head[0]
        db = p.locs.get('data_block')
        if p.fell_through:
            prove('post.selected_block_is_blocks_at_block_index', isinstance(db, ObjModel) and getattr(db, 'index', None) is bi)
            if isinstance(db, ObjModel):
                prove('post.falls_through_only_for_a_fast_loadable_block', db.attrs['fast_load'])
            # LD-BYTES loads only when it is entered with the carry flag set; with carry reset it VERIFIES (compares the
            # tape with memory and stores nothing): the loading shortcut must leave that case to the simulated ROM
            prove('post.falls_through_only_in_load_mode', cmpop('==', p.regs0[Z.F] & 1, 1))
        else:
            prove('post.returns_False', p.ret is False)
            if isinstance(db, ObjModel):
                prove('post.returns_False_only_for_a_block_that_is_not_fast_loadable_or_in_verify_mode', or_(not_(db.attrs['fast_load']), cmpop('==', p.regs0[Z.F] & 1, 0)))
        prove('frame.registers_untouched', all(a is b for a, b in zip(p.regs.items, p.regs0)))
        prove('frame.memory_untouched', p.mem.arr is p.mem.arr0)
    eng = _selection_engine()
    FuncVC(rep, prop, fn, name, eng).run(start, post, replay_block_selection)

    # next_block against its contract
    nb = LT.LoadTracer.next_block
    name2 = 'skoolkit.loadtracer.LoadTracer.next_block'

    def start2(eng):
        p = eng.path
        me = _tracer_model(eng, LT, W)
        eng.assume(_J(p, p.bi0, p.bdi0, p.end0))
        eng.assume(cmpop('<', p.bi0, p.n))
        p.stopped = 0

        def stop_tape(e, a, k, n_):
            p.stopped += 1
            return None
        me.attrs['stop_tape'] = CallModel(stop_tape, 'stop_tape')
        eng.call_function(nb, [me, UNK])

    def post2(p, prove):
        me = p.me
        bi1 = me.attrs['block_index']
        prove('post.next_block_in_tape_order', cmpop('==', bi1, p.bi0 + 1))
        last = cmpop('>=', p.bi0 + 1, p.n)
        if p.stopped:
            prove('post.tape_stopped_only_after_the_last_block', last)
            prove('post.tape_stopped_once', p.stopped == 1)
            return
        prove('post.tape_not_stopped_before_the_last_block', not_(last))
        prove('post.tape_on_the_edge_after_the_skipped_block', cmpop('==', p.state.items[1], p.end0 + 1))
        prove('post.J', _J(p, bi1, me.attrs['block_data_index'], p.state.items[3]))
        prove('post.next_edge_time', SB(sv(p.state.items[0]).t == z3.Select(p.edges.arr0, sv(p.end0 + 1).t)) if isinstance(p.state.items[0], SV) else False)
    eng2 = _selection_engine()
    FuncVC(rep, prop, nb, name2, eng2).run(start2, post2, replay_block_selection)
    check_selection_state_frame(rep, prop)
    rep.assume('block selection: the C tape loop (c/csimulator.c) reads tracer_state[3] and never writes it (text search of the C source; the C side is otherwise covered by the bounded option differential only)')
    rep.assume('block selection: get_edges gives end(b-1) <= start(b) <= end(b) <= max_index (the blocks lie one after the other inside the edge list; C11 proves the index ranges ordered) and, when a block follows, at least one edge after the current block\'s last edge (a following block with data has edges) - the latter observed in the bounded runs only')


def check_selection_state_frame(rep, prop):
    """J is established by __init__ and only __init__, next_block and stop_tape write the attributes it talks about
    (AST of the LoadTracer class, re-read every run): block_index, block_data_index, max_index, blocks, and state[3]."""
    import inspect
    import textwrap
    import skoolkit.loadtracer as LT
    cls = ast.parse(textwrap.dedent(inspect.getsource(LT.LoadTracer))).body[0]
    fname = 'skoolkit.loadtracer.LoadTracer[block selection state]'
    results = []
    init = [n for n in cls.body if isinstance(n, ast.FunctionDef) and n.name == '__init__'][0]
    assigns = {}
    for n in ast.walk(init):
        if isinstance(n, ast.Assign) and len(n.targets) == 1 and isinstance(n.targets[0], ast.Attribute) and isinstance(n.targets[0].value, ast.Name) and n.targets[0].value.id == 'self':
            assigns.setdefault(n.targets[0].attr, []).append(n.value)
    def single(attr, text):
        v = assigns.get(attr, [])
        # (the state list may be re-wrapped as an array of the same values for the C simulator)
        return len(v) >= 1 and ast.unparse(v[0]).replace(' ', '') == text
    results.append(('init.block_index_is_0', len(assigns.get('block_index', [])) == 1 and single('block_index', '0')))
    results.append(('init.block_data_index_is_start_of_block_0', len(assigns.get('block_data_index', [])) == 1 and single('block_data_index', 'self.blocks[0].start')))
    results.append(('init.max_index_is_the_last_edge_index', len(assigns.get('max_index', [])) == 1 and single('max_index', 'len(self.edges)-1')))
    st = assigns.get('state', [])
    ok_state = bool(st) and isinstance(st[0], ast.List) and len(st[0].elts) == 10 and ast.unparse(st[0].elts[3]).replace(' ', '') == 'self.blocks[0].end' and ast.unparse(st[0].elts[1]) == '0'
    ok_state = ok_state and all(ast.unparse(v).replace(' ', '') in ("array.array('Q',self.state)",) for v in st[1:])
    results.append(('init.state_1_is_0_and_state_3_is_end_of_block_0', ok_state))
    # writers
    allowed = {'block_index': {'__init__', 'next_block', 'stop_tape'}, 'block_data_index': {'__init__', 'next_block'}, 'max_index': {'__init__'}, 'blocks': {'__init__'}}
    writers = {k: set() for k in allowed}
    state3 = set()
    for fn in [n for n in ast.walk(cls) if isinstance(n, ast.FunctionDef)]:
        for n in ast.walk(fn):
            tgts = []
            if isinstance(n, ast.Assign):
                tgts = n.targets
            elif isinstance(n, (ast.AugAssign, ast.AnnAssign)):
                tgts = [n.target]
            for t in tgts:
                for e in (t.elts if isinstance(t, (ast.Tuple, ast.List)) else [t]):
                    if isinstance(e, ast.Attribute) and isinstance(e.value, ast.Name) and e.value.id == 'self' and e.attr in writers:
                        writers[e.attr].add(fn.name)
                    if isinstance(e, ast.Subscript) and ast.unparse(e.value) in ('self.state', 'state'):
                        ix = ast.unparse(e.slice)
                        if ix == '3' or not ix.isdigit():
                            state3.add(fn.name)
    for k in allowed:
        results.append(('frame.%s_written_only_by_%s' % (k, '_'.join(sorted(allowed[k]))), writers[k] <= allowed[k]))
    results.append(('frame.state_3_written_only_by_next_block', state3 <= {'next_block'}))
    for oid, ok in results:
        rep.add('%s/%s/%s' % (prop, fname, oid), 'proved' if ok else 'failed', 'ast-dataflow', 0.0, fname)
        if not ok:
            rep.violation('%s/%s/%s' % (prop, fname, oid), 'the block-selection invariant J (block_data_index == start(block_index), state[3] == end(block_index)) is no longer established / framed: %s fails (writers: %s, state[3]: %s)' % (oid, {k: sorted(v) for k, v in writers.items()}, sorted(state3)), no_input=True)


def replay_block_selection(vals, kind):
    """Concrete search for the block-selection obligations: a pilotless pure-data block straight after a ROM block, or
    after one stray pulse (the cases the selection loop exists for; more stray pulses are finding F20, judged separately
    in block_selection_scenarios)."""
    r = concrete_selection()
    if r['diffs']:
        return r
    r = block_selection_scenarios((0, 1))
    if r['diffs']:
        return r
    return verify_mode_scenario()


def verify_mode_scenario():
    """CALL 0x0556 with the carry flag reset (VERIFY): the simulated ROM routine compares and stores nothing; fast loading
    must not store the block either. Through tap2sna, fast-load=1 against fast-load=0."""
    import io
    import os
    import contextlib
    import tempfile
    import shutil
    from skoolkit import tap2sna
    from skoolkit.snapshot import Snapshot
    tmp = tempfile.mkdtemp(prefix='c13ver_')
    w = lambda v, k=2: list(v.to_bytes(k, 'little'))

    def par(d):
        x = 0
        for b in d:
            x ^= b
        return x

    def std(block, pause=1000):
        return [0x10] + w(pause) + w(len(block)) + block

    def hdr(title, start, length, typ):
        h = [0, typ] + [ord(c) for c in title.ljust(10)] + w(length) + w(start) + (w(length) if typ == 0 else [0, 0])
        return h + [par(h)]

    def dat(data):
        d = [255] + list(data)
        return d + [par(d)]
    try:
        org = 32768
        basic = [0, 10, 16, 0, 239, 34, 34, 175, 58, 249, 192, 176, 34] + [ord(c) for c in str(org)] + [34, 13]
        # LD IX,49152 ; LD DE,4 ; LD A,255 ; OR A (carry reset: VERIFY) ; CALL 0x0556 ; JR $
        code = [0xDD, 0x21, 0x00, 0xC0, 0x11, 0x04, 0x00, 0x3E, 0xFF, 0xB7, 0xCD, 0x56, 0x05, 0x18, 0xFE]
        stop = org + len(code) - 2
        tzx = list(b'ZXTape!\x1a\x01\x14')
        tzx += std(hdr('loader', 10, len(basic), 0)) + std(dat(basic)) + std(hdr('code', org, len(code), 3)) + std(dat(code))
        tzx += std(dat([128, 129, 130, 131]))
        fn = os.path.join(tmp, 'v.tzx')
        with open(fn, 'wb') as f:
            f.write(bytes(tzx))
        res = {}
        for fast in (0, 1):
            out = os.path.join(tmp, 'o%d.z80' % fast)
            with contextlib.redirect_stdout(io.StringIO()), contextlib.redirect_stderr(io.StringIO()):
                try:
                    tap2sna.main(['--start=%d' % stop, '-c', 'fast-load=%d' % fast, '-c', 'timeout=300', fn, out])
                except (SystemExit, Exception) as ex:
                    res[fast] = 'failed: %r' % (ex,)
                    continue
            ram = list(Snapshot.get(out).ram())
            res[fast] = ram[49152 - 16384:49152 - 16384 + 4]
        diffs = []
        if res.get(0) != res.get(1):
            diffs.append(('bytes at 49152 after CALL 0x0556 with carry reset (VERIFY) on a block 128,129,130,131', {'fast-load=1': res.get(1), 'fast-load=0': res.get(0)}, 'verify'))
        return {'case': {'verify_mode': True}, 'diffs': diffs}
    finally:
        shutil.rmtree(tmp, ignore_errors=True)


def concrete_selection(trials=3000):
    """The real next_block and the real selection preamble of fast_load on small concrete tapes (a LoadTracer made with
    __new__, only the attributes these two methods use), against the contract evaluated concretely."""
    import io
    import contextlib
    import skoolkit.loadtracer as LT
    rnd = random.Random(13)

    class Blk:
        def __init__(self, start, end):
            self.start, self.end, self.keys, self.fast_load, self.data = start, end, None, False, ()

    class Sim:
        def __init__(self):
            self.registers = [0] * 32
            self.memory = [0] * 65536
    for t in range(trials):
        n = rnd.randrange(1, 5)
        blocks = []
        e = -1
        for b in range(n):
            st = max(0, e) + rnd.choice((0, 0, 1, 2, 5))       # a pilotless block starts on the previous block's last edge
            e = st + rnd.randrange(1, 6)
            blocks.append(Blk(st, e))
        mx = e + rnd.choice((0, 0, 1))
        edges = [100 * i for i in range(mx + 1)]
        bi = rnd.randrange(n)
        pos = rnd.randrange(0, mx + 1) if rnd.random() < 0.7 else rnd.choice((blocks[bi].start, blocks[bi].end, min(mx, blocks[bi].end + 1), mx))
        for which in ('next_block', 'selection'):
            tr = LT.LoadTracer.__new__(LT.LoadTracer)
            tr.blocks, tr.edges, tr.max_index, tr.block_index, tr.block_data_index = blocks, edges, mx, bi, blocks[bi].start
            tr.state = [0, pos, 0, blocks[bi].end, 0, 0, 0, 0, 0, 0]
            tr.pause, tr.keys = 1, None
            calls = [0]
            real_next = LT.LoadTracer.next_block

            def counted(tstates, tr=tr, calls=calls):
                calls[0] += 1
                if calls[0] > 50:
                    raise RecursionError('the block selection loop does not terminate')
                return real_next(tr, tstates)
            if which == 'selection':
                tr.next_block = counted
            # the contract, concretely
            xbi, xpos, xend, xbdi, stopped = bi, pos, blocks[bi].end, blocks[bi].start, False
            steps = 1 if which == 'next_block' else 99
            while steps and (which == 'next_block' or (xbdi <= xpos < mx)):
                steps -= 1
                xbi += 1
                if xbi >= n:
                    xbi, stopped = n, True
                    break
                xpos = xend + 1
                xbdi, xend = blocks[xbi].start, blocks[xbi].end
            got_exc = None
            with contextlib.redirect_stdout(io.StringIO()):
                try:
                    if which == 'next_block':
                        tr.next_block(0)
                    else:
                        ret = tr.fast_load(Sim())
                except LT.SkoolKitError as ex:
                    got_exc = 'SkoolKitError'
                except Exception as ex:
                    got_exc = repr(ex)[:100]
            exp = {'block_index': xbi}
            got = {'block_index': tr.block_index}
            if not stopped:
                exp.update({'tape_index': xpos, 'block_data_index': xbdi, 'block_end_index': xend})
                got.update({'tape_index': tr.state[1], 'block_data_index': tr.block_data_index, 'block_end_index': tr.state[3]})
                if xpos != pos:
                    exp['next_edge_time'] = edges[xpos]
                    got['next_edge_time'] = tr.state[0]
            if which == 'selection':
                exp['outcome'] = 'SkoolKitError' if stopped else None
                got['outcome'] = got_exc
            elif got_exc:
                got['outcome'] = got_exc
            if got != exp:
                return {'case': {'blocks': [(b.start, b.end) for b in blocks], 'max_index': mx, 'block_index': bi, 'tape_index': pos, 'method': which},
                        'diffs': [('%s on blocks %s, max_index %d, block_index %d, tape index %d' % (which, [(b.start, b.end) for b in blocks], mx, bi, pos), got, exp)]}
    return {'case': {}, 'diffs': []}


def block_selection_scenarios(pulses=(0, 1, 2, 3)):
    """Tapes where a pilotless pure-data block follows a ROM block after the given numbers of stray pulses; the bytes
    loaded by two CALL 0x0556 with fast loading must equal the bytes loaded by the simulated ROM routine."""
    import io
    import os
    import contextlib
    import tempfile
    import shutil
    from skoolkit import tap2sna
    from skoolkit.snapshot import Snapshot
    tmp = tempfile.mkdtemp(prefix='c13sel_')
    w = lambda v, k=2: list(v.to_bytes(k, 'little'))

    def par(d):
        x = 0
        for b in d:
            x ^= b
        return x

    def std(block, pause=1000):
        return [0x10] + w(pause) + w(len(block)) + block

    def hdr(title, start, length, typ):
        h = [0, typ] + [ord(c) for c in title.ljust(10)] + w(length) + w(start) + (w(length) if typ == 0 else [0, 0])
        return h + [par(h)]

    def dat(data):
        d = [255] + list(data)
        return d + [par(d)]
    try:
        org = 32768
        basic = [0, 10, 16, 0, 239, 34, 34, 175, 58, 249, 192, 176, 34] + [ord(c) for c in str(org)] + [34, 13]
        code = [0xDD, 0x21, 0x00, 0xC0, 0x11, 0x04, 0x00, 0x37, 0x9F, 0xCD, 0x56, 0x05,
                0xDD, 0x21, 0x04, 0xC0, 0x11, 0x04, 0x00, 0x37, 0x9F, 0xCD, 0x56, 0x05, 0x18, 0xFE]
        stop = org + len(code) - 2
        diffs = []
        for npulses in pulses:
            tzx = list(b'ZXTape!\x1a\x01\x14')
            tzx += std(hdr('loader', 10, len(basic), 0)) + std(dat(basic)) + std(hdr('code', org, len(code), 3)) + std(dat(code))
            tzx += std(dat([1, 2, 4, 8]))
            if npulses:
                tzx += [0x13, npulses] + w(2168) * npulses
            junk = dat([255, 255, 255, 255])
            tzx += [0x14] + w(855) + w(1710) + [8] + w(0) + w(len(junk), 3) + junk
            tzx += std(dat([16, 32, 64, 128]))
            fn = os.path.join(tmp, 't%d.tzx' % npulses)
            with open(fn, 'wb') as f:
                f.write(bytes(tzx))
            res = {}
            for fast in (0, 1):
                out = os.path.join(tmp, 'o%d_%d.z80' % (npulses, fast))
                with contextlib.redirect_stdout(io.StringIO()), contextlib.redirect_stderr(io.StringIO()):
                    try:
                        tap2sna.main(['--start=%d' % stop, '-c', 'fast-load=%d' % fast, '-c', 'timeout=300', fn, out])
                    except (SystemExit, Exception) as ex:
                        res[fast] = 'failed: %r' % (ex,)
                        continue
                ram = list(Snapshot.get(out).ram())
                res[fast] = ram[49152 - 16384:49152 - 16384 + 8]
            if res.get(0) != res.get(1):
                diffs.append(('bytes at 49152 after two CALL 0x0556, %d stray pulse(s) before a pilotless data block' % npulses, {'fast-load=1': res.get(1), 'fast-load=0': res.get(0)}, npulses))
        return {'case': {'block_selection': list(pulses)}, 'diffs': diffs}
    finally:
        shutil.rmtree(tmp, ignore_errors=True)


def _scenario_worker(n):
    return block_selection_scenarios((n,))['diffs']


def block_selection_bounded(rep, prop):
    """B: the stray-pulse tapes through the real tap2sna, fast-load=1 against fast-load=0."""
    from multiprocessing import Pool
    from props import common
    pulses = (0, 1, 2, 3)
    with Pool(min(common.NCPU, len(pulses))) as pool:
        res = pool.map(_scenario_worker, pulses)
    rep.bounded.append({'function': 'skoolkit.tap2sna.main -> LoadTracer.fast_load (block selection)', 'contract': 'bytes loaded by two CALL 0x0556 equal with fast-load=1 and fast-load=0 when a pilotless data block sits between two ROM blocks',
                        'bound': '4 tapes (0..3 stray pulses before the pilotless block) x fast-load {0, 1}', 'evaluations': 2 * len(pulses)})
    for n, diffs in zip(pulses, res):
        for d in diffs:
            rep.violation('%s/block-selection/pilotless-block-after-%d-stray-pulses' % (prop, n), '%s: %s' % (d[0], d[1]), {'case': {'block_selection': [n]}, 'observed_vs_expected': [list(map(str, d))]})
