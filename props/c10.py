"""C10 - Saving a snapshot mid-run and resuming from it is transparent.

P: (i) the T-state codec of both formats (proved under C09, re-run here);
   (ii) schedule determinacy: in Simulator.run and trace.Tracer.run (Python
   branch) the variable next_int is a function of the T-state clock alone, and
   the decision to offer an interrupt after an instruction is
   `T' mod frame < int_active` - a function of T' only - so a resumed run,
   which recomputes next_int from the saved clock, makes the same decisions.
   Inductive invariant over the real loops (havoc + one arbitrary iteration).
   (iii) state completeness: every registers[i] read by any simulator closure
   is serialised by simutils.get_state (AST scan of the live closures).
B: the property itself: trace.main for n1+n2 vs n1 / save / n2 over split
   points of programs covering HALT waits, EI shadow, DD/FD chains, block
   instructions and frame interrupts x {szx,z80} x {48K,128K} x {plain,cmio} x {C,Python}.
"""
import ast
import contextlib
import io
import os
import random
import shutil
import tempfile
import time
from multiprocessing import Pool

import z3

from props import common, c09
from props.funcvc import FuncVC
from pyvc import poly
from pyvc.poly import SV, SB, ite, and_, or_, not_, sv, cmpop, truth, implies
from pyvc.engine import Engine, CallModel, ObjModel, SymList, SymMem, UNK, PathEnd, _Break, func_ast
from pyvc.loops import assigned_names


def schedule_lemma(rep, which, prop='C10'):
    """which: 'simulator' (Simulator.run) or 'trace' (trace.Tracer.run)."""
    from skoolkit.simulator import Simulator
    import skoolkit.trace as TR
    W = poly.W
    fn = Simulator.run if which == 'simulator' else TR.Tracer.run
    node, _ = func_ast(fn)
    loops = sorted([n for n in ast.walk(node) if isinstance(n, (ast.While, ast.For))], key=lambda n: (n.lineno, n.col_offset))
    q = fn.__qualname__
    # the interrupt loop is the first `while True` that contains an accept_interrupt call
    target = next(i for i, l in enumerate(loops) if isinstance(l, ast.While) and 'accept_interrupt' in ast.unparse(l))

    for fd, ia in ((69888, 32), (70908, 36)):
        def start(eng, fd=fd, ia=ia):
            p = eng.path
            regs = [SV(z3.BitVec('r%d' % i, W), 0, 0xFFFF) for i in range(30)]
            regs[25] = SV(z3.BitVec('T0', W), 0, 1 << 36)
            regs[26] = SV(z3.BitVec('iff', W), 0, 1)
            p.facts.extend([regs[25].t >= 0, regs[25].t <= (1 << 36), regs[26].t >= 0, regs[26].t <= 1])
            reglist = SymList(regs, 'registers')
            mem = SymMem('mem')
            p.calls = []
            p.reglist = reglist

            def step(e, args, kwargs, n):
                # one instruction: the clock advances by 4..255 T-states (C05/C19 timing contracts), IFF may change
                dT = e.fresh('dT', 4, 255)
                reglist.items[25] = reglist.items[25] + dT
                reglist.items[26] = e.fresh('iff', 0, 1)
                reglist.items[24] = e.fresh('pc', 0, 65535)
                return None

            class Ops:
                pass
            ops = OpsModel(step)

            def accept(e, args, kwargs, n):
                p.calls.append((list(e.path.pc) + list(e.guards), reglist.items[25], reglist.items[26]))
                e.fresh_n += 1
                acc = SB(z3.Bool('accepted!%d' % e.fresh_n))
                reglist.items[25] = reglist.items[25] + ite(acc, ite(SB(z3.Bool('im2!%d' % e.fresh_n)), 19, 13), 0)
                reglist.items[26] = ite(acc, 0, reglist.items[26])
                return acc

            sim = ObjModel(None, name='simulator')
            sim.attrs.update({'opcodes': ops, 'memory': mem, 'registers': reglist, 'frame_duration': fd, 'int_active': ia,
                              'accept_interrupt': CallModel(accept, 'accept_interrupt')})

            def loop(e, node_):
                fr = e.frames[-1]
                T = reglist.items[25]
                n = fr.loc['next_int']
                # --- establish: next_int is a multiple of the frame duration (by construction: (x // fd) * fd [+ fd]) and
                #     next_int - fd + ia <= T < next_int + ia
                e.oblige('inv.establish', and_(cmpop('<=', n - fd + ia, T), cmpop('<', T, n + ia)), node_)
                nt = z3.simplify(sv(n).t)
                is_mult = any(z3.is_app_of(x, z3.Z3_OP_BMUL) or 'DIV%d' % fd in x.sexpr() for x in [nt])
                e.oblige('inv.establish_multiple', 'DIV%d' % fd in nt.sexpr(), node_, info='next_int must be built as (x // frame) * frame [+ frame]')
                # --- havoc
                for nm in assigned_names(node_.body):
                    if nm in fr.loc:
                        cur = fr.loc[nm]
                        fr.loc[nm] = e.fresh('h_' + nm, 0, 1 << 38) if isinstance(cur, (int, SV)) and not isinstance(cur, bool) else UNK
                Th = e.fresh('T', 0, 1 << 36)
                reglist.items[25] = Th
                reglist.items[26] = e.fresh('iff', 0, 1)
                if 'tstates' in fr.loc:
                    fr.loc['tstates'] = Th
                nh = e.fresh('next_int', 0, 1 << 36)      # some multiple of the frame duration (ghost fact used by the window test below)
                fr.loc['next_int'] = nh

                def rel(nn, TT):
                    exact = and_(cmpop('<=', nn - fd + ia, TT), cmpop('<', TT, nn + ia))
                    pending = and_(cmpop('<=', nn + ia, TT), cmpop('<', TT, nn + ia + 19))      # an interrupt accepted at the very end of the window
                    return or_(exact, pending)
                e.assume(and_(rel(nh, Th), cmpop('>=', nh, fd)))
                p.calls = []
                try:
                    e.exec_block(node_.body)
                except _Break:
                    pass
                n2 = fr.loc['next_int']
                T2 = reglist.items[25]
                # --- the decision made in this iteration is a function of the clock alone: T' mod frame < int_active.
                #     next_int (before the iteration) is a multiple of the frame, so T' mod frame = (T' - next_int) mod frame
                d = p.decision_T - nh
                window = or_(and_(cmpop('>=', d, 0), cmpop('<', d, ia)), and_(cmpop('>=', d, fd), cmpop('<', d, fd + ia)))
                e.oblige('decision.range', and_(cmpop('>', d, -fd), cmpop('<', d, 2 * fd)), node_)
                offered = len(p.calls) > 0
                want = and_(window, p.decision_iff != 0, p.interrupts)
                if offered:
                    e.oblige('decision.offered_only_in_window', want, node_)
                else:
                    e.oblige('decision.offered_whenever_in_window', not_(want), node_)
                # --- preserve
                e.oblige('inv.preserve_multiple', or_(cmpop('==', n2, nh), cmpop('==', n2, nh + fd)), node_)
                e.oblige('inv.preserve', rel(n2, T2), node_)
                raise PathEnd()
            eng.loop_invariants = {(q, target): loop}

            # record the clock/IFF right after the instruction executed (what the decision is about)
            def step2(e, args, kwargs, n, step=step):
                step(e, args, kwargs, n)
                p.decision_T = reglist.items[25]
                p.decision_iff = reglist.items[26]
                return None
            ops.handler = step2
            if which == 'simulator':
                p.interrupts = True
                me = sim
                me.cls = Simulator
                eng.call_function(fn, [me, SV(z3.BitVec('start', W), 0, 65535), SV(z3.BitVec('stop', W), 0, 65535), True])
            else:
                p.interrupts = SB(z3.Bool('interrupts'))
                tr = ObjModel(None, name='tracer', cls=TR.Tracer)
                tr.attrs.update({'simulator': sim, 'keyboard': None, 'border': 0})
                eng.call_function(fn, [tr, SV(z3.BitVec('start', W), 0, 65535), SV(z3.BitVec('stop', W), 0, 65535), SV(z3.BitVec('max_ops', W), 0, 1 << 30), 0,
                                       p.interrupts, None, None, None, None, '$', '02X', '04X'])
        eng = SchedEngine(inline_ok=lambda f: False, unknown_ok=True)
        FuncVC(rep, prop, fn, 'skoolkit.%s[interrupt schedule, frame=%d]' % ('simulator.Simulator.run' if which == 'simulator' else 'trace.Tracer.run', fd), eng,
               own_kinds=('inv.establish', 'inv.establish_multiple', 'inv.preserve', 'inv.preserve_multiple', 'decision.range', 'decision.offered_only_in_window', 'decision.offered_whenever_in_window', 'no_overflow', 'def_before_use')).run(start, None, None)


class OpsModel:
    def __init__(self, handler):
        self.handler = handler


class SchedEngine(Engine):
    def getitem(self, base, idx, node):
        if isinstance(base, OpsModel):
            return CallModel(lambda e, a, k, n: base.handler(e, a, k, n), 'opcode')
        return super().getitem(base, idx, node)

    def sym_builtin(self, f, name, args, kwargs, node):
        if name == 'hasattr' and len(args) == 2 and isinstance(args[0], ObjModel):
            return args[1] in args[0].attrs
        return super().sym_builtin(f, name, args, kwargs, node)

    def call(self, f, args, kwargs, node):
        if f is hasattr and len(args) == 2 and isinstance(args[0], ObjModel):
            return args[1] in args[0].attrs
        if f is print:
            return None
        return super().call(f, args, kwargs, node)


def check_state_completeness(rep):
    """Every registers[i] a simulator closure reads is part of what get_state serialises."""
    from props import simvc
    import skoolkit.simutils as SU
    node, src = func_ast(SU.get_state)
    saved = set()
    for n in ast.walk(node):
        if isinstance(n, ast.Subscript) and isinstance(n.value, ast.Attribute) and n.value.attr == 'registers':
            idx = n.slice
            if isinstance(idx, ast.Name) and hasattr(SU, idx.id):
                saved.add(getattr(SU, idx.id))
    read = {}
    for clsname in ('Simulator', 'CMIOSimulator'):
        mach = simvc.get_machine(clsname, 48)
        for tn, i, f in mach.slots():
            fnode, fsrc = func_ast(f)
            cells = dict(zip(f.__code__.co_freevars, [c.cell_contents for c in (f.__closure__ or ())]))
            for n in ast.walk(fnode):
                if isinstance(n, ast.Subscript) and isinstance(n.value, ast.Name) and n.value.id == 'registers' and isinstance(n.ctx, ast.Load):
                    sl = n.slice
                    if isinstance(sl, ast.Constant):
                        idxs = [sl.value]
                    elif isinstance(sl, ast.Name) and isinstance(cells.get(sl.id), int):
                        idxs = [cells[sl.id]]
                    elif isinstance(sl, ast.Slice):
                        lo = sl.lower.value if sl.lower is not None else 0
                        idxs = list(range(lo, sl.upper.value))
                    else:
                        idxs = []
                    for k in idxs:
                        if not (isinstance(k, int) and 0 <= k < 30):
                            continue       # e.g. reg = -1 behind `if reg >= 0`
                        read.setdefault(k, '%s.%s' % (clsname, f.__qualname__.split('.')[1]))
    unsaved = {k: v for k, v in read.items() if k not in saved and k != 13}
    ok = not unsaved
    rep.add('C10/state_completeness', 'proved' if ok else 'failed', 'ast-dataflow', 0, 'skoolkit.simutils.get_state')
    rep.extra['registers_read_by_closures'] = sorted(read)
    rep.extra['registers_serialised'] = sorted(saved)
    return unsaved


# ------------------------------------------------------------------ B
def _run(args):
    from skoolkit import trace
    out = io.StringIO()
    with contextlib.redirect_stdout(out), contextlib.redirect_stderr(out):
        try:
            trace.main(args)
        except SystemExit:
            pass
        except Exception as e:
            return 'EXC %r' % (e,)
    return out.getvalue()


def _state(fn):
    from skoolkit.snapshot import Snapshot
    s = Snapshot.get(fn)
    szx = fn.endswith('szx')
    regs = (s.a, s.f, s.bc, s.de, s.hl, s.a2, s.f2, s.bc2, s.de2, s.hl2, s.ix, s.iy, s.sp, s.i, s.r, s.pc, s.iff1, s.im, s.border, s.tstates,
            s.out7ffd, s.outfffd, tuple(s.ay), s.outfe if szx else None, s.memptr if szx else None)
    return regs, list(s.ram(-1))


NAMES = ('a', 'f', 'bc', 'de', 'hl', 'a2', 'f2', 'bc2', 'de2', 'hl2', 'ix', 'iy', 'sp', 'i', 'r', 'pc', 'iff', 'im', 'border', 'tstates', '7ffd', 'fffd', 'ay', 'fe', 'memptr')

PROGRAMS = {
    # EI / IM 1 / LDIR / HALT / OUT / DJNZ / IX ops / DD FD chains / EI shadow
    'mixed': [0x31, 0x00, 0x90, 0xFB, 0xED, 0x56, 0x21, 0x00, 0x40, 0x11, 0x01, 0x40, 0x01, 0x20, 0x00, 0x36, 0xAA, 0xED, 0xB0,
              0x76, 0x3E, 0x05, 0xD3, 0xFE, 0x06, 0x05, 0xDD, 0x21, 0x00, 0x80, 0xDD, 0x34, 0x10, 0x10, 0xFB, 0x76, 0xF3, 0xDD, 0xFD, 0xDD, 0x23, 0xFB, 0x00, 0x00, 0x18, 0xD5],
    # HALT sitting in contended memory next to the 0x8000 boundary is placed by the driver (org 0x7FF0)
    'halt': [0x31, 0x00, 0x90, 0xED, 0x56, 0xFB, 0x76, 0x3C, 0x76, 0x3C, 0xC3, 0x05, 0x00],
    # 128K: lock paging (bit 5 of 0x7FFD), then try to page again; write through 0xC000 before and after
    'lock128': [0x31, 0x00, 0x90, 0x01, 0xFD, 0x7F, 0x3E, 0x03, 0xED, 0x79, 0x3E, 0xAA, 0x32, 0x00, 0xC0, 0x3E, 0x24, 0xED, 0x79, 0x3E, 0xBB, 0x32, 0x01, 0xC0,
                0x3E, 0x01, 0xED, 0x79, 0x3A, 0x00, 0xC0, 0x3E, 0xCC, 0x32, 0x02, 0xC0, 0x3E, 0x06, 0xED, 0x79, 0x3E, 0xDD, 0x32, 0x03, 0xC0, 0x18, 0xFE],
    # 128K: select an AY 'register' number with bit 5 set on 0xFFFD, write 0xBFFD, then page through 0x7FFD
    'ay128': [0x31, 0x00, 0x90, 0x01, 0xFD, 0xFF, 0x3E, 0x2A, 0xED, 0x79, 0x06, 0xBF, 0x3E, 0x11, 0xED, 0x79, 0x01, 0xFD, 0xFF, 0x3E, 0x07, 0xED, 0x79, 0x06, 0xBF, 0x3E, 0x33, 0xED, 0x79,
              0x01, 0xFD, 0x7F, 0x3E, 0x04, 0xED, 0x79, 0x3E, 0xAA, 0x32, 0x00, 0xC0, 0x3E, 0x01, 0xED, 0x79, 0x3E, 0xBB, 0x32, 0x00, 0xC0, 0x01, 0xFD, 0xFF, 0xED, 0x78, 0x18, 0xFE],
}


def resume_case(args):
    seed, k = args
    rnd = random.Random('%s/resume/%s' % (seed, k))
    tmp = tempfile.mkdtemp(prefix='c10_')
    try:
        name = rnd.choice(sorted(PROGRAMS))
        prog = list(PROGRAMS[name])
        org = rnd.choice((32768, 0x7FF9 if name == 'halt' else 32768, 0x6000))
        if name == 'halt':
            prog[-2], prog[-1] = (org + 5) & 255, (org + 5) >> 8
        binf = os.path.join(tmp, 'p.bin')
        with open(binf, 'wb') as f:
            f.write(bytes(prog))
        ext = rnd.choice(('z80', 'szx'))
        extra = rnd.choice(([], ['--python'], ['-c'], ['-c', '--python']))
        N = rnd.choice((40, 90, 150))
        t0 = rnd.choice((0, 69000, 69800, 14000, 14400, rnd.randrange(69888)))
        base = ['-o', str(org), '-s', str(org), '--state', 'tstates=%d' % t0] + extra
        if name.endswith('128'):
            # a 128K snapshot with the program in bank 2 (0x8000); distinct bank contents
            from skoolkit.snapshot import write_snapshot
            org = 32768
            banks = [[(b * 16 + 1) & 255] * 0x4000 for b in range(8)]
            banks[2][:len(prog)] = prog
            binf = os.path.join(tmp, 'p128.' + ext)
            write_snapshot(binf, banks, ['pc=32768', 'sp=36864'], ['7ffd=0', 'tstates=%d' % t0], '128K')
            N = rnd.choice((12, 20, 26))
            base = list(extra)
        n1 = rnd.randrange(1, N)
        full = os.path.join(tmp, 'full.' + ext)
        a = os.path.join(tmp, 'a.' + ext)
        b = os.path.join(tmp, 'b.' + ext)
        o = _run(base + ['-m', str(N), binf, full])
        o1 = _run(base + ['-m', str(n1), binf, a])
        o2 = _run(extra + ['-m', str(N - n1), a, b])
        desc = 'program=%s org=%d ext=%s %s N=%d n1=%d tstates0=%d' % (name, org, ext, ' '.join(extra) or 'C plain', N, n1, t0)
        for oo in (o, o1, o2):
            if oo.startswith('EXC'):
                return ('exception', desc, oo)
        if not (os.path.exists(full) and os.path.exists(b)):
            return ('no snapshot', desc, (o[-100:], o2[-100:]))
        ref = _state(full)
        got = _state(b)
        if got != ref:
            d = [(NAMES[i], got[0][i], ref[0][i]) for i in range(len(ref[0])) if got[0][i] != ref[0][i]]
            if ext == 'z80':
                d = [x for x in d if x[0] != 'memptr']
            if d or got[1] != ref[1]:
                return ('resume differs', desc, d[:5] + ([('ram', 'differs')] if got[1] != ref[1] else []))
        return None
    finally:
        shutil.rmtree(tmp, ignore_errors=True)


def run(tier):
    rep = common.Report('C10', tier, 'other', './check C10 --tier %s' % tier)
    rep.trust('pyvc, z3; CPython + trace.py itself for the bounded split runs')
    rep.assume('schedule lemma precondition: every instruction advances the clock by 4..255 T-states (follows from the C05/C19 timing contracts; false for ldir_fast/djnz_fast, which trace.py does not enable)')
    rep.assume('the C implementation of the trace loop (simulator.trace) is bounded only')
    rep.assume('snapshot file contents beyond the T-state codec, register packing (C09) and the register set: bounded only')
    c09.check_codecs.__globals__['FuncVC']  # same codec VCs as C09, reported under this property too
    sub = common.Report('C10', tier, 'other', 'x')
    c09.check_codecs(sub)
    c09.check_rle_structure(sub)        # a .z80 file that cannot be decompressed cannot be resumed from
    nr_, badr_ = c09.rle_bounded(tier == 'quick')
    rep.bounded.append({'function': 'skoolkit.snapshot.Z80._make_z80_ram_block / Z80._decompress (see C09)', 'contract': 'decompress(compress(d)) == d',
                        'bound': 'all strings over {ED,00,01} up to length 9 x 2 block forms; runs 1..600 of ED and of 07 with every prefix/suffix in {none, ED, 09}', 'evaluations': nr_})
    for b in badr_[:2]:
        rep.violation('C10/rle/%s' % b[0], 'Z80 run-length coder (a snapshot written mid-run must decompress to the RAM it was made from): %s' % (b,), {'case': {'rle': list(map(str, b))}})
    rep.add_bulk(sub.discharged, 'z3', sum(sub.solver_s.values()), 'snapshot T-state / register codecs (see C09)', n=sub.obligations)
    for v in sub.violations:
        rep.violation('C10/codec/' + v[0], v[1], {'see': 'C09'})
    schedule_lemma(rep, 'simulator')
    schedule_lemma(rep, 'trace')
    unsaved = check_state_completeness(rep)
    for k, where in unsaved.items():
        rep.violation('C10/state_completeness/registers[%d]' % k,
                      'registers[%d] is read by %s but is not part of the state that get_state() hands to the snapshot writer' % (k, where),
                      {'register_index': k, 'read_by': where}, no_input=True)
    quick = tier == 'quick'
    n = 48 if quick else 1500
    with Pool(common.NCPU) as p:
        res = p.map(resume_case, [(common.seed(), k) for k in range(n)], chunksize=1)
    bad = [r for r in res if r]
    rep.bounded.append({'function': 'skoolkit.trace.main (run n1+n2 vs run n1 / save / resume n2)', 'contract': 'identical registers, RAM, border, paging/AY state and frame position (MEMPTR only for SZX)',
                        'bound': '%d generated (program, origin, format, simulator, split point, initial frame position) cases' % n, 'evaluations': n})
    seen = set()
    for b in bad:
        key = 'C10/resume/%s/%s' % (b[0], ','.join(sorted({x[0] for x in b[2] if isinstance(x, tuple)})) if b[0] == 'resume differs' else '')
        if b[0] == 'resume differs' and 'program=halt' in b[1] and ' -c' in b[1] and {x[0] for x in b[2] if isinstance(x, tuple)} <= {'tstates', 'r', 'pc', 'iff', 'sp', 'a', 'f', 'ram', 'memptr'}:
            # the HALT state (registers[28]) is not serialised: same root cause as C10/state_completeness/registers[28]
            key = 'C10/resume/halt-wait-with-contention'
        if key in seen:
            continue
        seen.add(key)
        rep.violation(key, 'trace.py %s: %s' % (b[1], b[2]), {'case': {'desc': b[1]}, 'observed': b[2]})
    rep.extra['explanation'] = 'P: codec, interrupt-schedule invariant and decision lemma on the real run loops, state completeness; B: split runs'
    return rep.finish()


def replay(path):
    import json
    with open(path) as f:
        doc = json.load(f)
    print('replaying', doc.get('key'), doc.get('case'))
    case = doc.get('case') or {}
    if 'rle' in case:
        n_, bad = c09.rle_bounded(True)
        print(bad[:2])
        if bad:
            print('VIOLATION property=C10 replay=%s' % path)
            return 1
        return 0
    if str(doc.get('key', '')).startswith('C10/codec/') or 'see' in doc:
        sub = common.Report('C10', 'quick', 'other', 'x')
        c09.check_codecs(sub)
        print([v[0] for v in sub.violations][:3])
        if sub.violations:
            print('VIOLATION property=C10 replay=%s' % path)
            return 1
        return 0
    print(doc.get('what'))
    if doc.get('no_failing_input_found'):
        print('VIOLATION property=C10 replay=%s no-failing-input-found' % path)
    return 1
