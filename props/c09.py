"""C09 - Snapshot files round-trip.

P: the integer codecs of the Z80 and SZX writers composed with the matching
   statements of the readers (slices taken mechanically from Z80._read /
   SZX._read on every run): T-state position, R bit 7 / border / compressed
   flag packing in header byte 12, 16-bit register packing, SZX T-states,
   snapshot.Memory index arithmetic.
B: the RLE coder pair bounded-exhaustively (the property's own quantifier),
   whole-file write->read, cross-format equality, an independent reader written
   from the format documents, poke/move/patch frame contracts.
"""
import ast
import contextlib
import io
import itertools
import os
import random
import shutil
import tempfile
import time

import z3

from props import common
from props.funcvc import FuncVC
from pyvc import poly
from pyvc.poly import SV, SB, ite, and_, or_, not_, sv, cmpop, implies
from pyvc.engine import Engine, CallModel, ObjModel, SymList, func_ast, BankRef, BankTuple, PhysHeap

BIG = 1 << 36


def byte(name):
    v = SV(z3.BitVec(name, poly.W), 0, 255)
    return v


def inline_skoolkit(fn):
    return fn.__module__ in ('skoolkit', 'skoolkit.snapshot')


def find_block(fn, pred):
    """Mechanical slice: the statement list of the first `if` in fn whose test source satisfies pred."""
    node, src = func_ast(fn)
    for n in ast.walk(node):
        if isinstance(n, ast.If) and pred(ast.unparse(n.test)):
            return n.body
    raise LookupError('slice not found in ' + fn.__qualname__)


def stmts_until_assign(stmts, attr):
    """Statements of the block up to and including the assignment to self.<attr>."""
    out = []
    for s in stmts:
        out.append(s)
        if isinstance(s, ast.Assign) and any(isinstance(t, ast.Attribute) and t.attr == attr for t in s.targets):
            return out
    raise LookupError('no assignment to self.%s in the slice' % attr)


def tail_assigns(fn, names):
    """The straight-line `self.x = ...` statements at the end of Z80._read for the named attributes."""
    node, src = func_ast(fn)
    out = []
    for s in node.body:
        if isinstance(s, ast.Assign) and any(isinstance(t, ast.Attribute) and t.attr in names for t in s.targets):
            out.append(s)
    if len(out) != len(names):
        raise LookupError('expected %d reader statements, found %d' % (len(names), len(out)))
    return out


def check_codecs(rep):
    import skoolkit
    import skoolkit.snapshot as S
    W = poly.W

    def engine(p_int):
        eng = Engine(inline_ok=inline_skoolkit)
        eng.call_models[id(skoolkit.get_int_param)] = lambda e, a, k, n: p_int()
        return eng

    # ------------------------------------------------------------- Z80: T-state position
    for mid, label in ((0, '48K'), (4, '128K')):
        def start(eng, mid=mid):
            p = eng.path
            p.v = SV(z3.BitVec('v', W), 0, BIG)
            p.facts.append(z3.And(p.v.t >= 0, p.v.t <= BIG))
            hdr = [byte('h%d' % i) for i in range(86)]
            hdr[34] = mid
            p.header = SymList(hdr, 'header')
            me = ObjModel(None, name='Z80', cls=S.Z80)
            me.attrs['header'] = p.header
            p.me = me
            eng.call_models[id(skoolkit.get_int_param)] = lambda e, a, k, n: p.v
            p.hdr0 = list(hdr)
            eng.call_function(S.Z80._set_state, [me, ['tstates=NUM']])
            # the reader's statements for a version 3 header, taken from Z80._read itself
            blk = find_block(S.Z80._read, lambda t: t.replace(' ', '') == 'i>55')
            sl = stmts_until_assign(blk, 'tstates')
            eng.run_stmts(S.Z80._read, sl, {'self': me}, None)

        def post(p, prove, mid=mid):
            fd = 70908 if mid == 4 else 69888
            got = p.me.attrs.get('tstates')
            prove('post.roundtrip', cmpop('==', got, p.v % fd) if got is not None else False)
            h = p.header.items
            prove('post.header_bytes', and_(*[and_(h[i] >= 0, h[i] <= 255) for i in (55, 56, 57)]))
            prove('frame.header', all(h[i] is p.hdr0[i] for i in range(86) if i not in (55, 56, 57)))
        FuncVC(rep, 'C09', S.Z80._set_state, 'skoolkit.snapshot.Z80._set_state[tstates] o Z80._read[tstates] (%s)' % label,
               Engine(inline_ok=inline_skoolkit)).run(start, post, replay_tstates('z80', mid))

    # ------------------------------------------------------------- Z80: header byte 12 (R bit 7, border, compressed flag)
    def start12(eng):
        p = eng.path
        p.r = SV(z3.BitVec('rv', W), 0, BIG)
        p.b = SV(z3.BitVec('bv', W), 0, BIG)
        p.facts.append(z3.And(p.r.t >= 0, p.r.t <= BIG, p.b.t >= 0, p.b.t <= BIG))
        hdr = [byte('h%d' % i) for i in range(86)]
        p.hdr0 = list(hdr)
        p.header = SymList(hdr, 'header')
        me = ObjModel(None, name='Z80', cls=S.Z80)
        me.attrs['header'] = p.header
        p.me = me
        vals = {'r': p.r, 'border': p.b}
        seq = iter([p.r, p.b])
        eng.call_models[id(skoolkit.get_int_param)] = lambda e, a, k, n: next(seq)
        eng.call_function(S.Z80._set_registers, [me, ['r=NUM']])
        eng.call_function(S.Z80._set_state, [me, ['border=NUM']])
        eng.run_stmts(S.Z80._read, tail_assigns(S.Z80._read, ('r', 'border')), {'self': me}, None)

    def post12(p, prove):
        prove('post.r', cmpop('==', p.me.attrs.get('r'), p.r & 255))
        prove('post.border', cmpop('==', p.me.attrs.get('border'), p.b & 7))
        h = p.header.items
        prove('post.byte12_range', and_(h[12] >= 0, h[12] <= 255))
        prove('frame.byte12_other_bits', cmpop('==', h[12] & 0xF0, p.hdr0[12] & 0xF0))
        prove('frame.header', all(h[i] is p.hdr0[i] for i in range(86) if i not in (11, 12)))
    FuncVC(rep, 'C09', S.Z80._set_registers, 'skoolkit.snapshot.Z80._set_registers[r] ; _set_state[border] o Z80._read',
           Engine(inline_ok=inline_skoolkit)).run(start12, post12, None)

    # ------------------------------------------------------------- Z80: 16-bit and 8-bit registers
    for reg, attr in (('bc', 'bc'), ('hl', 'hl'), ('sp', 'sp'), ('de', 'de'), ('^bc', 'bc2'), ('^de', 'de2'), ('^hl', 'hl2'), ('iy', 'iy'), ('ix', 'ix'),
                      ('a', 'a'), ('f', 'f'), ('i', 'i'), ('^a', 'a2'), ('^f', 'f2')):
        def startr(eng, reg=reg, attr=attr):
            p = eng.path
            p.v = SV(z3.BitVec('v', W), 0, BIG)
            p.facts.append(z3.And(p.v.t >= 0, p.v.t <= BIG))
            hdr = [byte('h%d' % i) for i in range(86)]
            hdr[6] = 0
            hdr[7] = 0
            p.hdr0 = list(hdr)
            p.header = SymList(hdr, 'header')
            me = ObjModel(None, name='Z80', cls=S.Z80)
            me.attrs['header'] = p.header
            p.me = me
            eng.call_models[id(skoolkit.get_int_param)] = lambda e, a, k, n: p.v
            eng.call_function(S.Z80._set_registers, [me, ['%s=NUM' % reg]])
            eng.run_stmts(S.Z80._read, tail_assigns(S.Z80._read, (attr,)), {'self': me}, None)

        def postr(p, prove, reg=reg, attr=attr):
            size = len(reg.lstrip('^'))
            prove('post.roundtrip', cmpop('==', p.me.attrs.get(attr), p.v & (0xFFFF if size == 2 else 0xFF)))
            off = S.Z80_REGISTERS[reg]
            h = p.header.items
            touched = (off, off + 1) if size == 2 else (off,)
            prove('post.byte_range', and_(*[and_(h[i] >= 0, h[i] <= 255) for i in touched]))
            prove('frame.header', all(h[i] is p.hdr0[i] for i in range(86) if i not in touched))
        FuncVC(rep, 'C09', S.Z80._set_registers, 'skoolkit.snapshot.Z80._set_registers[%s] o Z80._read[%s]' % (reg, attr),
               Engine(inline_ok=inline_skoolkit)).run(startr, postr, None)

    # ------------------------------------------------------------- Z80: hardware state bytes (7ffd, fffd, ay[n], iff, im)
    def reader_stmts(fn, attrs):
        """Assignments `self.<attr> = ...` anywhere in fn (straight-line reader statements), in source order."""
        node, _ = func_ast(fn)
        out = []
        for n in ast.walk(node):
            if isinstance(n, ast.Assign) and len(n.targets) == 1 and isinstance(n.targets[0], ast.Attribute) and n.targets[0].attr in attrs \
                    and isinstance(n.targets[0].value, ast.Name) and n.targets[0].value.id == 'self':
                out.append(n)
        out.sort(key=lambda n: n.lineno)
        return out
    for field, attr, width in (('7ffd', 'out7ffd', 255), ('fffd', 'outfffd', 255), ('iff', 'iff1', None), ('im', 'im', 3)) + tuple(('ay[%d]' % k, 'ay', 255) for k in (0, 7, 15)):
        def start_h(eng, field=field, attr=attr):
            p = eng.path
            p.v = SV(z3.BitVec('v', W), 0, BIG)
            p.facts.append(z3.And(p.v.t >= 0, p.v.t <= BIG))
            hdr = [byte('h%d' % i) for i in range(86)]
            p.hdr0 = list(hdr)
            p.header = SymList(hdr, 'header')
            me = ObjModel(None, name='Z80', cls=S.Z80)
            me.attrs['header'] = p.header
            p.me = me
            # the register number inside ay[N] is parsed by the same function: concrete here
            def gip(e, a, k, n):
                txt = a[0]
                if isinstance(txt, str) and txt.isdigit():
                    return int(txt)
                return p.v
            eng.call_models[id(skoolkit.get_int_param)] = gip
            eng.call_function(S.Z80._set_state, [me, ['%s=NUM' % field]])
            eng.run_stmts(S.Z80._read, reader_stmts(S.Z80._read, (attr,)), {'self': me}, None)

        def post_h(p, prove, field=field, attr=attr, width=width):
            got = p.me.attrs.get(attr)
            if attr == 'ay':
                k = int(field[3:-1])
                got = got[k] if isinstance(got, tuple) else (got.items[k] if isinstance(got, SymList) else None)
            if attr == 'iff1':
                prove('post.roundtrip', cmpop('==', got, ite((p.v & 255) != 0, 1, 0)) if got is not None else False)
            else:
                prove('post.roundtrip', cmpop('==', got, p.v & width) if got is not None else False)
            h = p.header.items
            changed = [i for i in range(86) if h[i] is not p.hdr0[i]]
            prove('post.byte_range', and_(*[and_(h[i] >= 0, h[i] <= 255) for i in changed]) if changed else True)
            allowed = {'7ffd': (35,), 'fffd': (38,), 'iff': (27, 28), 'im': (29,)}.get(field, (39 + int(field[3:-1]),) if field.startswith('ay') else ())
            prove('frame.header', all(i in allowed for i in changed))
            if field == 'im':
                prove('frame.byte29_other_bits', cmpop('==', h[29] & 0xFC, p.hdr0[29] & 0xFC))
        FuncVC(rep, 'C09', S.Z80._set_state, 'skoolkit.snapshot.Z80._set_state[%s] o Z80._read[%s]' % (field, attr),
               Engine(inline_ok=inline_skoolkit)).run(start_h, post_h, None)

    # ------------------------------------------------------------- SZX: Z80R block (registers, T-states)
    z80r_reader = find_block(S.SZX._read, lambda t: "b'Z80R'" in t)
    for reg, attr in (('bc', 'bc'), ('de', 'de'), ('hl', 'hl'), ('ix', 'ix'), ('iy', 'iy'), ('sp', 'sp'), ('pc', 'pc'), ('^bc', 'bc2'), ('^de', 'de2'),
                      ('^hl', 'hl2'), ('a', 'a'), ('f', 'f'), ('i', 'i'), ('r', 'r'), ('^a', 'a2'), ('^f', 'f2'), ('memptr', 'memptr'), ('tstates', 'tstates')):
        def starts(eng, reg=reg, attr=attr):
            p = eng.path
            p.v = SV(z3.BitVec('v', W), 0, BIG)
            p.facts.append(z3.And(p.v.t >= 0, p.v.t <= BIG))
            blk = [byte('z%d' % i) for i in range(37)]
            if reg == 'tstates':
                blk[32] = 0          # a freshly created Z80R block is zero-filled; only 3 bytes are written
            p.blk0 = list(blk)
            p.block = SymList(blk, 'z80r')
            blocks = ObjModel(None, name='blocks')
            blocks.attrs['setdefault'] = CallModel(lambda e, a, k, n: p.block, 'setdefault')
            me = ObjModel(None, name='SZX', cls=S.SZX)
            me.attrs['blocks'] = blocks
            # machine id byte of the SZX header: 0/1 = 16K/48K, 2 = 128K, 3 = +2
            p.mid = SV(z3.BitVec('machine_id', W), 0, 3)
            p.facts.append(z3.And(p.mid.t >= 0, p.mid.t <= 3))
            me.attrs['header'] = SymList([ord('Z'), ord('X'), ord('S'), ord('T'), 1, 4, p.mid, 0], 'header')
            p.me = me
            eng.call_models[id(skoolkit.get_int_param)] = lambda e, a, k, n: p.v
            if reg == 'tstates':
                eng.call_function(S.SZX._add_zxstz80regs, [me, [], ['tstates=NUM']])
            else:
                eng.call_function(S.SZX._add_zxstz80regs, [me, ['%s=NUM' % reg], []])
            eng.run_stmts(S.SZX._read, z80r_reader, {'self': me, 'block': p.block}, None)

        def posts(p, prove, reg=reg, attr=attr):
            if reg == 'tstates':
                # what resuming needs: the position in the frame (C10); the field holds 24 bits
                got = p.me.attrs.get(attr)
                fd = ite(cmpop('>', p.mid, 1), 70908, 69888)
                prove('post.frame_position', cmpop('==', got % 69888, p.v % 69888) if False else
                      ite(cmpop('>', p.mid, 1), cmpop('==', got % 70908, p.v % 70908), cmpop('==', got % 69888, p.v % 69888)))
                prove('post.roundtrip_within_a_frame', or_(cmpop('>=', p.v, fd), cmpop('==', got, p.v)))
                prove('post.fits_24_bits', and_(cmpop('>=', got, 0), cmpop('<', got, 1 << 24)))
                touched = (29, 30, 31)
            else:
                size = 2 if reg in ('memptr',) else min(len(reg.lstrip('^')), 2)
                prove('post.roundtrip', cmpop('==', p.me.attrs.get(attr), p.v & (0xFFFF if size == 2 else 0xFF)))
                off = S.SZX_REGISTERS[reg]
                touched = (off, off + 1) if size == 2 else (off,)
            b = p.block.items
            prove('post.byte_range', and_(*[and_(b[i] >= 0, b[i] <= 255) for i in touched]))
            prove('frame.block', all(b[i] is p.blk0[i] for i in range(37) if i not in touched))
        FuncVC(rep, 'C09', S.SZX._add_zxstz80regs, 'skoolkit.snapshot.SZX._add_zxstz80regs[%s] o SZX._read[Z80R.%s]' % (reg, attr),
               Engine(inline_ok=inline_skoolkit)).run(starts, posts, replay_tstates('szx', 0) if reg == 'tstates' else None)

    # ------------------------------------------------------------- SZX: SPCR and AY blocks
    for writer, blk_len, guard, fields in ((S.SZX._add_zxstspecregs, 8, "block_id == b'SPCR'", (('border', 'border', 7), ('7ffd', 'out7ffd', 255), ('fe', 'outfe', 255))),
                                           (S.SZX._add_zxstayblock, 18, "block_id == b'AY", (('fffd', 'outfffd', 255), ('ay[0]', 'ay', 255), ('ay[9]', 'ay', 255), ('ay[15]', 'ay', 255)))):
        reader = find_block(S.SZX._read, lambda t, guard=guard: guard in t)
        for field, attr, width in fields:
            def start_x(eng, writer=writer, blk_len=blk_len, field=field, reader=reader):
                p = eng.path
                p.v = SV(z3.BitVec('v', W), 0, BIG)
                p.facts.append(z3.And(p.v.t >= 0, p.v.t <= BIG))
                blk = [byte('x%d' % i) for i in range(blk_len)]
                p.blk0 = list(blk)
                p.block = SymList(blk, 'block')
                blocks = ObjModel(None, name='blocks')
                blocks.attrs['setdefault'] = CallModel(lambda e, a, k, n: p.block, 'setdefault')
                me = ObjModel(None, name='SZX', cls=S.SZX)
                me.attrs['blocks'] = blocks
                p.me = me

                def gip(e, a, k, n):
                    txt = a[0]
                    if isinstance(txt, str) and txt.isdigit():
                        return int(txt)
                    return p.v
                eng.call_models[id(skoolkit.get_int_param)] = gip
                eng.call_function(writer, [me, ['%s=NUM' % field]])
                eng.run_stmts(S.SZX._read, reader, {'self': me, 'block': p.block}, None)

            def post_x(p, prove, field=field, attr=attr, width=width):
                got = p.me.attrs.get(attr)
                if attr == 'ay':
                    k = int(field[3:-1])
                    got = got[k] if isinstance(got, tuple) else (got.items[k] if isinstance(got, SymList) else None)
                prove('post.roundtrip', cmpop('==', got, p.v & width) if got is not None else False)
                b = p.block.items
                changed = [i for i in range(len(b)) if b[i] is not p.blk0[i]]
                prove('post.byte_range', and_(*[and_(b[i] >= 0, b[i] <= 255) for i in changed]) if changed else True)
                prove('frame.block', len(changed) <= 1)
            FuncVC(rep, 'C09', writer, 'skoolkit.snapshot.SZX.%s[%s] o SZX._read[%s]' % (writer.__name__, field, attr),
                   Engine(inline_ok=inline_skoolkit)).run(start_x, post_x, None)

    # ------------------------------------------------------------- snapshot.Memory index arithmetic
    def start_get(eng):
        p = eng.path
        heap = PhysHeap()
        p.page = SV(z3.BitVec('page', W), 0, 7)
        p.index = SV(z3.BitVec('index', W), 0x4000, 0xFFFF)
        p.facts.append(z3.And(p.page.t >= 0, p.page.t <= 7, p.index.t >= 0x4000, p.index.t <= 0xFFFF))
        m = ObjModel(None, name='Memory', cls=S.Memory)
        m.attrs['banks'] = BankTuple(heap, 0, 8)
        m.attrs['memory'] = SymList([BankRef(heap, 8), BankRef(heap, 5), BankRef(heap, 2), BankRef(heap, p.page)], 'memory')
        p.heap, p.m = heap, m
        p.value = byte('value')
        p.ret = eng.call_function(S.Memory.__getitem__, [m, p.index])
        eng.call_function(S.Memory.__setitem__, [m, p.index, p.value])

    def post_get(p, prove):
        q = p.index >> 14
        bank = ite(q == 1, 5, ite(q == 2, 2, p.page))
        cell = sv(bank * 0x4000 + (p.index & 0x3FFF))
        prove('post.get', SB(sv(p.ret).t == z3.Select(p.heap.arr0, cell.t)))
        prove('post.set_one_cell', SB(p.heap.arr == z3.Store(p.heap.arr0, cell.t, p.value.t)))
    FuncVC(rep, 'C09', S.Memory.__getitem__, 'skoolkit.snapshot.Memory.__getitem__/__setitem__[128K]', Engine(inline_ok=inline_skoolkit)).run(start_get, post_get, None)


def check_memory_slices(rep):
    """The slice branches of snapshot.Memory (used by move and by un-prefixed patch): m[s:e:st] is the list of the cells
    s, s+st, ... below min(e, 65536); m[s:e:st] = values stores value k at cell s + k*st (zip: as many as there are
    addresses and values). The comprehension / loop is taken apart mechanically: the three range() arguments and the
    element expression (the loop body) are evaluated as separate statements of the real function, with `a` (and `b`)
    arbitrary; the list structure itself (one element per range member, in order) is Python semantics."""
    import skoolkit.snapshot as S
    W = poly.W
    gnode, _ = func_ast(S.Memory.__getitem__)
    comps = [n for n in ast.walk(gnode) if isinstance(n, ast.ListComp)]
    snode, _ = func_ast(S.Memory.__setitem__)
    loops = [n for n in ast.walk(snode) if isinstance(n, ast.For)]
    name_g = 'skoolkit.snapshot.Memory.__getitem__[slice]'
    name_s = 'skoolkit.snapshot.Memory.__setitem__[slice]'
    if len(comps) != 1 or len(comps[0].generators) != 1 or comps[0].generators[0].ifs or len(loops) != 1:
        rep.downgraded.append({'function': name_g, 'reason': 'the slice branch is no longer one list comprehension over a range / one for loop over zip(range, value)'})
        return

    def pieces(iter_node, what):
        rng = iter_node
        if what == 'set':
            if not (isinstance(rng, ast.Call) and isinstance(rng.func, ast.Name) and rng.func.id == 'zip' and len(rng.args) == 2 and ast.unparse(rng.args[1]) == 'value'):
                raise LookupError('setitem loop does not iterate over zip(range(...), value)')
            rng = rng.args[0]
        if not (isinstance(rng, ast.Call) and isinstance(rng.func, ast.Name) and rng.func.id == 'range' and 1 <= len(rng.args) <= 3 and not rng.keywords):
            raise LookupError('not a range() call')
        args = [ast.unparse(a) for a in rng.args]
        if len(args) == 1:
            args = ['0'] + args
        if len(args) == 2:
            args.append('1')
        return args
    try:
        gargs = pieces(comps[0].generators[0].iter, 'get')
        sargs = pieces(loops[0].iter, 'set')
    except LookupError as ex:
        rep.downgraded.append({'function': name_g, 'reason': str(ex)})
        return
    gtarget = ast.unparse(comps[0].generators[0].target)
    starget = ast.unparse(loops[0].target)

    def mk_mem(eng):
        p = eng.path
        heap = PhysHeap()
        p.page = SV(z3.BitVec('page', W), 0, 7)
        p.facts.append(z3.And(p.page.t >= 0, p.page.t <= 7))
        m = ObjModel(None, name='Memory', cls=S.Memory)
        m.attrs['banks'] = BankTuple(heap, 0, 8)
        m.attrs['memory'] = SymList([BankRef(heap, 8), BankRef(heap, 5), BankRef(heap, 2), BankRef(heap, p.page)], 'memory')
        p.heap, p.m = heap, m
        p.s = SV(z3.BitVec('slice_start', W), 0, 65535)
        p.e = SV(z3.BitVec('slice_stop', W), 0, 1 << 17)
        p.facts.append(z3.And(p.s.t >= 0, p.s.t <= 65535, p.e.t >= 0, p.e.t <= (1 << 17)))
        p.a = SV(z3.BitVec('a_any', W), 0, 65535)
        p.facts.append(z3.And(p.a.t >= 0, p.a.t <= 65535))
        return m

    def cell_of(p, a):
        q = a >> 14
        bank = ite(q == 0, 8, ite(q == 1, 5, ite(q == 2, 2, p.page)))
        return sv(bank * 0x4000 + (a & 0x3FFF))
    for with_step in (False, True):
        label = 'explicit step' if with_step else 'no step'

        def start_g(eng, with_step=with_step):
            p = eng.path
            m = mk_mem(eng)
            p.st = SV(z3.BitVec('slice_step', W), 1, 65535) if with_step else None
            if with_step:
                p.facts.append(z3.And(p.st.t >= 1, p.st.t <= 65535))
            index = ObjModel(None, name='slice')
            index.attrs.update({'start': p.s, 'stop': p.e, 'step': p.st})
            src = 'r0 = %s\nr1 = %s\nr2 = %s\n%s = a_any\nel = %s' % (gargs[0], gargs[1], gargs[2], gtarget, ast.unparse(comps[0].elt))
            p.locs = {'self': m, 'index': index, 'a_any': p.a}
            eng.run_stmts(S.Memory.__getitem__, ast.parse(src).body, p.locs)

        def post_g(p, prove, with_step=with_step):
            L = p.locs
            prove('post.range_start', cmpop('==', L['r0'], p.s))
            prove('post.range_stop_is_min_of_stop_and_65536', cmpop('==', L['r1'], ite(cmpop('<', p.e, 0x10000), p.e, 0x10000)))
            prove('post.range_step', cmpop('==', L['r2'], p.st if with_step else 1))
            prove('post.element_is_the_cell_at_its_address', SB(sv(L['el']).t == z3.Select(p.heap.arr0, cell_of(p, p.a).t)))
        FuncVC(rep, 'C09', S.Memory.__getitem__, '%s (%s)' % (name_g, label), Engine(inline_ok=inline_skoolkit)).run(start_g, post_g, replay_memory_slices)

        def start_s(eng, with_step=with_step):
            p = eng.path
            m = mk_mem(eng)
            p.st = SV(z3.BitVec('slice_step', W), 1, 65535) if with_step else None
            if with_step:
                p.facts.append(z3.And(p.st.t >= 1, p.st.t <= 65535))
            index = ObjModel(None, name='slice')
            index.attrs.update({'start': p.s, 'stop': p.e, 'step': p.st})
            p.b = byte('b_any')
            p.facts.append(z3.And(p.b.t >= 0, p.b.t <= 255))
            src = 'r0 = %s\nr1 = %s\nr2 = %s\n%s = (a_any, b_any)\n' % (sargs[0], sargs[1], sargs[2], starget)
            p.locs = {'self': m, 'index': index, 'a_any': p.a, 'b_any': p.b, 'value': None}
            eng.run_stmts(S.Memory.__setitem__, ast.parse(src).body + list(loops[0].body), p.locs)

        def post_s(p, prove, with_step=with_step):
            L = p.locs
            prove('post.range_start', cmpop('==', L['r0'], p.s))
            prove('post.range_stop', cmpop('==', L['r1'], p.e))
            prove('post.range_step', cmpop('==', L['r2'], p.st if with_step else 1))
            prove('post.body_stores_the_value_at_its_address', SB(p.heap.arr == z3.Store(p.heap.arr0, cell_of(p, p.a).t, p.b.t)))
        FuncVC(rep, 'C09', S.Memory.__setitem__, '%s (%s)' % (name_s, label), Engine(inline_ok=inline_skoolkit)).run(start_s, post_s, replay_memory_slices)
    rep.assume('Memory slices: a list comprehension / for loop over range(s, e, st) visits s, s + st, ... below e in order, zip pairs them with the values in order (Python semantics); addresses are 0..65535 (a stop above 65536 in __setitem__ is outside the documented use)')


def replay_memory_slices(vals, kind):
    """Concrete search: slices of 48K and 128K Memory objects around the top of memory against a flat model."""
    import skoolkit.snapshot as S
    rnd = random.Random(17)
    for t in range(400):
        is128 = t % 2
        if is128:
            pg = rnd.choice((0, 1, 3, 4, 6, 7))      # (banks 5 and 2 at 0xC000 alias the lower slots: the VC's heap model covers that)
            m = S.Memory(snapshot=[rnd.randrange(256) for _ in range(0x20000)], page=pg)
            flat = [0] * 16384 + list(m.banks[5]) + list(m.banks[2]) + list(m.banks[pg])
        else:
            snap = [0] * 16384 + [rnd.randrange(256) for _ in range(49152)]
            m = S.Memory(snapshot=snap)
            flat = list(snap)
        s_ = rnd.choice((rnd.randrange(16384, 65536), 65535, 65530, 49150, vals.get('slice_start', 65000) % 65536))
        e_ = rnd.choice((s_, s_ + rnd.randrange(0, 40), 65535, 65536, 65537, 70000, vals.get('slice_stop', 65536)))
        st_ = rnd.choice((None, None, 1, 2, 7))
        got = m[s_:e_:st_] if st_ else m[s_:e_]
        exp = [flat[a] for a in range(s_, min(e_, 65536), st_ or 1)]
        if list(got) != exp:
            return {'case': {'memory_slice': [s_, e_, st_], 'is128': bool(is128)}, 'diffs': [('Memory[%d:%d:%s]' % (s_, e_, st_), 'length %d' % len(got), 'length %d (cells %d..)' % (len(exp), s_))]}
        vals_ = [rnd.randrange(256) for _ in range(rnd.randrange(0, 12))]
        e2 = min(e_, 65536)
        if st_:
            m[s_:e2:st_] = vals_
        else:
            m[s_:e2] = vals_
        for a, b in zip(range(s_, e2, st_ or 1), vals_):
            flat[a] = b
        now = [m[a] for a in range(16384, 65536)]
        if now != flat[16384:]:
            bad = [a for a in range(16384, 65536) if now[a - 16384] != flat[a]][:3]
            return {'case': {'memory_slice': [s_, e2, st_], 'is128': bool(is128), 'values': vals_}, 'diffs': [('Memory[%d:%d:%s] = %d values' % (s_, e2, st_, len(vals_)), 'cells %s differ' % bad, 'exactly the zipped cells change')]}
    return {'case': {}, 'diffs': []}


def replay_tstates(fmt, mid):
    def rp(vals, kind):
        v = vals.get('v', 0)
        for m in ((mid,) if fmt == 'z80' else (0, 4)):
            d = concrete_tstates(fmt, m, v)
            if d:
                return {'case': {'format': fmt, 'machine_id': m, 'tstates': v}, 'diffs': d}
        return {'case': {'format': fmt, 'machine_id': mid, 'tstates': v}, 'diffs': []}
    return rp


def concrete_tstates(fmt, mid, v):
    import skoolkit.snapshot as S
    ram = [[0] * 16384 for _ in range(8)] if mid == 4 else [0] * 49152
    machine = '128K' if mid == 4 else '48K'
    if fmt == 'z80':
        z = S.Z80(ram=ram, machine=machine)
        z.set_registers_and_state([], ['tstates=%d' % v])
        z2 = S.Z80(bytes(z.data()))
        fd = 70908 if mid == 4 else 69888
        e = v % fd
    else:
        fd = 70908 if mid == 4 else 69888
        for vv in (v, v + (1 << 24), 20000000, fd, fd + 1, 69888, 70907, 16777215, 16777216):
            z = S.SZX(ram=ram, machine=machine)
            z.set_registers_and_state([], ['tstates=%d' % vv])
            z2 = S.SZX(bytes(z.data()))
            if z2.tstates % fd != vv % fd or (vv < fd and z2.tstates != vv):
                return [('tstates=%d on %s: frame position after the round trip' % (vv, machine), z2.tstates % fd, vv % fd)]
        return []
    return [] if z2.tstates == e else [('tstates', z2.tstates, e)]


# ------------------------------------------------------------------ B: RLE, files
def rle_bounded(quick):
    import skoolkit.snapshot as S
    z = S.Z80(ram=[0] * 49152)
    bad = []
    n = 0
    maxlen = 9
    for L in range(0, maxlen + 1):
        for t in itertools.product((237, 0, 1), repeat=L):
            d = list(t)
            for page in (None, 5):
                n += 1
                try:
                    blk = list(z._make_z80_ram_block(d, page))
                except Exception as ex:
                    bad.append(('exception', d, page, repr(ex)))
                    continue
                body = blk[:-4] if page is None else blk[3:]
                if page is not None and blk[0] + 256 * blk[1] != len(body):
                    bad.append(('length', d, page))
                if page is None and blk[-4:] != [0, 237, 237, 0]:
                    bad.append(('endmarker', d))
                try:
                    back = z._decompress(body)
                except Exception as ex:
                    back = repr(ex)
                if back != d:
                    bad.append(('roundtrip', d, page, back if isinstance(back, str) else back[:12]))
                if any(not 0 <= x <= 255 for x in blk):
                    bad.append(('byte', d, page))
                if len(bad) > 5:
                    return n, bad
    for run in range(1, 601):
        for v in (237, 7):
            for pre in ((), (237,), (9,)):
                for post in ((), (237,), (9,)):
                    n += 1
                    d = list(pre) + [v] * run + list(post)
                    try:
                        body = list(z._make_z80_ram_block(d, 5))[3:]
                        back = z._decompress(body)
                    except Exception as ex:
                        back = repr(ex)
                    if back != d:
                        bad.append(('run', run, v, pre, post))
                        if len(bad) > 5:
                            return n, bad
    return n, bad


def independent_z80_reader(data):
    """Decoder written from the published Z80 v1/v3 format description only."""
    h = data
    out = {}
    out['a'], out['f'] = h[0], h[1]
    out['bc'] = h[2] | h[3] << 8
    out['hl'] = h[4] | h[5] << 8
    pc = h[6] | h[7] << 8
    out['sp'] = h[8] | h[9] << 8
    out['i'] = h[10]
    b12 = 1 if h[12] == 255 else h[12]
    out['r'] = (h[11] & 0x7F) | ((b12 & 1) << 7)
    out['border'] = (b12 >> 1) & 7
    out['de'] = h[13] | h[14] << 8
    out['^bc'] = h[15] | h[16] << 8
    out['^de'] = h[17] | h[18] << 8
    out['^hl'] = h[19] | h[20] << 8
    out['^a'], out['^f'] = h[21], h[22]
    out['iy'] = h[23] | h[24] << 8
    out['ix'] = h[25] | h[26] << 8
    out['iff'] = 1 if h[27] else 0
    out['iff_raw'] = h[27]
    out['im'] = h[29] & 3

    def unrle(block, terminated):
        res = []
        i = 0
        while i < len(block):
            if terminated and block[i:i + 4] == bytes([0, 0xED, 0xED, 0]) and i + 4 == len(block):
                break
            if block[i] == 0xED and i + 1 < len(block) and block[i + 1] == 0xED:
                res.extend([block[i + 3]] * block[i + 2])
                i += 4
            else:
                res.append(block[i])
                i += 1
        return res
    banks = {}
    if pc != 0:
        out['pc'] = pc
        body = data[30:]
        ram = unrle(body, True) if b12 & 32 else list(body)
        banks = {5: ram[:16384], 2: ram[16384:32768], 0: ram[32768:49152]}
        out['machine'] = '48K'
    else:
        hl = h[30] | h[31] << 8
        out['pc'] = h[32] | h[33] << 8
        hw = h[34]
        v3 = hl > 23
        is128 = (hw in (4, 5, 6, 12)) if v3 else (hw in (3, 4, 12))
        out['machine'] = '128K' if is128 else '48K'
        out['7ffd'] = h[35]
        out['fffd'] = h[38]
        out['ay'] = list(h[39:55])
        if v3:
            fd = 70908 if is128 else 69888
            q = fd // 4
            lo = h[55] | h[56] << 8
            hi = h[57]
            # T-state counter counts down within a quarter frame; hi runs 3,0,1,2
            out['tstates'] = (((hi + 1) % 4 + 1) * q - (lo + 1)) % fd if False else fd - 1 - ((2 - hi) % 4) * q - (lo % q)
        i = 32 + hl
        while i < len(data):
            ln = data[i] | data[i + 1] << 8
            pg = data[i + 2]
            if ln == 0xFFFF:
                blk = list(data[i + 3:i + 3 + 16384])
                ln = 16384
            else:
                blk = unrle(data[i + 3:i + 3 + ln], False)
            banks[pg - 3] = blk
            i += 3 + ln
    out['banks'] = banks
    return out


def independent_szx_reader(data):
    """Decoder written from the ZX-State (SZX) specification only."""
    import zlib
    assert data[:4] == b'ZXST'
    out = {'machine_id': data[6], 'banks': {}}
    i = 8
    while i + 8 <= len(data):
        bid = bytes(data[i:i + 4])
        ln = int.from_bytes(data[i + 4:i + 8], 'little')
        blk = data[i + 8:i + 8 + ln]
        if bid == b'Z80R':
            names = ['af', 'bc', 'de', 'hl', '^af', '^bc', '^de', '^hl', 'ix', 'iy', 'sp', 'pc']
            for k, nm in enumerate(names):
                out[nm] = blk[2 * k] | blk[2 * k + 1] << 8
            out['a'], out['f'] = out['af'] >> 8, out['af'] & 255
            out['^a'], out['^f'] = out['^af'] >> 8, out['^af'] & 255
            out['i'], out['r'], out['iff'], out['im'] = blk[24], blk[25], blk[26], blk[28]
            out['tstates'] = int.from_bytes(blk[29:33], 'little')
            out['memptr'] = blk[35] | blk[36] << 8
        elif bid == b'SPCR':
            out['border'], out['7ffd'], out['fe'] = blk[0], blk[1], blk[3]
        elif bid == b'AY\x00\x00':
            out['fffd'] = blk[1]
            out['ay'] = list(blk[2:18])
        elif bid == b'RAMP':
            flags = blk[0] | blk[1] << 8
            pg = blk[2]
            raw = blk[3:]
            out['banks'][pg] = list(zlib.decompress(bytes(raw)) if flags & 1 else raw)
        i += 8 + ln
    return out


def files_bounded(seed, n):
    """write -> read (skoolkit reader and the independent readers), both formats."""
    import skoolkit.snapshot as S
    rnd = random.Random(seed)
    bad = []
    evals = 0
    tmp = tempfile.mkdtemp(prefix='c09_')
    regs16 = ['bc', 'de', 'hl', 'ix', 'iy', 'sp', 'pc', '^bc', '^de', '^hl']
    regs8 = ['a', 'f', 'i', 'r', '^a', '^f']
    try:
        for k in range(n):
            m128 = k % 2 == 1
            def blockgen(size):
                out = []
                while len(out) < size:
                    c = rnd.random()
                    if c < 0.3:
                        out += [rnd.choice((237, 0, 255, rnd.randrange(256)))] * rnd.choice((1, 2, 3, 4, 5, 6, 254, 255, 256, 257, 600))
                    elif c < 0.5:
                        out += [237, rnd.randrange(256)]
                    else:
                        out += [rnd.randrange(256) for _ in range(rnd.randrange(1, 40))]
                return out[:size]
            if m128:
                ram = [blockgen(16384) for _ in range(8)]
            else:
                ram = blockgen(49152)
            vals = {}
            for r in regs16:
                vals[r] = rnd.choice((0, 1, 255, 256, 65535, rnd.randrange(65536)))
            if vals['pc'] == 0:
                vals['pc'] = 1
            for r in regs8:
                vals[r] = rnd.choice((0, 1, 127, 128, 255, rnd.randrange(256)))
            fd = 70908 if m128 else 69888
            st = {'border': rnd.randrange(8), 'iff': rnd.randrange(2), 'im': rnd.randrange(3),
                  'tstates': rnd.choice((0, 1, fd // 4 - 1, fd // 4, fd // 2 - 1, fd - 1, rnd.randrange(fd)))}
            if m128:
                st['7ffd'] = rnd.randrange(256)
                st['fffd'] = rnd.randrange(256)
                for j in range(16):
                    st['ay[%d]' % j] = rnd.randrange(256)
            results = {}
            for ext in ('z80', 'szx'):
                v2 = dict(vals)
                s2 = dict(st)
                if ext == 'szx':
                    s2['fe'] = rnd.randrange(256)
                    v2['memptr'] = rnd.randrange(65536)
                fn = os.path.join(tmp, 'x.' + ext)
                S.write_snapshot(fn, ram, ['%s=%d' % kv for kv in v2.items()], ['%s=%d' % kv for kv in s2.items()], '128K' if m128 else '48K')
                evals += 1
                s = S.Snapshot.get(fn)
                got = {'a': s.a, 'f': s.f, 'bc': s.bc, 'de': s.de, 'hl': s.hl, 'ix': s.ix, 'iy': s.iy, 'sp': s.sp, 'pc': s.pc, 'i': s.i, 'r': s.r,
                       '^a': s.a2, '^f': s.f2, '^bc': s.bc2, '^de': s.de2, '^hl': s.hl2, 'memptr': s.memptr}
                for kk, v in v2.items():
                    if got[kk] != v:
                        bad.append((ext, m128, 'reg', kk, v, got[kk]))
                gst = {'border': s.border, 'iff': s.iff1, 'im': s.im, 'tstates': s.tstates, '7ffd': s.out7ffd, 'fffd': s.outfffd, 'fe': s.outfe}
                for j in range(16):
                    gst['ay[%d]' % j] = s.ay[j]
                for kk, v in s2.items():
                    if gst[kk] != v:
                        bad.append((ext, m128, 'state', kk, v, gst[kk]))
                flat = [b for bank in ram for b in bank] if m128 else ram
                back = list(s.ram(-1)) if m128 else list(s.ram())
                if back != flat:
                    bad.append((ext, m128, 'ram', next(i for i in range(len(flat)) if back[i] != flat[i])))
                results[ext] = (got, gst, back)
                # independent reader
                with open(fn, 'rb') as f:
                    raw = f.read()
                ind = independent_z80_reader(raw) if ext == 'z80' else independent_szx_reader(raw)
                for kk, v in v2.items():
                    if kk in ind and ind[kk] != v:
                        bad.append((ext, m128, 'independent-reg', kk, v, ind[kk]))
                for kk in ('border', 'im', 'tstates', '7ffd', 'fffd', 'iff'):
                    if kk in ind and kk in s2 and ind[kk] != s2[kk]:
                        bad.append((ext, m128, 'independent-state', kk, s2[kk], ind[kk]))
                exp_banks = {i: ram[i] for i in range(8)} if m128 else {5: ram[:16384], 2: ram[16384:32768], 0: ram[32768:]}
                if ext == 'z80' and not m128:
                    exp_banks = {5: ram[:16384], 1: ram[16384:32768], 2: ram[32768:]}   # v3 48K page numbering: pages 8,4,5
                ib = ind['banks']
                if sorted(ib) != sorted(exp_banks) or any(list(ib[i]) != list(exp_banks[i]) for i in exp_banks):
                    bad.append((ext, m128, 'independent-ram', sorted(ib)))
            # cross-format equality of the common fields
            g1, s1, r1 = results['z80']
            g2, s2_, r2 = results['szx']
            for kk in g1:
                if kk != 'memptr' and g1[kk] != g2[kk]:
                    bad.append(('cross', m128, kk, g1[kk], g2[kk]))
            for kk in ('border', 'iff', 'im', 'tstates', '7ffd', 'fffd'):
                if s1.get(kk) != s2_.get(kk):
                    bad.append(('cross-state', m128, kk, s1.get(kk), s2_.get(kk)))
            if r1 != r2:
                bad.append(('cross-ram', m128))
            if len(bad) > 8:
                break
    finally:
        shutil.rmtree(tmp, ignore_errors=True)
    return evals, bad


def pokes_bounded(seed, n):
    """poke/move change exactly the named cells. Expected values are computed on the
    physical banks (on a 128K machine bank 5 or 2 may also be paged at 0xC000)."""
    from skoolkit.snapshot import poke, move, patch, Memory
    rnd = random.Random(seed)
    bad = []
    for trial in range(n):
        is128 = rnd.random() < .5
        if is128:
            snap = [rnd.randrange(256) for _ in range(0x20000)]
            pg = rnd.randrange(8)
            m = Memory(snapshot=snap, page=pg)
            phys = [list(b) for b in m.banks]
            slot = {1: 5, 2: 2, 3: pg}
        else:
            snap = [0] * 16384 + [rnd.randrange(256) for _ in range(49152)]
            m = Memory(snapshot=snap)
            phys = [list(m.memory[1]), list(m.memory[2]), list(m.memory[3])]
            slot = {1: 0, 2: 1, 3: 2}

        def cell(a):
            return slot[a >> 14], a & 0x3FFF

        def view():
            if is128:
                return [list(b) for b in m.banks]
            return [list(m.memory[1]), list(m.memory[2]), list(m.memory[3])]
        kind = rnd.choice(('poke', 'poke', 'move'))
        if kind == 'poke':
            a1 = rnd.randrange(16384, 65536)
            cnt = rnd.randrange(0, 50)
            step = rnd.choice((1, 1, 2, 3, 7))
            a2 = min(65535, a1 + cnt)
            v = rnd.randrange(256)
            op = rnd.choice(('', '^', '+'))
            page = rnd.randrange(8) if is128 and rnd.random() < .5 else None
            form = rnd.randrange(3)
            spec = ('%d:' % page if page is not None else '') + ('%d' % a1, '%d-%d' % (a1, a2), '%d-%d-%d' % (a1, a2, step))[form] + ',%s%d' % (op, v)
            lo, hi, stp = a1, (a1 if form == 0 else a2), (step if form == 2 else 1)
            f = {'': lambda b: v, '^': lambda b: b ^ v, '+': lambda b: (b + v) & 255}[op]
            poke(m, spec)
            for a in range(lo, hi + 1, stp):
                b, o = (page, a & 0x3FFF) if page is not None else cell(a)
                phys[b][o] = f(phys[b][o])
        else:
            src = rnd.randrange(16384, 65500)
            size = rnd.randrange(1, 30)
            dest = rnd.randrange(16384, 65500)
            spec = '%d,%d,%d' % (src, size, dest)
            data = [phys[cell(a)[0]][cell(a)[1]] for a in range(src, src + size)]
            move(m, spec)
            for k, a in enumerate(range(dest, dest + size)):
                b, o = cell(a)
                phys[b][o] = data[k]
        if view() != phys:
            got = view()
            bad.append((kind, spec, 'page=%s' % (slot[3] if is128 else None),
                        [(b, o) for b in range(len(phys)) for o in range(0x4000) if got[b][o] != phys[b][o]][:4]))
        if len(bad) > 5:
            break
    return n, bad


def bin2sna_tool(seed, n):
    """bin2sna.main on generated inputs and options, the snapshot read back with Snapshot.get: RAM is exactly the input at
    ORG (48K), or - with --page - banks 5, 2 and N from the input and every --bank file in its bank (zero-padded; other
    banks zero), pokes applied, PC / SP / border / 7ffd as the options say (defaults: START = STACK = ORG, border 7)."""
    from skoolkit import bin2sna
    from skoolkit.snapshot import Snapshot
    rnd = random.Random(seed * 13 + 9)
    tmp = tempfile.mkdtemp(prefix='c09b2s_')
    bad = []
    try:
        for t in range(n):
            L = rnd.choice((1, 100, 16384, 49152, rnd.randrange(1, 49152)))
            data = [rnd.randrange(1, 256) for _ in range(L)]
            binf = os.path.join(tmp, 'x.bin')
            with open(binf, 'wb') as f:
                f.write(bytes(data))
            ext = rnd.choice(('z80', 'szx'))
            out = os.path.join(tmp, 'x.' + ext)
            args = []
            org = 65536 - L
            if rnd.random() < 0.5 and L < 49152:
                org = rnd.randrange(16384, 65536 - L + 1)
                args += ['-o', str(org)]
            mem = [0] * org + data + [0] * (65536 - org - L)
            page = None
            banks = None
            if rnd.random() < 0.5:
                page = rnd.randrange(8)
                args += ['--page', str(page)]
                banks = {b: [0] * 0x4000 for b in range(8)}
                banks[5], banks[2] = mem[0x4000:0x8000], mem[0x8000:0xC000]
                banks[page] = mem[0xC000:]
                for b in rnd.sample(range(8), rnd.randrange(0, 4)):
                    blen = rnd.choice((0x4000, 0x4000, 1, 3, rnd.randrange(1, 0x4000)))
                    bdata = [rnd.randrange(1, 256) for _ in range(blen)]
                    bf = os.path.join(tmp, 'bank%d.bin' % b)
                    with open(bf, 'wb') as f:
                        f.write(bytes(bdata))
                    args += ['--bank', '%d,%s' % (b, bf)]
                    banks[b] = bdata + [0] * (0x4000 - blen)
            start, stack, border = org, org, 7
            if rnd.random() < 0.4:
                start = rnd.choice((0, 0, 65535, rnd.randrange(16384, 65536)))        # (0 is a value, not "absent")
                args += ['-s', str(start)]
            if rnd.random() < 0.4:
                stack = rnd.choice((0, 0, 65535, rnd.randrange(16384, 65536)))
                args += ['-p', str(stack)]
            if rnd.random() < 0.3:
                border = rnd.randrange(8)
                args += ['-b', str(border)]
            if rnd.random() < 0.3:
                a, v = rnd.randrange(16384, 65536), rnd.randrange(256)
                args += ['-P', '%d,%d' % (a, v)]
                if banks is None:
                    mem[a] = v
                else:
                    banks[{1: 5, 2: 2, 3: page}[a >> 14]][a & 0x3FFF] = v
            desc = ' '.join(x if not x.startswith(tmp) else os.path.basename(x) for x in args) + ' (%d bytes -> %s)' % (L, ext)
            err = io.StringIO()
            try:
                with contextlib.redirect_stdout(io.StringIO()), contextlib.redirect_stderr(err):
                    bin2sna.main(args + [binf, out])
                sn = Snapshot.get(out)
            except (Exception, SystemExit) as ex:
                bad.append((desc, 'exception %r %s' % (ex, err.getvalue()[-100:])))
                continue
            why = None
            if banks is None:
                got = list(sn.ram())
                if got != mem[16384:]:
                    a = next(i for i in range(49152) if got[i] != mem[16384 + i]) + 16384
                    why = 'RAM differs at %d: %d, expected %d' % (a, got[a - 16384], mem[a])
            else:
                got = list(sn.ram(-1))
                if len(got) != 0x20000:
                    why = 'not a 128K snapshot'
                else:
                    for b in range(8):
                        if got[b * 0x4000:(b + 1) * 0x4000] != banks[b]:
                            o = next(i for i in range(0x4000) if got[b * 0x4000 + i] != banks[b][i])
                            why = 'bank %d differs at offset %d: %d, expected %d' % (b, o, got[b * 0x4000 + o], banks[b][o])
                            break
                if why is None and sn.out7ffd != page:
                    why = '7ffd is %d, expected %d' % (sn.out7ffd, page)
            if why is None and (sn.pc, sn.sp, sn.border) != (start, stack, border):
                why = '(pc, sp, border) = %s, expected %s' % ((sn.pc, sn.sp, sn.border), (start, stack, border))
            if why:
                bad.append((desc, why))
                if len(bad) > 3:
                    break
    finally:
        shutil.rmtree(tmp, ignore_errors=True)
    return n, bad


SNAP_ATTRS = ('a', 'f', 'bc', 'de', 'hl', 'a2', 'f2', 'bc2', 'de2', 'hl2', 'ix', 'iy', 'sp', 'i', 'r', 'pc', 'border', 'iff1', 'im', 'out7ffd', 'outfffd')
REG_OPTS = {'a': ('a', 255), 'f': ('f', 255), 'bc': ('bc', 65535), 'de': ('de', 65535), 'hl': ('hl', 65535), 'ix': ('ix', 65535), 'iy': ('iy', 65535),
            'sp': ('sp', 65535), 'pc': ('pc', 65535), 'i': ('i', 255), 'r': ('r', 255), '^a': ('a2', 255), '^f': ('f2', 255), '^bc': ('bc2', 65535), '^de': ('de2', 65535), '^hl': ('hl2', 65535)}


def snapmod_tool(seed, n):
    """snapmod.main on generated snapshots and options (--reg, --state, --poke, --move, --patch; z80 and szx): exactly the
    registers and state attributes named change, to the values given; RAM is the input RAM after the patches, then the
    moves, then the pokes (the order snapmod applies them), and nothing else changes."""
    from skoolkit import snapmod
    import skoolkit.snapshot as S
    rnd = random.Random(seed * 17 + 3)
    tmp = tempfile.mkdtemp(prefix='c09sm_')
    bad = []
    try:
        for t in range(n):
            m128 = rnd.random() < 0.5
            ram = [rnd.randrange(256) for _ in range(0x20000 if m128 else 49152)]
            ext1 = rnd.choice(('z80', 'szx'))
            ext2 = ext1         # (snapmod keeps the format: 'Mismatched input and output snapshot types' otherwise)
            src, out = os.path.join(tmp, 'a.' + ext1), os.path.join(tmp, 'b.' + ext2)
            page = rnd.randrange(8) if m128 else None
            regs0 = ['%s=%d' % (k, rnd.randrange(v[1] + 1)) for k, v in REG_OPTS.items() if not k.startswith('^')]
            state0 = ['border=%d' % rnd.randrange(8), 'im=%d' % rnd.randrange(3), 'iff=%d' % rnd.randrange(2)] + (['7ffd=%d' % page] if m128 else [])
            S.write_snapshot(src, [ram[b * 0x4000:(b + 1) * 0x4000] for b in range(8)] if m128 else ram, regs0, state0, '128K' if m128 else '48K')
            before = S.Snapshot.get(src)
            exp = {a: getattr(before, a) for a in SNAP_ATTRS}
            if m128:
                banks = [list(ram[b * 0x4000:(b + 1) * 0x4000]) for b in range(8)]
                slot = {1: 5, 2: 2, 3: page}
            else:
                banks = [list(ram[0:0x4000]), list(ram[0x4000:0x8000]), list(ram[0x8000:0xC000])]
                slot = {1: 0, 2: 1, 3: 2}
            if m128 and page in (5, 2):
                continue        # aliasing of bank 5 / 2 at 0xC000 is left to the poke / move contracts
            args = []
            # patch, then move, then poke
            if rnd.random() < 0.4:
                a = rnd.randrange(16384, 65536 - 40)
                pd = [rnd.randrange(256) for _ in range(rnd.randrange(1, 40))]
                pf = os.path.join(tmp, 'p.bin')
                with open(pf, 'wb') as f:
                    f.write(bytes(pd))
                args += ['--patch', '%d,%s' % (a, pf)]
                for i, b in enumerate(pd):
                    banks[slot[(a + i) >> 14]][(a + i) & 0x3FFF] = b
            if rnd.random() < 0.4:
                sa, size, da = rnd.randrange(16384, 65536 - 40), rnd.randrange(1, 40), rnd.randrange(16384, 65536 - 40)
                if rnd.random() < 0.2:
                    sa = 65536 - size       # a block that ends at the top of memory
                args += ['-m', '%d,%d,%d' % (sa, size, da)]
                blk = [banks[slot[(sa + i) >> 14]][(sa + i) & 0x3FFF] for i in range(size)]
                for i, b in enumerate(blk):
                    banks[slot[(da + i) >> 14]][(da + i) & 0x3FFF] = b
            if rnd.random() < 0.5:
                a, v = rnd.randrange(16384, 65536), rnd.randrange(256)
                args += ['-p', '%d,%d' % (a, v)]
                banks[slot[a >> 14]][a & 0x3FFF] = v
            for k in rnd.sample(sorted(REG_OPTS), rnd.randrange(0, 4)):
                attr, mx = REG_OPTS[k]
                v = rnd.randrange(mx + 1)
                args += ['-r', '%s=%d' % (k, v)]
                exp[attr] = v
            if rnd.random() < 0.4:
                v = rnd.randrange(8)
                args += ['-s', 'border=%d' % v]
                exp['border'] = v
            if rnd.random() < 0.3:
                v = rnd.randrange(3)
                args += ['-s', 'im=%d' % v]
                exp['im'] = v
            desc = ' '.join(x if not x.startswith(tmp) else os.path.basename(x) for x in args) + ' (%s %s -> %s)' % ('128K' if m128 else '48K', ext1, ext2)
            try:
                with contextlib.redirect_stdout(io.StringIO()), contextlib.redirect_stderr(io.StringIO()):
                    snapmod.main(args + [src, out])
                after = S.Snapshot.get(out)
            except (Exception, SystemExit) as ex:
                bad.append((desc, 'exception %r' % (ex,)))
                continue
            why = None
            for a in SNAP_ATTRS:
                if getattr(after, a) != exp[a]:
                    why = '%s is %s, expected %s' % (a, getattr(after, a), exp[a])
                    break
            if why is None:
                got = list(after.ram(-1)) if m128 else list(after.ram())
                flat = [b for bank in banks for b in bank]
                if got != flat:
                    o = next(i for i in range(len(flat)) if i >= len(got) or got[i] != flat[i])
                    why = 'RAM differs at %s %d (got %s, expected %d; %d bytes)' % ('bank %d offset' % (o >> 14) if m128 else 'address', (o & 0x3FFF) if m128 else o + 16384, got[o] if o < len(got) else None, flat[o], len(got))
            if why:
                bad.append((desc, why))
                if len(bad) > 3:
                    break
    finally:
        shutil.rmtree(tmp, ignore_errors=True)
    return n, bad


def run(tier):
    rep = common.Report('C09', tier, 'other', './check C09 --tier %s' % tier)
    rep.trust('pyvc, z3/cvc5 for the codec VCs; CPython for the bounded parts; zlib assumed correct')
    rep.assume('reader slices are the statement blocks of Z80._read / SZX._read selected mechanically by their guard (`i > 55`, `block_id == b"Z80R"`) and by the assigned attribute; the file-walking loops around them are not part of the VCs')
    rep.assume('get_int_param is abstracted: returns some integer in 0..2**36 (negative values are outside the documented option syntax)')
    rep.assume('RLE pair, whole-file round trips, cross-format equality, independent readers, poke/move: bounded stand-ins, never counted as proved')
    check_codecs(rep)
    check_rle_structure(rep)
    from props import pokevc
    pokevc.check_poke(rep, 'C09', tier)        # the cell-writing kernel of poke(): exactly the named cells, f(old) in each
    check_memory_slices(rep)                   # Memory[s:e:st] reads / writes the cells s, s+st, ... below min(e, 65536)
    pokevc.check_patch(rep, 'C09')             # patch(): one store, as much of the file as fits, the bank keeps its length
    pokevc.check_move(rep, 'C09')              # move(): one block copy, between the banks / offsets the spec names
    quick = tier == 'quick'
    n, bad = rle_bounded(quick)
    rep.bounded.append({'function': 'skoolkit.snapshot.Z80._make_z80_ram_block / Z80._decompress', 'contract': 'decompress(compress(d)) == d; length prefix / end marker; bytes in 0..255',
                        'bound': 'all strings over {ED,00,01} up to length 9 x 2 block forms; runs 1..600 of ED and of 07 with every prefix/suffix in {none, ED, 09}', 'evaluations': n})
    for b in bad[:3]:
        rep.violation('C09/rle/%s' % b[0], 'Z80 run-length coder: %s' % (b,), {'case': b})
    try:
        ev, bad = files_bounded(common.seed(), 12 if quick else 200)
    except Exception as ex:
        # the real writer / reader raised on a generated machine state: that is itself a failed round trip
        import traceback
        ev, bad = 1, [('exception', 'write_snapshot / Snapshot.get', repr(ex)[:200], traceback.format_exc()[-300:])]
    rep.bounded.append({'function': 'skoolkit.snapshot.write_snapshot / Snapshot.get (Z80 v3 and SZX, 48K and 128K)', 'contract': 'get(write(s)) == s; z80 == szx on common fields; independent readers agree',
                        'bound': '%d generated machine states (long runs, ED patterns, boundary register values)' % (ev // 2), 'evaluations': ev})
    seen = set()
    for b in bad:
        key = 'C09/file/%s/%s' % (b[0], b[2] if len(b) > 2 else '')
        if key in seen:
            continue
        seen.add(key)
        rep.violation(key, 'snapshot file round trip: %s' % (b,), {'case': b})
    try:
        ev, bad = pokes_bounded(common.seed(), 300 if quick else 5000)
    except Exception as ex:
        ev, bad = 1, [('exception', 'poke / move', repr(ex)[:200], [])]
    rep.bounded.append({'function': 'skoolkit.snapshot.poke / move', 'contract': 'exactly the named cells change, to the named values', 'bound': '%d generated specs' % ev, 'evaluations': ev})
    for b in bad[:3]:
        rep.violation('C09/%s' % b[0], 'poke/move frame contract: %s' % (b,), {'case': b})
    try:
        evb, badb = bin2sna_tool(common.seed(), 60 if quick else 1500)
    except Exception as ex:
        evb, badb = 1, [('bin2sna', 'exception %r' % (ex,))]
    rep.bounded.append({'function': 'skoolkit.bin2sna.main -> Snapshot.get', 'contract': 'RAM == input at ORG / banks 5, 2, N and every --bank file in its bank (zero-padded), pokes applied; PC, SP, border, 7ffd as the options say',
                        'bound': '%d generated inputs and option sets (48K and --page/--bank, full-size and short bank files, z80/szx)' % evb, 'evaluations': evb})
    for b in badb[:2]:
        rep.violation('C09/bin2sna/%s' % b[1].split(' differs')[0].split(' is ')[0][:30], 'bin2sna %s: %s' % b, {'case': {'bin2sna': b[0], 'seed': common.seed()}, 'observed': b[1]})
    try:
        evs, bads = snapmod_tool(common.seed(), 80 if quick else 2000)
    except Exception as ex:
        evs, bads = 1, [('snapmod', 'exception %r' % (ex,))]
    rep.bounded.append({'function': 'skoolkit.snapmod.main (--reg, --state, --poke, --move, --patch)', 'contract': 'exactly the named registers / state attributes change; RAM == input after patches, moves, pokes; nothing else',
                        'bound': '%d generated snapshots and option sets (48K/128K, z80/szx)' % evs, 'evaluations': evs})
    for b in bads[:2]:
        rep.violation('C09/snapmod/%s' % b[1].split(' is ')[0].split(' differs')[0][:30], 'snapmod %s: %s' % b, {'case': {'snapmod': b[0], 'seed': common.seed()}, 'observed': b[1]})
    rep.extra['explanation'] = ('P: writer codec composed with the reader statements (taken from the real _read methods) proved to be the identity modulo the field width for all values; '
                               'B: RLE bounded-exhaustive, files, independent readers, poke/move')
    return rep.finish()


def replay(path):
    import json
    with open(path) as f:
        doc = json.load(f)
    case = doc.get('case')
    print('replaying', doc.get('key'), case)
    if isinstance(case, dict) and 'snapmod' in case:
        n_, bad = snapmod_tool(case.get('seed', common.seed()), 2000)
        print(bad[:2])
        if bad:
            print('VIOLATION property=C09 replay=%s' % path)
            return 1
        return 0
    if isinstance(case, dict) and 'bin2sna' in case:
        n_, bad = bin2sna_tool(case.get('seed', common.seed()), 1500)
        print(bad[:2])
        if bad:
            print('VIOLATION property=C09 replay=%s' % path)
            return 1
        return 0
    if isinstance(case, dict) and 'memory_slice' in case:
        r = replay_memory_slices({'slice_start': case['memory_slice'][0], 'slice_stop': case['memory_slice'][1]}, '')
        print(r['diffs'])
        if r['diffs']:
            print('VIOLATION property=C09 replay=%s' % path)
            return 1
        return 0
    if isinstance(case, dict) and 'patch_spec' in case:
        from props import pokevc
        r = pokevc.replay_patch({k: case[k] for k in ('page', 'address', 'file_length') if k in case}, '')
        print(r['diffs'])
        if r['diffs']:
            print('VIOLATION property=C09 replay=%s' % path)
            return 1
        return 0
    if isinstance(case, dict) and 'move_spec' in case:
        from props import pokevc
        r = pokevc.replay_move({}, '')
        print(r['diffs'])
        if r['diffs']:
            print('VIOLATION property=C09 replay=%s' % path)
            return 1
        return 0
    if isinstance(case, dict) and 'poke_spec' in case:
        import random
        import skoolkit.snapshot as S
        from props.pokevc import f_spec
        spec = case['poke_spec']
        rnd = random.Random(5)
        bad = False
        for trial in range(20):
            if case.get('is128'):
                m = S.Memory(snapshot=[rnd.randrange(256) for _ in range(0x20000)], page=rnd.randrange(8))
                before = [list(b) for b in m.banks]
                S.poke(m, spec)
                page, rest = spec.split(':', 1)
                addr, val = rest.split(',', 1)
                exp = [list(b) for b in before]
                bank = exp[int(page) % 8]
                got = [list(b) for b in m.banks]
            else:
                m = [rnd.randrange(256) for _ in range(65536)]
                exp = list(m)
                S.poke(m, spec)
                addr, val = spec.split(',', 1)
                bank = exp
                got = m
            op = val[0] if val[0] in '^+' else ''
            v = int(val.lstrip('^+'))
            f = [int(x) for x in addr.split('-')]
            lo, hi, st = f[0], (f[1] if len(f) > 1 else f[0]), (f[2] if len(f) > 2 else 1)
            for a in range(lo, hi + 1, st):
                k = a % 0x4000 if case.get('is128') else a
                bank[k] = f_spec(op, bank[k], v)
            if got != exp:
                bad = True
                break
        print('poke %s: %s' % (spec, 'memory differs from the cells named by the spec' if bad else 'as specified'))
        if bad:
            print('VIOLATION property=C09 replay=%s' % path)
            return 1
        return 0
    if isinstance(case, dict) and 'format' in case:
        d = concrete_tstates(case['format'], case['machine_id'], case['tstates'])
        print(d)
        if d:
            print('VIOLATION property=C09 replay=%s' % path)
            return 1
        return 0
    return 1


# ------------------------------------------------------------------ RLE writer: structural lemmas (P)
def check_rle_structure(rep):
    """Z80._make_z80_ram_block for data of ANY length: every element appended to
    the block is a byte; every run token ED ED n v has 1 <= n <= 255 (never the
    forbidden ED ED 00) and is emitted only for runs the format allows (n >= 5, or
    n >= 2 of ED); the loop invariant is `prev_b is None and count == 0` or
    `prev_b is a byte and 1 <= count <= 255`.  (That decompress inverts it is
    the bounded-exhaustive part.)"""
    import skoolkit.snapshot as S
    from pyvc.engine import PathEnd, _Continue, TrackedDict
    W = poly.W
    fn = S.Z80._make_z80_ram_block
    node, _ = func_ast(fn)
    loops = sorted([x for x in ast.walk(node) if isinstance(x, (ast.While, ast.For))], key=lambda x: (x.lineno, x.col_offset))
    q = fn.__qualname__

    class Block:
        pass

    def start(eng):
        p = eng.path
        p.emitted = 0

        def extend(e, args, kwargs, n_):
            items = args[0]
            if isinstance(items, SymList):
                items = items.items
            if not isinstance(items, (tuple, list)):
                e.oblige('emit.known', False, n_)
                return None
            for it in items:
                e.oblige('emit.byte', and_(cmpop('>=', it, 0), cmpop('<=', it, 255)), n_)
            if len(items) == 4 and isinstance(items[0], int) and items[0] == 237 and isinstance(items[1], int) and items[1] == 237:
                cnt, val = items[2], items[3]
                e.oblige('emit.run_length', and_(cmpop('>=', cnt, 1), cmpop('<=', cnt, 255)), n_)
                e.oblige('emit.run_allowed', or_(cmpop('>=', cnt, 5), and_(cmpop('>=', cnt, 2), cmpop('==', val, 237))), n_)
            return None
        block = BlockModel(extend)

        def loop(e, node_):
            fr = e.frames[-1]
            e.oblige('inv.establish', fr.loc['prev_b'] is None and fr.loc['count'] == 0, node_)
            e.fresh_n += 1
            if e.decide(SB(z3.Bool('prev_is_none!%d' % e.fresh_n))):
                fr.loc['prev_b'] = None
                fr.loc['count'] = 0
            else:
                fr.loc['prev_b'] = e.fresh('prev_b', 0, 255)
                fr.loc['count'] = e.fresh('count', 1, 255)
            e.fresh_n += 1
            if e.decide(SB(z3.Bool('more!%d' % e.fresh_n))):
                fr.loc['b'] = e.fresh('b', 0, 255)
                try:
                    e.exec_block(node_.body)
                except _Continue:
                    pass
                pb, c = fr.loc['prev_b'], fr.loc['count']
                if pb is None:
                    e.oblige('inv.preserve', cmpop('==', c, 0), node_)
                else:
                    e.oblige('inv.preserve', and_(cmpop('>=', pb, 0), cmpop('<=', pb, 255), cmpop('>=', c, 1), cmpop('<=', c, 255)), node_)
                raise PathEnd()
            # loop exit: the flush after the loop runs on the invariant state
        eng.loop_invariants = {(q, 0): loop}
        eng.list_model = block
        me = ObjModel(None, name='z80', cls=S.Z80)
        try:
            eng.call_function(fn, [me, UNKSEQ, 5])
        except poly.Refuse:
            raise
    eng = RleEngine(inline_ok=lambda f: False, unknown_ok=True)
    FuncVC(rep, 'C09', fn, 'skoolkit.snapshot.Z80._make_z80_ram_block[structure]', eng).run(start, None, replay_rle)


class BlockModel:
    def __init__(self, on_extend):
        self.on_extend = on_extend


class _UnkSeq:
    pass


UNKSEQ = _UnkSeq()


class RleEngine(Engine):
    list_model = None

    def ev(self, e):
        if isinstance(e, ast.List) and not e.elts and self.list_model is not None:
            return self.list_model
        return super().ev(e)

    def getattr(self, obj, attr, node):
        if isinstance(obj, BlockModel):
            if attr == 'extend':
                return CallModel(obj.on_extend, 'extend')
            raise poly.Refuse('block method ' + attr)
        return super().getattr(obj, attr, node)

    def exec_for(self, s):
        it = self.ev(s.iter)
        if isinstance(it, _UnkSeq):
            return self.exec_loop_with_invariant(s)
        return super().exec_for(s)

    def binop(self, op, a, b, node=None):
        # (prev_b,) * count with symbolic count: `count` copies of a byte (only the element matters for emit.byte)
        if op == '*' and isinstance(a, tuple) and len(a) == 1 and isinstance(b, SV):
            return (a[0],)
        if op == '+' and (isinstance(a, BlockModel) or isinstance(b, BlockModel)):
            return a if isinstance(a, BlockModel) else b
        return super().binop(op, a, b, node)

    def call(self, f, args, kwargs, node):
        if f is bytes or f is len:
            if args and isinstance(args[0], (BlockModel, SymList)):
                from pyvc.engine import UNK
                return UNK
        return super().call(f, args, kwargs, node)


def replay_rle(vals, kind):
    import skoolkit.snapshot as S
    z = S.Z80(ram=[0] * 49152)
    for run in (254, 255, 256, 257, 510, 511, 512, 600):
        for v in (7, 237):
            d = [9] + [v] * run + [3]
            try:
                blk = list(z._make_z80_ram_block(d, 5))
                back = z._decompress(blk[3:])
            except Exception as ex:
                return {'case': {'data': '09, %d x %02X, 03' % (run, v)}, 'diffs': [('exception', repr(ex))]}
            if back != d:
                return {'case': {'data': '09, %d x %02X, 03' % (run, v)}, 'diffs': [('roundtrip', len(back), len(d))]}
    return {'case': vals, 'diffs': []}
