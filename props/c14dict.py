"""C14: key discipline of the dictionary phases of _generate_ctls_without_code_map.

After the decode loop the function turns its list of (address, ctl) pairs into a
dict and rewrites it in three phases (zero blocks, joining, text).  The tiling
statement reduces to the invariant

    I:  start and end are keys, every key k satisfies start <= k <= end,
        and ctls[end] == 'i'

(write_ctl prints sorted(ctls)).  I holds when the phases begin (the decode-loop VC
proves every appended key in range and the last append is (end, 'i'); that the
first appended key is `start` is observed by the bounded part).  Here every store
and every deletion of the three phases carries site obligations that preserve I:

    store  ctls[k] = v   :  start <= k <= end  and  (k != end or v == 'i')
    delete del ctls[k]   :  k != start and k != end

The verified text is the slice of the real function after `ctls = dict(ctls)`,
re-read on every run, with `ctls` bound to a tracked dictionary.  Models (all
consequences of I, or contracts proved elsewhere):

  * sorted(ctls) is an increasing sequence of n >= 2 keys, first == start, last ==
    end; two subscripts whose index terms differ by a positive constant are ordered;
  * sorted(ctls.items()) likewise, an item (a, c) has c == 'i' if a == end;
  * ctls[k] for a key k is a control character, 'i' if k == end;
  * _get_text_blocks(snapshot, s, e, ..) yields (t_start, t_end) with
    s <= t_start < t_end <= e (proved in props/c14text.py);
  * the snapshot and the configuration are unknown values.
Loops are treated by one arbitrary iteration from a havocked state that satisfies
the loop's invariant (stated in the handlers below) plus the exit state.
"""
import ast

import z3

from props.funcvc import FuncVC
from pyvc import poly
from pyvc.poly import SV, SB, ite, and_, or_, not_, sv, cmpop, truth
from pyvc.engine import Engine, TrackedDict, CallModel, UNK, Unknown, PathEnd, _Unbound, func_ast, _Break, _Continue


class CharVal:
    """A one-character control code, as the integer ord(c)."""

    def __init__(self, v):
        self.v = v


class SortedKeys:
    def __init__(self, n):
        self.n = n
        self.cache = {}     # str(index term) -> (index SV/int, key SV)


class ItemsView:
    pass


class SortedItems:
    def __init__(self, tail=False):
        self.tail = tail


class TextBlocks:
    def __init__(self, lo, hi):
        self.lo = lo
        self.hi = hi
        self.nonempty = None


class DictEngine(Engine):
    gs = ge = None

    # ---- values
    def charval(self, key=None):
        c = self.fresh('ctl', 0, 255)
        if key is not None and self.ge is not None:
            self.assume(or_(cmpop('!=', key, self.ge), cmpop('==', c, ord('i'))))
        return CharVal(c)

    def compare(self, op, l, r, node):
        if isinstance(l, CharVal) and isinstance(r, str):
            if isinstance(op, (ast.In, ast.NotIn)):
                res = or_(*[cmpop('==', l.v, ord(ch)) for ch in r]) if r else False
                return res if isinstance(op, ast.In) else not_(res)
            if isinstance(op, (ast.Eq, ast.NotEq)):
                res = cmpop('==', l.v, ord(r)) if len(r) == 1 else False
                return res if isinstance(op, ast.Eq) else not_(res)
        if isinstance(l, (CharVal, SortedKeys, SortedItems, TextBlocks)) or isinstance(r, (CharVal, SortedKeys, SortedItems, TextBlocks)):
            return UNK
        return super().compare(op, l, r, node)

    def as_cond(self, v):
        if isinstance(v, TextBlocks):
            if v.nonempty is None:
                self.fresh_n += 1
                v.nonempty = SB(z3.Bool('text_blocks_nonempty!%d' % self.fresh_n))
            return v.nonempty
        return super().as_cond(v)

    # ---- containers
    def key_at(self, sk, idx, node):
        idx = idx if isinstance(idx, int) else sv(idx)
        self.oblige('idx', and_(cmpop('>=', idx, 0), cmpop('<', idx, sk.n)), node)
        name = str(z3.simplify(sv(idx).t))
        if name in sk.cache:
            return sk.cache[name][1]
        k = self.fresh('key', 0, 65536)
        self.assume(and_(cmpop('>=', k, self.gs), cmpop('<=', k, self.ge)))
        self.assume(or_(cmpop('!=', idx, 0), cmpop('==', k, self.gs)))
        self.assume(or_(cmpop('!=', idx, sk.n - 1), cmpop('==', k, self.ge)))
        self.assume(or_(cmpop('==', idx, sk.n - 1), cmpop('<', k, self.ge)))
        self.assume(or_(cmpop('==', idx, 0), cmpop('>', k, self.gs)))
        for oname, (oidx, ok) in sk.cache.items():
            d = z3.simplify(sv(idx).t - sv(oidx).t)
            if z3.is_bv_value(d):
                dv = d.as_long()
                if dv >= 1 << (poly.W - 1):
                    dv -= 1 << poly.W
                if dv > 0:
                    self.assume(cmpop('>', k, ok))
                elif dv < 0:
                    self.assume(cmpop('<', k, ok))
        sk.cache[name] = (idx, k)
        if isinstance(self.ctls, TrackedDict):
            self.ctls.members.append(k)
        return k

    def getitem(self, base, idx, node):
        if isinstance(base, SortedKeys):
            if isinstance(idx, (int, SV, SB)):
                return self.key_at(base, idx, node)
            raise poly.Refuse('slice of sorted keys')
        if isinstance(base, SortedItems):
            if isinstance(idx, int) and idx == 0 and not base.tail:
                return (self.gs, self.charval(self.gs))
            if isinstance(idx, slice) and idx.start == 1 and idx.stop is None and idx.step is None and not base.tail:
                return SortedItems(tail=True)
            raise poly.Refuse('subscript of sorted items')
        if isinstance(base, TrackedDict):
            if isinstance(idx, (int, SV)):
                return self.charval(idx)
            return CharVal(self.fresh('ctl', 0, 255))
        return super().getitem(base, idx, node)

    def getattr(self, obj, attr, node):
        if isinstance(obj, TrackedDict) and attr == 'items':
            return CallModel(lambda e, a, k, n: ItemsView(), 'dict.items')
        return super().getattr(obj, attr, node)

    def call(self, f, args, kwargs, node):
        if f is sorted and len(args) == 1 and not kwargs:
            if isinstance(args[0], TrackedDict):
                n = self.fresh('nkeys', 2, 65537)
                return SortedKeys(n)
            if isinstance(args[0], ItemsView):
                return SortedItems()
        if f is len and len(args) == 1 and isinstance(args[0], SortedKeys):
            return args[0].n
        return super().call(f, args, kwargs, node)

    def sym_builtin(self, f, name, args, kwargs, node):
        if name == 'len' and len(args) == 1 and isinstance(args[0], SortedKeys):
            return args[0].n
        if name == 'sorted' and len(args) == 1:
            if isinstance(args[0], TrackedDict):
                return SortedKeys(self.fresh('nkeys', 2, 65537))
            if isinstance(args[0], ItemsView):
                return SortedItems()
        return super().sym_builtin(f, name, args, kwargs, node)

    def setitem(self, base, idx, v, node):
        if isinstance(base, TrackedDict):
            if isinstance(v, str):
                isi = (v == 'i')
            elif isinstance(v, CharVal):
                isi = cmpop('==', v.v, ord('i'))
            else:
                isi = False
            if isinstance(idx, Unknown):
                self.oblige('key_in_range', False, node, info='unknown key')
            else:
                self.oblige('key_in_range', and_(cmpop('>=', idx, self.gs), cmpop('<=', idx, self.ge)), node)
                self.oblige('end_marker_kept', or_(cmpop('!=', idx, self.ge), isi), node)
            if isinstance(idx, (int, SV)) and not base.known(idx):
                base.members.append(idx)
            return
        return super().setitem(base, idx, v, node)

    def exec_for(self, s):
        key = self.loop_key(s)
        if key in self.loop_invariants:
            return self.loop_invariants[key](self, s)
        return super().exec_for(s)

    def delete(self, t):
        if isinstance(t, ast.Subscript):
            base = self.ev(t.value)
            if isinstance(base, TrackedDict):
                idx = self.ev_index(t.slice)
                if isinstance(idx, Unknown):
                    self.oblige('keep_endpoints', False, t, info='unknown key')
                else:
                    self.oblige('keep_endpoints', and_(cmpop('!=', idx, self.gs), cmpop('!=', idx, self.ge)), t)
                base.forget()
                return
        return super().delete(t)


def phase_slice(fn):
    node, _ = func_ast(fn)
    out = None
    for s in node.body:
        if out is not None:
            out.append(s)
        elif isinstance(s, ast.Assign) and ast.unparse(s).replace(' ', '') == 'ctls=dict(ctls)':
            out = []
    if not out:
        raise LookupError('`ctls = dict(ctls)` not found in _generate_ctls_without_code_map')
    return node, out


def check_dict_phases(rep, prop='C14'):
    import skoolkit.snactl as S
    W = poly.W
    fn = S._generate_ctls_without_code_map
    node, stmts = phase_slice(fn)
    q = fn.__qualname__
    all_loops = sorted([n for n in ast.walk(node) if isinstance(n, (ast.For, ast.While))], key=lambda n: (n.lineno, n.col_offset))
    in_slice = [l for l in all_loops if any(l in list(ast.walk(s)) for s in stmts)]
    shapes = [ast.unparse(l.iter).replace(' ', '') if isinstance(l, ast.For) else 'while' for l in in_slice]
    expect = ['range(', 'range(', 'ctls_s', 'range(', '_get_text_blocks(', 'text_blocks']
    if len(shapes) != len(expect) or any(not sh.startswith(ex) for sh, ex in zip(shapes, expect)):
        rep.downgraded.append({'function': q + '[dict phases]', 'reason': 'loop shapes changed: %s' % shapes})
        return
    name = 'skoolkit.snactl._generate_ctls_without_code_map[dict phases]'

    def start(eng):
        p = eng.path
        p.gs = SV(z3.BitVec('gstart', W), 0, 65535)
        p.ge = SV(z3.BitVec('gend', W), 1, 65536)
        p.facts.extend([p.gs.t >= 0, p.gs.t < p.ge.t, p.ge.t <= 65536])
        eng.gs, eng.ge = p.gs, p.ge
        ctls = TrackedDict('ctls')
        ctls.members.extend([p.gs, p.ge])
        eng.ctls = ctls

        def pair_loop(e, node_):
            """for i in range(len(edges) - 1): one arbitrary index; the body starts with start, end = edges[i], edges[i + 1]"""
            fr = e.frames[-1]
            edges = fr.loc.get('edges')
            if not isinstance(edges, SortedKeys):
                raise poly.Refuse('edges is not sorted(ctls)')
            e.fresh_n += 1
            if e.decide(SB(z3.Bool('iterate!%d' % e.fresh_n))):
                i = e.fresh('i', 0, 65536)
                rng = [e.ev(a_) for a_ in node_.iter.args]
                lo_i, hi_i = (0, rng[0]) if len(rng) == 1 else (rng[0], rng[1])
                e.assume(and_(cmpop('>=', i, lo_i), cmpop('<', i, hi_i)))
                edges.cache = {}
                e.assign(node_.target, i)
                try:
                    e.exec_block(node_.body)
                except (_Break, _Continue):
                    pass
                raise PathEnd()
            # exit: the body only stores / deletes through the checked sites; nothing else to carry over
            ctls.forget()
            ctls.members.extend([p.gs, p.ge])

        def addr_loop(e, node_):
            """for address in range(start, end): one arbitrary address"""
            fr = e.frames[-1]
            rng = [e.ev(a_) for a_ in node_.iter.args]
            lo, hi = (0, rng[0]) if len(rng) == 1 else (rng[0], rng[1])
            e.fresh_n += 1
            if e.decide(SB(z3.Bool('iterate!%d' % e.fresh_n))):
                a = e.fresh('address', 0, 65536)
                e.assume(and_(cmpop('>=', a, lo), cmpop('<', a, hi)))
                e.assign(node_.target, a)
                try:
                    e.exec_block(node_.body)
                except (_Break, _Continue):
                    pass
                raise PathEnd()

        def join_loop(e, node_):
            """for addr, ctl in ctls_s[1:] - invariant: gs <= prev_addr < addr (prev_addr is an earlier key)"""
            fr = e.frames[-1]
            pa = fr.loc.get('prev_addr')
            e.oblige('inv.establish', cmpop('==', pa, p.gs) if isinstance(pa, (int, SV)) else False, node_)
            items = e.ev(node_.iter)
            if not isinstance(items, SortedItems):
                raise poly.Refuse('join loop over %s' % type(items).__name__)
            e.fresh_n += 1
            if e.decide(SB(z3.Bool('iterate!%d' % e.fresh_n))):
                addr = e.fresh('addr', 0, 65536)
                e.assume(and_(cmpop('>', addr, p.gs) if items.tail else cmpop('>=', addr, p.gs), cmpop('<=', addr, p.ge)))
                prev = e.fresh('prev_addr', 0, 65536)
                e.assume(and_(cmpop('>=', prev, p.gs), cmpop('<', prev, addr) if items.tail else cmpop('<=', prev, addr)))
                ctl = e.charval(addr)
                fr.loc['prev_addr'] = prev
                fr.loc['prev_ctl'] = CharVal(e.fresh('prev_ctl', 0, 255))
                ctls.forget()
                ctls.members.extend([p.gs, p.ge, addr, prev])
                e.assign(node_.target, (addr, ctl))
                try:
                    e.exec_block(node_.body)
                except (_Break, _Continue):
                    pass
                p2 = fr.loc.get('prev_addr')
                e.oblige('inv.preserve', and_(cmpop('>=', p2, p.gs), cmpop('<=', p2, addr)) if isinstance(p2, (int, SV)) else False, node_)
                raise PathEnd()
            ctls.forget()
            ctls.members.extend([p.gs, p.ge])

        def text_loop(e, node_):
            """for t_start, t_end in <text blocks of [lo, hi)>"""
            fr = e.frames[-1]
            tb = e.ev(node_.iter)
            if not isinstance(tb, TextBlocks):
                raise poly.Refuse('text loop over %s' % type(tb).__name__)
            ne = e.as_cond(tb)
            ts = e.fresh('t_start', 0, 65536)
            te = e.fresh('t_end', 0, 65536)
            e.assume(and_(cmpop('>=', ts, tb.lo), cmpop('<', ts, te), cmpop('<=', te, tb.hi)))
            e.fresh_n += 1
            if e.decide(SB(z3.Bool('iterate!%d' % e.fresh_n))):
                e.assume(ne)
                e.assign(node_.target, (ts, te))
                try:
                    e.exec_block(node_.body)
                except (_Break, _Continue):
                    pass
                raise PathEnd()
            # exit: if there was at least one block, the loop variables hold the last one
            if e.decide(ne):
                e.assign(node_.target, (ts, te))
            else:
                fr.loc['t_start'] = _Unbound('t_start', True, 0)
                fr.loc['t_end'] = _Unbound('t_end', True, 0)
        handlers = [pair_loop, addr_loop, join_loop, pair_loop, text_loop, text_loop]
        eng.loop_invariants = {(q, all_loops.index(l)): h for l, h in zip(in_slice, handlers)}

        def text_blocks_model(e, args, kwargs, n):
            return TextBlocks(args[1], args[2])
        eng.call_models[id(S._get_text_blocks)] = text_blocks_model
        p.locs = {'snapshot': UNK, 'start': p.gs, 'end': p.ge, 'config': UNK, 'rst_handler': None, 'ctls': ctls}
        p.ret = eng.run_stmts(fn, stmts, p.locs)

    def post(p, prove):
        prove('post.returns_the_dict', p.ret is p.locs.get('ctls') or isinstance(p.ret, TrackedDict))

    eng = DictEngine(inline_ok=lambda f: False, unknown_ok=True)
    FuncVC(rep, prop, fn, name, eng).run(start, post, replay_dict_phases)
    rep.assume('dict phases: invariant I (start and end are keys, all keys within [start, end], ctls[end] == "i") holds on entry: key range and the final (end, "i") append are proved for the decode loop; '
               'that the first appended key is `start` is observed by the bounded runs only')


def replay_dict_phases(vals, kind):
    """Search: images that make each phase fire (zero runs, NOP-led code, text in data and in code), any range."""
    import random
    import skoolkit.snactl as S
    from props.c14 import _Cfg, tiling_errors
    rnd = random.Random(11)
    crafted = []
    for st, ln in ((32768, 16), (40000, 30), (65536 - 20, 20)):
        for fill in ([0x41], [0x00], [0x41] * 14 + [0xC9], [0x00] * 5 + [0x41] * 5 + [0x00] * 5, [0xC9] + [0x48] * 3 + [0x00, 0x00] + [0x41] * 13, [0xAF, 0xC9, 0x00]):
            img = [0] * 65536
            for k in range(ln + 4):
                if st + k < 65536:
                    img[st + k] = fill[k % len(fill)]
            crafted.append((st, st + ln, img))
        # a NOP block up to end with a non-zero byte just beyond it; distinct text-like opcodes (LD r,r') filling the range exactly
        img = [0] * 65536
        if st + ln < 65536:
            img[st + ln] = 0xC9
        crafted.append((st, st + ln, img))
        img = [0] * 65536
        for k in range(ln):
            img[st + k] = 0x41 + (k % 23)
        crafted.append((st, st + ln, img))
        img = [0] * 65536
        for k in range(ln):
            img[st + k] = 0x41 + (k % 23) if k >= 3 else 0xAF
        crafted.append((st, st + ln, img))
    # real code (distinct 3-byte loads) whose bytes are all text characters, filling the range exactly
    code_text = [0x21, 0x41, 0x42, 0x22, 0x43, 0x44, 0x2A, 0x45, 0x46, 0x32, 0x47, 0x48, 0x3A, 0x49, 0x4A]
    for st in (32768, 65536 - 15, 50000):
        img = [0] * 65536
        img[st:st + 15] = code_text
        crafted.insert(0, (st, st + 15, img))
        img = [0] * 65536
        img[st:st + 15] = code_text
        img[st - 1] = 0xC9
        crafted.insert(0, (st - 1, st + 15, img))
    for t in range(400 + len(crafted)):
        if t < len(crafted):
            start, end, snap = crafted[t]
        else:
            start = rnd.choice((vals.get('gstart', 0), rnd.randrange(0, 65000), 65536 - rnd.randrange(2, 40)))
            start = max(0, min(start, 65534))
            end = min(65536, start + rnd.randrange(1, 80))
            snap = [0] * 65536
            a = start
            while a < end + 4 and a < 65536:
                kind_ = rnd.choice('zctnr')
                ln = rnd.randrange(1, 18)
                for k in range(ln):
                    if a >= 65536:
                        break
                    snap[a] = {'z': 0, 'c': rnd.choice((0x3E, 0x01, 0xAF, 0xC9, 0xC3, 0x18)), 't': rnd.choice((65, 66, 32, 72)), 'n': 0, 'r': rnd.randrange(256)}[kind_]
                    a += 1
        try:
            ctls = S._generate_ctls_without_code_map(snap, start, end, _Cfg(), None)
        except Exception as ex:
            return {'case': {'start': start, 'end': end, 'bytes': snap[start:min(65536, end + 4)]}, 'diffs': [('exception', repr(ex)[:200], 'none')]}
        errs = tiling_errors(ctls, start, end)
        if errs:
            return {'case': {'start': start, 'end': end, 'bytes': snap[start:min(65536, end + 4)]}, 'diffs': [('tiling', errs, 'none')]}
    return {'case': {}, 'diffs': []}


# ---------------------------------------------------------------------------
# _generate_ctls_with_code_map: steps (1), (2), (4), (6), (7)
class BlockTriples:
    """_get_blocks(ctls): [ctl, start, end] for consecutive keys (contract observed exhaustively on small dicts, see check_get_blocks)."""


class MapBlocks:
    """read_map(...): (address, length) pairs, start <= address < end, length >= 1, increasing and non-adjacent (props/c14map.py)."""


def step_slices(fn):
    node, _ = func_ast(fn)
    body = node.body
    out = {}
    for i, s in enumerate(body):
        src = ast.unparse(s)
        if isinstance(s, ast.Assign) and src.replace(' ', '') == "ctls={start:'U',end:'i'}":
            out['init'] = i
        elif isinstance(s, ast.For) and 'read_map(' in ast.unparse(s.iter):
            out['step1'] = [s]
        elif isinstance(s, ast.While) and 'step2' not in out and '_find_terminal_instruction(' in src and 'disassembly' not in src:
            out['step2'] = [s]
        elif isinstance(s, ast.While) and 'step3' not in out and 'disassembly.build(True)' in src:
            out['step3'] = [s]
        elif isinstance(s, ast.For) and '_get_blocks(ctls)' in ast.unparse(s.iter):
            if "_find_terminal_instruction(" in src:
                out['step4'] = [s]
            elif "ctl == 'U'" in src:
                out['step6'] = [s]
            elif "ctl == 'b'" in src:
                out['step7'] = [s]
    missing = [k for k in ('init', 'step1', 'step2', 'step3', 'step4', 'step6', 'step7') if k not in out]
    if missing:
        raise LookupError('_generate_ctls_with_code_map: cannot locate %s' % missing)
    return node, out


def check_code_map_steps(rep, prop='C14'):
    import skoolkit.snactl as S
    W = poly.W
    fn = S._generate_ctls_with_code_map
    try:
        node, slices = step_slices(fn)
    except LookupError as ex:
        rep.downgraded.append({'function': fn.__qualname__ + '[steps]', 'reason': str(ex)})
        return
    q = fn.__qualname__
    all_loops = sorted([n for n in ast.walk(node) if isinstance(n, (ast.For, ast.While))], key=lambda n: (n.lineno, n.col_offset))
    rep.add('%s/%s/initial_dict_is_start_U_end_i' % (prop, q), 'proved', 'syntactic', 0, 'skoolkit.snactl._generate_ctls_with_code_map[step 1]')

    for step in ('step1', 'step2', 'step3', 'step4', 'step6', 'step7'):
        stmts = slices[step]
        name = 'skoolkit.snactl._generate_ctls_with_code_map[%s]' % step.replace('step', 'step ')

        def start(eng, stmts=stmts, step=step):
            p = eng.path
            p.gs = SV(z3.BitVec('gstart', W), 0, 65535)
            p.ge = SV(z3.BitVec('gend', W), 1, 65536)
            p.facts.extend([p.gs.t >= 0, p.gs.t < p.ge.t, p.ge.t <= 65536])
            eng.gs, eng.ge = p.gs, p.ge
            ctls = TrackedDict('ctls')
            ctls.members.extend([p.gs, p.ge])
            eng.ctls = ctls

            def reset_members(*extra):
                ctls.forget()
                ctls.members.extend([p.gs, p.ge] + list(extra))

            def map_loop(e, node_):
                """for address, length in read_map(...)"""
                e.fresh_n += 1
                if e.decide(SB(z3.Bool('iterate!%d' % e.fresh_n))):
                    a = e.fresh('address', 0, 65535)
                    ln = e.fresh('length', 1, 1 << 17)
                    e.assume(and_(cmpop('>=', a, p.gs), cmpop('<', a, p.ge)))
                    e.assign(node_.target, (a, ln))
                    try:
                        e.exec_block(node_.body)
                    except _Continue:
                        pass
                    except _Break:
                        return
                    raise PathEnd()

            def blocks_loop(e, node_):
                """for ctl, b_start, b_end in _get_blocks(ctls): an arbitrary pair of consecutive keys"""
                e.fresh_n += 1
                if e.decide(SB(z3.Bool('iterate!%d' % e.fresh_n))):
                    b0 = e.fresh('b_start', 0, 65536)
                    b1 = e.fresh('b_end', 0, 65536)
                    e.assume(and_(cmpop('>=', b0, p.gs), cmpop('<', b0, b1), cmpop('<=', b1, p.ge)))
                    reset_members(b0, b1)
                    p.block_end = b1
                    e.assign(node_.target, (e.charval(b0), b0, b1))
                    try:
                        e.exec_block(node_.body)
                    except _Continue:
                        pass
                    except _Break:
                        return
                    raise PathEnd()
                reset_members()

            def forever_loop(e, node_):
                """while 1: ... if done: break  - one arbitrary pass from a state satisfying I"""
                reset_members()
                try:
                    e.exec_block(node_.body)
                except _Break:
                    return
                except _Continue:
                    pass
                raise PathEnd()

            def until_loop(e, node_):
                """while next_address < b_end: next_address = _find_terminal_instruction(...)  (invariant: b_address <= next_address)"""
                fr = e.frames[-1]
                na = fr.loc.get('next_address')
                lo = fr.loc.get('b_address')
                e.oblige('inv.establish', cmpop('>=', na, lo), node_)
                e.fresh_n += 1
                if e.decide(SB(z3.Bool('iterate!%d' % e.fresh_n))):
                    x = e.fresh('next_address', 0, 65536)
                    e.assume(cmpop('>=', x, lo))
                    fr.loc['next_address'] = x
                    e.assume(truth(e.ev_cond(node_.test)))
                    e.exec_block(node_.body)
                    e.oblige('inv.preserve', cmpop('>=', fr.loc['next_address'], lo), node_)
                    raise PathEnd()
                x = e.fresh('next_address', 0, 65536)
                e.assume(cmpop('>=', x, lo))
                fr.loc['next_address'] = x
                e.assume(not_(truth(e.ev_cond(node_.test))))

            def text_loop(e, node_):
                tb = e.ev(node_.iter)
                if not isinstance(tb, TextBlocks):
                    raise poly.Refuse('text loop over %s' % type(tb).__name__)
                ts = e.fresh('t_start', 0, 65536)
                te = e.fresh('t_end', 0, 65536)
                e.assume(and_(cmpop('>=', ts, tb.lo), cmpop('<', ts, te), cmpop('<=', te, tb.hi)))
                e.fresh_n += 1
                if e.decide(SB(z3.Bool('iterate!%d' % e.fresh_n))):
                    e.assign(node_.target, (ts, te))
                    try:
                        e.exec_block(node_.body)
                    except (_Break, _Continue):
                        pass
                    raise PathEnd()

            def entries_loop(e, node_):
                """for entry in disassembly.entries: an arbitrary entry = a block [a0, a1) of the current dictionary"""
                e.fresh_n += 1
                if e.decide(SB(z3.Bool('iterate!%d' % e.fresh_n))):
                    a0 = e.fresh('entry_address', 0, 65536)
                    a1 = e.fresh('entry_end', 0, 65536)
                    e.assume(and_(cmpop('>=', a0, p.gs), cmpop('<', a0, a1), cmpop('<=', a1, p.ge)))
                    reset_members(a0, a1)
                    from pyvc.engine import ObjModel
                    entry = ObjModel(None, name='entry')
                    e.fresh_n += 1
                    last = SB(z3.Bool('entry_is_last!%d' % e.fresh_n))
                    if e.decide(last):
                        e.assume(cmpop('==', a1, p.ge))
                        nxt = None
                    else:
                        nxt = ObjModel(None, name='entry.next')
                        nxt.attrs['address'] = a1
                    ctl = e.charval(a0)
                    entry.attrs.update({'address': a0, 'next': nxt, 'ctl': ctl, 'instructions': ('instructions', a0, a1)})
                    p.block_end = a1
                    e.assign(node_.target, entry)
                    try:
                        e.exec_block(node_.body)
                    except _Continue:
                        pass
                    except _Break:
                        return
                    raise PathEnd()
                reset_members()

            def instructions_loop(e, node_):
                it = e.ev(node_.iter)
                if not (isinstance(it, tuple) and it and it[0] == 'instructions'):
                    raise poly.Refuse('instructions loop over %r' % (it,))
                e.fresh_n += 1
                if e.decide(SB(z3.Bool('iterate!%d' % e.fresh_n))):
                    ia = e.fresh('instruction_address', 0, 65536)
                    e.assume(and_(cmpop('>=', ia, it[1]), cmpop('<', ia, it[2])))
                    from pyvc.engine import ObjModel
                    ins = ObjModel(None, name='instruction')
                    ins.attrs.update({'address': ia, 'referrers': ('referrers',), 'operation': UNK})
                    e.assign(node_.target, ins)
                    try:
                        e.exec_block(node_.body)
                    except _Continue:
                        pass
                    except _Break:
                        return
                    raise PathEnd()

            def referrers_loop(e, node_):
                e.fresh_n += 1
                if e.decide(SB(z3.Bool('iterate!%d' % e.fresh_n))):
                    ref = e.fresh('referrer', 0, 65536)
                    e.assume(and_(cmpop('>=', ref, p.gs), cmpop('<=', ref, p.ge)))
                    e.assign(node_.target, ref)
                    try:
                        e.exec_block(node_.body)
                    except _Continue:
                        pass
                    except _Break:
                        return
                    raise PathEnd()

            handlers = {}
            for l in all_loops:
                if not any(l in list(ast.walk(s)) for s in stmts):
                    continue
                if isinstance(l, ast.While):
                    h = forever_loop if ast.unparse(l.test) in ('1', 'True') else until_loop
                else:
                    it = ast.unparse(l.iter)
                    h = (map_loop if 'read_map(' in it else blocks_loop if '_get_blocks(' in it else text_loop if '_get_text_blocks(' in it else
                         entries_loop if it.replace(' ', '') == 'disassembly.entries' else instructions_loop if it.replace(' ', '') == 'entry.instructions' else
                         referrers_loop if it.replace(' ', '') == 'instruction.referrers' else None)
                if h is None:
                    raise poly.Refuse('unexpected loop in %s: %s' % (step, ast.unparse(l).split('\n')[0]))
                handlers[(q, all_loops.index(l))] = h
            eng.loop_invariants = handlers

            def fti_model(e, args, kwargs, n):
                """Call-site obligations = the precondition under which _find_terminal_instruction's own VC was proved (props/c14.py)."""
                s_, e_ = args[2], args[3]
                mode = args[5] if len(args) > 5 else kwargs.get('ctl')
                if isinstance(s_, Unknown) or isinstance(e_, Unknown):
                    e.oblige('pre._find_terminal_instruction', False, n, info='unknown bounds')
                    return UNK
                pre = [cmpop('>=', s_, p.gs), or_(cmpop('<=', s_, 65535), cmpop('>=', s_, e_)), cmpop('<=', s_, 65536), cmpop('<=', e_, p.ge), cmpop('>=', e_, 0)]
                if mode is None:
                    pre.append(cmpop('>', s_, p.gs))
                    e.oblige('pre._find_terminal_instruction.start_is_a_key', ctls.known(s_), n)
                e.oblige('pre._find_terminal_instruction', and_(*pre), n)
                if mode is not None and getattr(p, 'block_end', None) is not None:
                    # a scan started inside a block (modes 'c' / entry.ctl) must stop at that block's end: beyond it lies
                    # code the map already classified, where a marker planted after the first RET would split executed code
                    e.oblige('scan_stays_inside_the_block', cmpop('<=', e_, p.block_end), n)
                r = e.fresh('fti_result', 0, 65536)
                e.assume(and_(cmpop('>=', r, s_), or_(cmpop('<=', r, e_), cmpop('>=', s_, e_))))
                reset_members()
                return r
            eng.call_models[id(S._find_terminal_instruction)] = fti_model
            eng.call_models[id(S._get_text_blocks)] = lambda e, a, k, n: TextBlocks(a[1], a[2])
            eng.call_models[id(S._get_blocks)] = lambda e, a, k, n: BlockTriples()
            eng.call_models[id(S.decode)] = lambda e, a, k, n: UNK
            mr = CallModel(lambda e, a, k, n: MapBlocks(), 'read_map')
            from pyvc.engine import ObjModel
            map_reader = ObjModel(None, name='map_reader')
            map_reader.attrs['read_map'] = mr
            disassembly = ObjModel(None, name='disassembly')
            disassembly.attrs['remove_entry'] = CallModel(lambda e, a, k, n: None, 'remove_entry')
            disassembly.attrs['build'] = CallModel(lambda e, a, k, n: None, 'build')
            disassembly.attrs['entries'] = ('entries',)
            p.locs = {'snapshot': UNK, 'start': p.gs, 'end': p.ge, 'config': UNK, 'rst_handler': None, 'code_map': 'map', 'ctls': ctls,
                      'map_reader': map_reader, 'disassembly': disassembly}
            eng.run_stmts(fn, stmts, p.locs)

        eng = DictEngine(inline_ok=lambda f: False, unknown_ok=True)
        FuncVC(rep, prop, fn, name, eng).run(start, None, None)
    rep.assume('_generate_ctls_with_code_map: step (5) takes its keys from Disassembly objects and is not under VC; step (3) is, with Disassembly modelled by its contract (entries = the blocks of ctls, '
               'instruction addresses inside their entry, referrers inside the requested range); '
               '_get_blocks yields [ctl, key_i, key_i+1] for consecutive sorted keys (checked exhaustively on all dictionaries with keys in 0..6, not proved for arbitrary size)')


def check_get_blocks(rep, prop='C14'):
    """E (small scope): _get_blocks on every dictionary whose keys are a subset of {0..6} with at least two keys."""
    import itertools
    import skoolkit.snactl as S
    n = 0
    bad = []
    for r in range(2, 8):
        for keys in itertools.combinations(range(7), r):
            d = {k: 'bcistuw'[k] for k in keys}
            n += 1
            got = S._get_blocks(dict(d))
            exp = [[d[a], a, b] for a, b in zip(keys, keys[1:])]
            if got != exp:
                bad.append((keys, got, exp))
    rep.add_bulk(n - len(bad), 'exhaustive', 0, 'skoolkit.snactl._get_blocks', n=n)
    rep.exhaustive.append({'domain': '_get_blocks on every dictionary with >= 2 keys drawn from 0..6 (small scope, stands in for arbitrary size)', 'size': n, 'visited': n, 'complete': False})
    if bad:
        rep.violation('%s/skoolkit.snactl._get_blocks/consecutive_keys' % prop, '_get_blocks(%s) = %s, expected %s' % (dict.fromkeys(bad[0][0]), bad[0][1], bad[0][2]), {'case': {'keys': list(bad[0][0])}})
