"""C05 - The Z80 simulators implement documented Z80 instruction semantics."""
from props import common, simrun, simprops, tablecheck, simfuncs
from props.c08 import TRUSTED, ASSUME


def diff_select(name):
    return name.startswith('post.') or name.startswith('frame.') or name in ('exception',)


def run(tier):
    rep = common.Report('C05', tier, 'proof', './check C05 --tier %s' % tier)
    for t in TRUSTED:
        rep.trust(t)
    for a in ASSUME:
        rep.assume(a)
    rep.assume('F is compared under the mask of DESIGN.md section 3: 0xFF where bits 5/3 are undisputed copies, 0xD7 for SCF/CCF, BIT n,(HL)/(IX+d) and block instructions, 0xC3 (S,Z,N,C) for the repeating iteration of INIR/INDR/OTIR/OTDR')
    rep.assume('MEMPTR (registers[29]) is not specified: frame-checked for Simulator (never written), range-checked for CMIOSimulator (C08)')
    rep.assume('IFF2 is not modelled by skoolkit; RETN/RETI are specified as RET with 14 T-states')
    # E: every entry of every flag/offset/delay table against its contract
    bad = tablecheck.check_tables(rep)
    for mod, name, b in bad:
        rep.violation('C05/table/%s.%s' % (mod, name), 'table %s.%s entry %s: real %s, Z80 flag rules give %s' % (mod, name, b[1], b[2], b[3]),
                      {'table': '%s.%s' % (mod, name), 'index': b[1], 'real': b[2], 'contract': b[3],
                       'replay_cmd': 'python3 -c "import skoolkit.%s as m; print(m.%s%s)"' % (mod.split('.')[-1], name, ''.join('[%d]' % i for i in (b[1] or ())))})
    # P: every dispatch slot against z80spec.Step
    out = simrun.run_all(nx=4 if tier == 'quick' else 40)
    simprops.gather(rep, out, lambda kind, cmio: simprops.is_func(kind, cmio), diff_select, 'C05')
    simfuncs.check_accept_interrupt(rep, 'C05')
    simfuncs.check_fast_paths(rep, 'C05', tier)
    rep.extra['explanation'] = ('every one of the 7x256 dispatch slots of Simulator and CMIOSimulator (48K list memory and 128K Memory object), taken from the live '
                               'tables, is symbolically executed and its post-state (all registers, F under the documented mask, whole memory array, PC, '
                               'T for Simulator, port accesses) proved equal to contracts/z80spec.Step decoded from the slot position, for all states; '
                               'lookup tables are replaced by their contracts inside closures and checked exhaustively entry by entry')
    return rep.finish()


def replay(path):
    return simprops.replay_case(path)
