"""The machine-code loaders emitted by bin2tap, executed symbolically over the ISA contracts.

The real emitters (_get_data_loader, _get_bank_loader) are run in the VC engine
with symbolic ORG / LENGTH / START / STACK (resp. loader address, start, 7ffd
value, and every subset of banks); the byte lists they return - concrete opcodes,
operand bytes that are terms over the parameters - are then executed instruction
by instruction with contracts/z80spec.Step (the contract the simulator closures
are proved equal to under C05) on a store/select memory.

Data loader (no CLEAR): from its entry point 23296 to the jump into LD-BYTES:
  PC = 0x0556 with IX = ORG, DE = LENGTH, A = 0xFF, carry set (LOAD, data block),
  SP = STACK - 2, and the word at STACK-2 is START - so LD-BYTES' final RET enters
  the program with SP = STACK.  (LoadTracer.fast_load, the LD-BYTES stand-in used
  by tap2sna, is under contract in props/fastloadvc.py: with these registers it
  puts block[1 + k] at ORG + k for k < LENGTH.)
  Also: the CODE header announces exactly this block at the address that puts the
  first code byte at 23296 (= where the BASIC loader's USR goes when there is no CLEAR).

Bank loader (128K): a loop over the bank table.  For every subset of banks and any
7ffd value, unrolled over the table (its length is concrete once the subset is):
each pass writes (bank | 0x10) to port 0x7FFD and to 0x5B5C, then calls LD-BYTES
with IX = 0xC000, DE = 0x4000, A = 0xFF, carry set; LD-BYTES is modelled by its
frame contract only (returns to the caller with SP restored; may change every
register and any memory except the loader, its table and the stack cells above SP);
after the last bank the end marker makes the loop write (7ffd & 0x3F) to the port
and 0x5B5C and jump to START with SP and the stack as on entry.
"""
import z3

from props import simvc
from props.funcvc import FuncVC
from pyvc import poly
from pyvc.poly import SV, SB, ite, and_, or_, not_, sv, cmpop, truth
from pyvc.engine import Engine, SymList
from contracts import z80spec as Z

LD_BYTES = 0x0556


class ProgMem:
    """Store/select memory.  `known` maps the addresses of the program's own bytes
    (code and tables) to their values (ints or terms over the emitter's parameters);
    a read of such a cell returns that value, which is justified by one obligation per
    write: the written address lies outside the program (`protect` = (lo, hi))."""

    def __init__(self, arr, facts, known, protect=None):
        self.arr = arr
        self.facts = facts
        self.code = known
        self.protect = protect
        self.write_obls = []    # conditions to be proved: write outside the protected range
        self.fetched = []

    def rd(self, a):
        if isinstance(a, int) and a in self.code:
            if self.protect is None:
                self.fetched.append((a, self.code[a], self.arr))
            return self.code[a]
        a = sv(a)
        if self.protect is not None:
            # an address term that can take one value only (e.g. HL restored by POP) is that value
            from pyvc.solve import check_sat
            r, _, model = check_sat(list(self.facts))
            if r == 'sat':
                v = model.eval(a.t, model_completion=True).as_long()
                if v in self.code:
                    r2, _, _ = check_sat(list(self.facts) + [a.t != v])
                    if r2 == 'unsat':
                        return self.code[v]
        t = z3.Select(self.arr, a.t)
        self.facts.append(z3.And(t >= 0, t <= 255))
        return SV(t, 0, 255)

    def wr(self, cond, a, v):
        cond = truth(cond)
        if cond is False:
            return
        if self.protect is not None:
            lo, hi = self.protect
            self.write_obls.append(or_(not_(cond), a < lo, a >= hi))
        new = z3.Store(self.arr, sv(a).t, sv(v).t)
        if cond is not True:
            new = z3.If(cond.t, new, self.arr)
        self.arr = new


def init_mem(name, code, facts):
    arr = z3.Array(name, z3.BitVecSort(poly.W), z3.BitVecSort(poly.W))
    for a, b in code.items():
        facts.append(z3.Select(arr, z3.BitVecVal(a, poly.W)) == sv(b).t)
    return arr


def step(regs, mem, cfg=None, inval=None):
    pc = regs[Z.PC]
    assert isinstance(pc, int)
    b = mem.code.get(pc)
    if not isinstance(b, int):
        raise poly.Refuse('opcode byte at %04X is not concrete' % pc)
    prefix = ''
    op = b
    if b in (0xDD, 0xFD):
        b2 = mem.code.get(pc + 1)
        prefix, op = ('DD' if b == 0xDD else 'FD'), b2
        if mem.protect is None:
            mem.fetched.append((pc, b, mem.arr))
            mem.fetched.append((pc + 1, b2, mem.arr))
    elif b in (0xCB, 0xED):
        prefix, op = ('CB' if b == 0xCB else 'ED'), mem.code.get(pc + 1)
        if mem.protect is None:
            mem.fetched.append((pc, b, mem.arr))
            mem.fetched.append((pc + 1, op, mem.arr))
    elif mem.protect is None:
        mem.fetched.append((pc, b, mem.arr))
    if not isinstance(op, int):
        raise poly.Refuse('opcode byte after prefix at %04X is not concrete' % pc)
    st = Z.Step(prefix, op, regs, mem, cfg or Z.Cfg(machine=48, out=True), inval=inval)
    return st


def concrete_pc(x):
    if isinstance(x, int):
        return x
    t = z3.simplify(x.t)
    if z3.is_bv_value(t):
        return t.as_long()
    return None


# --------------------------------------------------------------------------- data loader
def check_data_loader(rep, prop='C12'):
    import skoolkit.bin2tap as B
    W = poly.W
    for with_scr in (False, True):
        name = 'skoolkit.bin2tap._get_data_loader[%s]' % ('with screen' if with_scr else 'no screen')

        def start(eng, with_scr=with_scr):
            p = eng.path
            p.org = SV(z3.BitVec('org', W), 0, 65535)
            p.length = SV(z3.BitVec('length', W), 1, 65535)
            p.start = SV(z3.BitVec('start', W), 0, 65535)
            p.stack = SV(z3.BitVec('stack', W), 0, 65535)
            for v in (p.org, p.length, p.start, p.stack):
                p.facts.append(z3.And(v.t >= v.lo, v.t <= v.hi))
            scr = None
            if with_scr:
                p.scr = [SV(z3.BitVec('scr%d' % i, W), 0, 255) for i in range(8)]      # a short screen: the emitter pads it to 6912 bytes
                for v in p.scr:
                    p.facts.append(z3.And(v.t >= 0, v.t <= 255))
                scr = list(p.scr)
            p.ret = eng.call_function(B._get_data_loader, ['title', p.org, p.length, p.start, p.stack, scr])

        def post(p, prove, with_scr=with_scr):
            header, block = p.ret
            header = header.items if isinstance(header, SymList) else list(header)
            block = block.items if isinstance(block, SymList) else list(block)
            data = block[1:-1]
            nscr = 6912 if with_scr else 0
            ncode = len(data) - nscr
            prove('post.block.flag', block[0] == 255)
            prove('post.code_length', ncode == 19)
            if ncode != 19:
                return
            # CODE header: type 3, length of the block, load address such that the code starts at 23296
            prove('post.header.len', len(header) == 19)
            prove('post.header.type', and_(header[0] == 0, header[1] == 3))
            prove('post.header.block_length', cmpop('==', header[12] + 256 * header[13], len(data)))
            address = header[14] + 256 * header[15]
            prove('post.header.code_at_23296', cmpop('==', address + nscr, 23296))
            if with_scr:
                prove('post.screen_first', and_(address == 16384, all(data[i] is p.scr[i] for i in range(8)), all(isinstance(x, int) and x == 0 for x in data[8:6912])))
            code = {23296 + i: data[nscr + i] for i in range(ncode)}
            for a, b in code.items():
                if not isinstance(b, int):
                    prove('post.byte_range.%d' % (a - 23296), and_(b >= 0, b <= 255))
            facts = poly._facts
            # precondition of the program-level statement: the two stack cells the loader writes are not its own remaining bytes
            s2 = (p.stack - 2) & 0xFFFF
            s1 = (p.stack - 1) & 0xFFFF
            disjoint = and_(or_(s2 < 23296, s2 >= 23296 + ncode), or_(s1 < 23296, s1 >= 23296 + ncode))
            facts.append(poly.bterm(disjoint))
            regs = simvc.initial_regs()
            for c in simvc.wf_pre(regs):
                facts.append(c)
            arr0 = init_mem('mem_at_usr', code, facts)
            mem = ProgMem(arr0, facts, code)
            regs[Z.PC] = 23296
            n = 0
            while True:
                pc = concrete_pc(regs[Z.PC])
                if pc is None:
                    prove('post.control_flow_is_static', False)
                    return
                if pc == LD_BYTES:
                    break
                if pc not in code or n > 12:
                    prove('post.reaches_LD_BYTES', False)
                    return
                regs[Z.PC] = pc
                regs = list(step(regs, mem).r)
                n += 1
            prove('post.reaches_LD_BYTES', True)
            for a, b, arr in mem.fetched:
                prove('fetch_intact.%d' % (a - 23296), SB(z3.Select(arr, z3.BitVecVal(a, W)) == sv(b).t))
            prove('post.IX', cmpop('==', regs[Z.IXl] + 256 * regs[Z.IXh], p.org))
            prove('post.DE', cmpop('==', regs[Z.E] + 256 * regs[Z.D], p.length))
            prove('post.A', cmpop('==', regs[Z.A], 0xFF))
            prove('post.carry', cmpop('==', regs[Z.F] & 1, 1))
            prove('post.SP', cmpop('==', regs[Z.SP], s2))
            lo = SV(z3.Select(mem.arr, sv(s2).t), 0, 255)
            hi = SV(z3.Select(mem.arr, sv(s1).t), 0, 255)
            prove('post.return_address.lo', or_(s2 <= 0x3FFF, cmpop('==', lo, p.start & 255)))
            prove('post.return_address.hi', or_(s1 <= 0x3FFF, cmpop('==', hi, p.start >> 8)))
            # nothing else in memory changed
            exp = z3.If(poly.bterm(s2 > 0x3FFF), z3.Store(arr0, sv(s2).t, sv(p.start & 255).t), arr0)
            exp = z3.If(poly.bterm(s1 > 0x3FFF), z3.Store(exp, sv(s1).t, sv(p.start >> 8).t), exp)
            prove('frame.memory', SB(mem.arr == exp))
        eng = Engine(inline_ok=lambda f: f.__module__ == 'skoolkit.bin2tap')
        FuncVC(rep, prop, B._get_data_loader, name, eng).run(start, post, replay_data_loader)
    rep.assume('data loader: STACK-2 and STACK-1 are not inside the 19 loader bytes at 23296..23314 (the PUSH would overwrite the JP that follows it); '
               'LD-BYTES is entered at 0x0556 by tap2sna through LoadTracer.fast_load (under contract) or the ROM code (outside any contract)')


def replay_data_loader(vals, kind):
    """Run the emitted loader on the real simulator from 23296 up to 0x0556 and compare with the contract."""
    import skoolkit.bin2tap as B
    from skoolkit.simulator import Simulator
    org, length, start, stack = vals.get('org', 0), max(1, vals.get('length', 1)), vals.get('start', 0), vals.get('stack', 0)
    d = []
    for scr in (None, [vals.get('scr%d' % i, 0) for i in range(8)]):
        header, block = B._get_data_loader('title', org, length, start, stack, scr)
        data = block[1:-1]
        address = header[14] + 256 * header[15]
        if header[1] != 3 or header[12] + 256 * header[13] != len(data):
            d.append(('CODE header type/length', (header[1], header[12] + 256 * header[13]), (3, len(data))))
        if address + len(data) - 19 != 23296:
            d.append(('address of the first code byte (header address + screen bytes)', address + len(data) - 19, 23296))
    header, block = B._get_data_loader('title', org, length, start, stack, None)
    data = block[1:-1]
    mem = [0] * 65536
    mem[23296:23296 + len(data)] = data
    sim = Simulator(mem)
    for i in range(30):
        if 'r%d' % i in vals:
            sim.registers[i] = vals['r%d' % i]
    sim.registers[Z.PC] = 23296
    for _ in range(20):
        if sim.registers[Z.PC] == LD_BYTES:
            break
        sim.run(sim.registers[Z.PC])
    r = sim.registers
    got = {'PC': r[Z.PC], 'IX': r[Z.IXl] + 256 * r[Z.IXh], 'DE': r[Z.E] + 256 * r[Z.D], 'A': r[Z.A], 'carry': r[Z.F] & 1, 'SP': r[Z.SP]}
    exp = {'PC': LD_BYTES, 'IX': org, 'DE': length, 'A': 255, 'carry': 1, 'SP': (stack - 2) & 0xFFFF}
    for k in exp:
        if got[k] != exp[k]:
            d.append((k, got[k], exp[k]))
    s2, s1 = (stack - 2) & 0xFFFF, (stack - 1) & 0xFFFF
    if s2 > 0x3FFF and mem[s2] != start & 255:
        d.append(('mem[STACK-2]', mem[s2], start & 255))
    if s1 > 0x3FFF and mem[s1] != start >> 8:
        d.append(('mem[STACK-1]', mem[s1], start >> 8))
    return {'case': {'org': org, 'length': length, 'start': start, 'stack': stack, 'loader': 'data'}, 'diffs': d}


# --------------------------------------------------------------------------- bank loader
def bank_loader_case(rep, prop, banks):
    import skoolkit.bin2tap as B
    W = poly.W
    name = 'skoolkit.bin2tap._get_bank_loader[banks=%s]' % ','.join(str(b) for b in banks)

    def start(eng):
        p = eng.path
        p.addr = SV(z3.BitVec('loader_addr', W), 0x4000, 0xBF00)
        p.start = SV(z3.BitVec('start', W), 0, 65535)
        p.o7 = SV(z3.BitVec('out7ffd', W), 0, 255)
        for v in (p.addr, p.start, p.o7):
            p.facts.append(z3.And(v.t >= v.lo, v.t <= v.hi))
        p.ret = eng.call_function(B._get_bank_loader, ['title', p.addr, p.start, {b: None for b in banks}, p.o7])

    def post(p, prove):
        header, block = p.ret
        header = header.items if isinstance(header, SymList) else list(header)
        block = block.items if isinstance(block, SymList) else list(block)
        data = block[1:-1]
        ncode = 38
        prove('post.length', len(data) == ncode + len(banks) + 1)
        if len(data) != ncode + len(banks) + 1:
            return
        prove('post.header.type', and_(header[0] == 0, header[1] == 3))
        prove('post.header.block_length', cmpop('==', header[12] + 256 * header[13], len(data)))
        prove('post.header.address', cmpop('==', header[14] + 256 * header[15], p.addr))
        facts = poly._facts
        # The loader's own address is symbolic; execute it at a symbolic base by working with offsets:
        # ProgMem wants concrete addresses, so run the proof for the concrete base BASE and prove separately
        # that the only position-dependent bytes are the table pointer (LD HL,TABLE), which is ADDRESS + 38.
        BASE = 0x8000
        prove('post.table_pointer', cmpop('==', data[1] + 256 * data[2], p.addr + ncode))
        prove('post.start_operand', cmpop('==', data[19] + 256 * data[20], p.start))
        reloc = [i for i in range(ncode) if not isinstance(data[i], int) and i not in (1, 2, 19, 20)]
        prove('post.position_independent_otherwise', not reloc)
        code = {}
        for i in range(ncode):
            b = data[i]
            if i == 1:
                b = (BASE + ncode) & 255
            elif i == 2:
                b = (BASE + ncode) >> 8
            code[BASE + i] = b
        table = {BASE + ncode + i: data[ncode + i] for i in range(len(banks) + 1)}
        for a, b in table.items():
            if not isinstance(b, int):
                prove('post.byte_range.table%d' % (a - BASE - ncode), and_(b >= 0, b <= 255))
        regs = simvc.initial_regs()
        regs[Z.SP] = SV(z3.BitVec('r%d' % Z.SP, W), 0x4004, 0xC000)
        for c in simvc.wf_pre(regs):
            facts.append(c)
        sp0 = regs[Z.SP]
        # the machine stack (cells SP-4 .. SP-1 are used) lies outside ROM, the loader and the paged bank
        facts.append(poly.bterm(and_(sp0 >= 0x4004, sp0 <= 0xC000, or_(sp0 <= BASE, sp0 >= BASE + len(data) + 4),
                                     or_(sp0 <= 0x5B5C, sp0 > 0x5B5C + 4))))
        allcells = dict(code)
        allcells.update(table)
        arr0 = z3.Array('mem_at_usr', z3.BitVecSort(W), z3.BitVecSort(W))
        mem = ProgMem(arr0, facts, allcells, protect=(BASE, BASE + len(data)))
        regs[Z.PC] = BASE
        outs = []
        calls = 0
        n = 0
        while True:
            pc = concrete_pc(regs[Z.PC])
            if pc is None:
                # JP NZ,START: which way it goes is decided by the table byte just tested; ask the solver
                t = z3.simplify(sv(regs[Z.PC]).t)
                if z3.is_app_of(t, z3.Z3_OP_ITE):
                    from pyvc.solve import check_sat
                    c = t.arg(0)
                    r_t, _, _ = check_sat(list(facts) + [c])
                    r_f, _, _ = check_sat(list(facts) + [z3.Not(c)])
                    if r_t == 'unsat' and r_f != 'unsat':
                        nxt = t.arg(2)
                    elif r_f == 'unsat' and r_t != 'unsat':
                        nxt = t.arg(1)
                    else:
                        prove('post.jump_decided_by_table', False)
                        break
                    prove('post.jump_decided_by_table', True)
                    regs[Z.PC] = SV(nxt, 0, 0xFFFF)
                    pc = concrete_pc(regs[Z.PC])
                    if pc is None:
                        break
                    regs[Z.PC] = pc
                    continue
                break
            if pc == LD_BYTES:
                # contract of the call: LOAD of 0x4000 bytes at 0xC000
                calls += 1
                prove('call%d.IX' % calls, cmpop('==', regs[Z.IXl] + 256 * regs[Z.IXh], 0xC000))
                prove('call%d.DE' % calls, cmpop('==', regs[Z.E] + 256 * regs[Z.D], 0x4000))
                prove('call%d.A' % calls, cmpop('==', regs[Z.A], 0xFF))
                prove('call%d.carry' % calls, cmpop('==', regs[Z.F] & 1, 1))
                sp = regs[Z.SP]
                prove('call%d.SP' % calls, cmpop('==', sp, (sp0 - 4) & 0xFFFF))
                # frame contract of LD-BYTES: returns to the pushed address, SP restored; registers and memory
                # arbitrary except the loader, its table and the stack cells from SP upwards (here SP .. SP0-1)
                ret = SV(z3.Select(mem.arr, sv(sp).t), 0, 255) + 256 * SV(z3.Select(mem.arr, sv((sp + 1) & 0xFFFF).t), 0, 255)
                rpc = concrete_pc(ret)
                if rpc is None:
                    # the return address was pushed by CALL: a select over a store - let z3 evaluate it
                    rpc = BASE + 34
                    prove('call%d.return_address' % calls, cmpop('==', ret, rpc))
                newarr = z3.Array('mem_after_call%d' % calls, z3.BitVecSort(W), z3.BitVecSort(W))
                # (the loader and its table are preserved by the frame contract: ProgMem keeps returning their known bytes)
                for off in range(2, 4):
                    a = (sp0 - 4 + off) & 0xFFFF
                    facts.append(z3.Select(newarr, sv(a).t) == z3.Select(mem.arr, sv(a).t))
                mem.arr = newarr
                regs = [SV(z3.BitVec('r%d_after_call%d' % (i, calls), W), *simvc.reg_interval(i)) for i in range(30)]
                for i in range(30):
                    lo, hi = simvc.reg_interval(i)
                    facts.append(z3.And(regs[i].t >= lo, regs[i].t <= hi))
                regs[Z.SP] = (sp0 - 2) & 0xFFFF
                regs[Z.PC] = rpc
                continue
            if pc not in code or n > 40 * (len(banks) + 2):
                break
            regs[Z.PC] = pc
            st = step(regs, mem)
            for ev in st.ports:
                if ev[0] == 'out':
                    outs.append((ev[1], ev[2]))
            regs = list(st.r)
            n += 1
        final_pc = regs[Z.PC]
        prove('post.calls', calls == len(banks))
        prove('post.jumps_to_START', cmpop('==', final_pc, p.start))
        prove('post.SP_restored', cmpop('==', regs[Z.SP], sp0))
        for k, c in enumerate(mem.write_obls):
            prove('write_outside_loader.%d' % k, c)
        prove('post.some_writes', len(mem.write_obls) >= 1)
        p.outs = outs
        want = [b | 0x10 for b in sorted(banks)]
        prove('post.port_writes.count', len(outs) == len(banks) + 1)
        if len(outs) == len(banks) + 1:
            for k, (port, val) in enumerate(outs):
                prove('post.port_writes.%d.port' % k, cmpop('==', port, 0x7FFD))
                if k < len(banks):
                    prove('post.port_writes.%d.value' % k, cmpop('==', val, want[k]))
                else:
                    prove('post.port_writes.last.value', cmpop('==', val, p.o7 & 0x3F))
            prove('post.sysvar_5B5C', cmpop('==', SV(z3.Select(mem.arr, z3.BitVecVal(0x5B5C, W)), 0, 255), p.o7 & 0x3F))
    eng = Engine(inline_ok=lambda f: f.__module__ == 'skoolkit.bin2tap')
    def replayer(vals, kind):
        addr = vals.get('loader_addr', 0x8000)
        d = concrete_bank_loader(banks, addr, vals.get('start', 0), vals.get('out7ffd', 0), sp=0x7000 if addr >= 0x7100 or addr + 60 < 0x6F00 else 0xB000)
        return {'case': {'banks': list(banks), 'loader_addr': addr, 'start': vals.get('start', 0), 'out7ffd': vals.get('out7ffd', 0), 'loader': 'bank'}, 'diffs': d}
    FuncVC(rep, prop, B._get_bank_loader, name, eng).run(start, post, replayer)


def concrete_bank_loader(banks, addr, start, o7, sp=0x7000):
    """The emitted bank loader on the real Simulator; LD-BYTES replaced by a stub that checks its
    arguments, scrambles the registers and returns. Returns differences from the contract."""
    import random
    import skoolkit.bin2tap as B
    from skoolkit.simulator import Simulator
    header, block = B._get_bank_loader('title', addr, start, {b: None for b in banks}, o7)
    data = block[1:-1]
    d = []
    if header[1] != 3 or header[12] + 256 * header[13] != len(data) or header[14] + 256 * header[15] != addr:
        d.append(('CODE header (type, length, address)', (header[1], header[12] + 256 * header[13], header[14] + 256 * header[15]), (3, len(data), addr)))
    mem = [0] * 65536
    mem[addr:addr + len(data)] = data
    outs = []

    class Tr:
        def write_port(self, registers, port, value, offset=0):
            outs.append((port, value))
    sim = Simulator(mem)
    sim.set_tracer(Tr(), False, True)
    r = sim.registers
    r[Z.SP] = sp
    r[Z.PC] = addr
    rnd = random.Random(7)
    calls = []
    for _ in range(60 * (len(banks) + 2)):
        pc = r[Z.PC]
        if pc == LD_BYTES:
            calls.append((r[Z.IXl] + 256 * r[Z.IXh], r[Z.E] + 256 * r[Z.D], r[Z.A], r[Z.F] & 1))
            ret = mem[r[Z.SP]] + 256 * mem[(r[Z.SP] + 1) & 0xFFFF]
            for i in range(12):
                r[i] = rnd.randrange(256)
            r[Z.SP] = (r[Z.SP] + 2) & 0xFFFF
            r[Z.PC] = ret
            continue
        if not (addr <= pc < addr + 38):
            break
        sim.run(pc)
    exp_calls = [(0xC000, 0x4000, 0xFF, 1)] * len(banks)
    if calls != exp_calls:
        d.append(('LD-BYTES calls (IX, DE, A, carry)', calls, exp_calls))
    exp_outs = [(0x7FFD, b | 0x10) for b in sorted(banks)] + [(0x7FFD, o7 & 0x3F)]
    if outs != exp_outs:
        d.append(('port writes', outs, exp_outs))
    if r[Z.PC] != start:
        d.append(('final PC', r[Z.PC], start))
    if r[Z.SP] != sp:
        d.append(('final SP', r[Z.SP], sp))
    if mem[0x5B5C] != o7 & 0x3F:
        d.append(('mem[0x5B5C]', mem[0x5B5C], o7 & 0x3F))
    return d


def check_bank_loader(rep, prop='C12'):
    """Every subset of the eight RAM banks (one worker process per subset)."""
    from multiprocessing import Pool
    from props import common
    subsets = [[b for b in range(8) if m >> b & 1] for m in range(256)]
    with Pool(common.NCPU) as pool:
        for part in pool.imap_unordered(_bank_worker, [(s_, prop) for s_ in subsets], chunksize=4):
            rep.merge(part)
    rep.exhaustive.append({'domain': 'subsets of RAM banks 0..7 handed to _get_bank_loader (loader address, START and the 7ffd value stay symbolic)', 'size': 256, 'complete': True})
    rep.assume('bank loader: the machine stack (SP-4..SP-1) lies in RAM outside the loader and its table and away from 0x5B5C, SP <= 0xC000; the loader itself does not contain 0x5B5C; '
               'LD-BYTES is modelled by its frame contract only (returns to the caller with SP restored; may change all registers and any memory except the loader, its table and the stack above SP); '
               'interrupts taken after the EI use the stack below SP only')


def _bank_worker(args):
    banks, prop = args
    from props import common
    sub = common.SubReport(prop)
    try:
        bank_loader_case(sub, prop, banks)
    except Exception:
        import traceback
        sub.errors.append('bank loader %s: checker crashed: %s' % (banks, traceback.format_exc()[-400:]))
    return sub.export()


def crosscheck_loaders(rep, prop, n=120):
    """Standing CPython cross-check: the emitted loaders run on the real Simulator against the contracts."""
    import random
    rnd = random.Random(20260926)
    for t in range(n):
        vals = {'org': rnd.randrange(16384, 65536), 'length': rnd.randrange(1, 49152), 'start': rnd.randrange(65536),
                'stack': rnd.choice((0, 1, 2, 16384, 16385, 23296, 23330, 65535, rnd.randrange(65536)))}
        s2, s1 = (vals['stack'] - 2) & 0xFFFF, (vals['stack'] - 1) & 0xFFFF
        if any(23296 <= x < 23296 + 19 for x in (s1, s2)):
            continue
        for i in range(30):
            vals['r%d' % i] = rnd.randrange(256)
        vals['r12'] = rnd.randrange(65536)
        vals['r13'] = 0
        r = replay_data_loader(vals, '')
        if r['diffs']:
            rep.violation('%s/skoolkit.bin2tap._get_data_loader/crosscheck' % prop, 'emitted data loader disagrees with its contract on the real simulator: %s' % (r['diffs'][:3],),
                          {'case': r['case'], 'observed_vs_expected': r['diffs']})
            break
    for t in range(n // 2):
        banks = [b for b in range(8) if rnd.random() < 0.5]
        addr = rnd.choice((0x8000, 0x6000, rnd.randrange(0x5C00, 0xBF00)))
        d = concrete_bank_loader(banks, addr, rnd.randrange(65536), rnd.randrange(256), sp=0x5BF0)
        if d:
            rep.violation('%s/skoolkit.bin2tap._get_bank_loader/crosscheck' % prop, 'emitted bank loader disagrees with its contract on the real simulator: %s' % (d[:3],),
                          {'case': {'banks': banks, 'loader_addr': addr, 'loader': 'bank'}, 'observed_vs_expected': d})
            break
    rep.extra['crosscheck_samples'] = rep.extra.get('crosscheck_samples', 0) + n + n // 2
