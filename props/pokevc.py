"""C09: the cell-writing kernel of snapshot.poke under contract.

Slice of the real function, re-read on every run: the statement that builds
poke_f from the value text (`^v`, `+v`, `v`), the unpacking of (addr1, addr2,
step) from the parsed address list, and the final `if page is None: ... elif
hasattr(snapshot, 'banks'): ...` statement with its two loops.  Dropped: the
splitting of the spec string, _get_page and the int parsing (get_int_param is
abstracted: returns the byte value / the addresses).

Contract, for 0 <= addr1, addr2 <= 65535, 1 <= step <= 65535, value in 0..255:
  unpaged (flat 64K memory):  for every j with addr1 + j*step <= addr2 the cell
      addr1 + j*step holds f(old), every other cell is unchanged;
  paged (`p:` prefix, 128K):  the same on bank p % 8 at offset (address % 0x4000)
      when the range spans fewer than 0x4000 addresses; every other bank is not
      touched (no store reaches it);
  f = (b ^ v), ((b + v) & 255) or v according to the operator.
The loop `for a in range(addr1, addr2 + 1, step)` is treated with an inductive
invariant over the number k of cells done, its memory part stated for one arbitrary
index j and one arbitrary cell c (Skolem constants): j < k => cell(addr1 + j*step)
== f(old); c not of the form addr1 + j'*step with j' < k => cell(c) == old.  The
second part is stated through a witness-free characterisation: c is untouched if
c < addr1, or c >= addr1 + k*step, or (c - addr1) mod step != 0.

Unpaged form with a *symbolic* step (1..65535): `mod` by an unknown is avoided - the
Skolem cell's distance is q_c*step + r_c with 0 <= r_c < step (ghost quotient and
remainder), "on the grid" is r_c == 0, (k+1)*step is carried as k*step + step, and
instances of two lemmas proved over the integers (arithmetic_lemmas: div_unique,
mul_mono) are added as facts.  The bank-prefixed form keeps the explicit step list.
"""
import ast
import os
import random

import z3

from props.funcvc import FuncVC
from pyvc import poly
from pyvc.poly import SV, SB, ite, and_, or_, not_, sv, cmpop, truth
from pyvc.engine import Engine, ObjModel, SymList, SymMem, UNK, PathEnd, func_ast, CallModel


def poke_slice():
    import skoolkit.snapshot as S
    node, _ = func_ast(S.poke)
    body = node.body
    out = []
    for s in body:
        if isinstance(s, ast.Try) and any(isinstance(n, ast.Lambda) for n in ast.walk(s)):
            out.append(s)
        elif isinstance(s, ast.Assign) and ast.unparse(s.targets[0]).replace(' ', '') in ('addr1,addr2,step', '(addr1,addr2,step)'):
            out.append(s)
        elif isinstance(s, ast.If) and ast.unparse(s.test).replace(' ', '') == 'pageisNone':
            out.append(s)
    if len(out) != 3:
        raise LookupError('poke: expected the poke_f try-block, the (addr1, addr2, step) assignment and the final if; found %d' % len(out))
    loops = sorted([n for n in ast.walk(out[2]) if isinstance(n, (ast.For, ast.While))], key=lambda n: (n.lineno, n.col_offset))
    if len(loops) != 2:
        raise LookupError('poke: expected two loops in the final statement')
    all_loops = sorted([n for n in ast.walk(node) if isinstance(n, (ast.For, ast.While))], key=lambda n: (n.lineno, n.col_offset))
    return out, [all_loops.index(l) for l in loops]


def f_spec(op, b, v):
    if op == '^':
        return b ^ v
    if op == '+':
        return (b + v) & 255
    return v


STEPS = (1, 2, 3, 7, 16, 255, 256, 257, 4096)


class PokeEngine(Engine):
    """A subscript of the paged Memory object itself (its flat 64K view) reads some byte - which
    bank it comes from depends on the paging state, so nothing is known about it."""

    def getitem(self, base, idx, node):
        if isinstance(base, ObjModel) and base.name == 'memory' and isinstance(idx, (int, SV)):
            return self.fresh('flat_view_byte', 0, 255)
        return super().getitem(base, idx, node)

    def setitem(self, base, idx, v, node):
        if isinstance(base, ObjModel) and base.name == 'memory':
            self.oblige('paged_poke_writes_the_named_bank_only', False, node)
            return
        return super().setitem(base, idx, v, node)


QUICK_STEPS = (1, 3, 256)


def poke_cases(steps=STEPS):
    cases = []
    for op in ('^', '+', ''):
        for paged in (False, True):
            cases.append((op, 1, paged, None))
            cases.append((op, 2, paged, None))
            for st in steps:
                cases.append((op, 3, paged, st))
    return cases


def poke_case(rep, prop, case):
    import skoolkit.snapshot as S
    W = poly.W
    stmts, loop_ix = poke_slice()
    q = S.poke.__qualname__
    op, nvals, paged, cstep = case
    name = 'skoolkit.snapshot.poke[kernel; op=%r, %d address field(s)%s, %s]' % (op, nvals, '' if cstep is None else ' step symbolic (1..65535)' if cstep == 'sym' else ' step=%d' % cstep, 'bank-prefixed' if paged else 'unpaged')

    def start(eng, op=op, nvals=nvals, paged=paged, cstep=cstep):
        p = eng.path
        p.v = SV(z3.BitVec('value', W), 0, 255)
        p.a1 = SV(z3.BitVec('addr1', W), 0, 65535)
        p.a2 = SV(z3.BitVec('addr2', W), 0, 65535)
        p.st = SV(z3.BitVec('step', W), 1, 65535) if cstep == 'sym' else cstep if cstep is not None else 1
        for x in (p.v, p.a1, p.a2) + ((p.st,) if cstep == 'sym' else ()):
            p.facts.append(z3.And(x.t >= x.lo, x.t <= x.hi))
        values = [p.a1, p.a2, p.st][:nvals]
        p.lo = p.a1
        p.hi = p.a2 if nvals >= 2 else p.a1
        p.step = p.st if nvals == 3 else 1
        p.j = SV(z3.BitVec('j_any', W), 0, 65535)
        p.c = SV(z3.BitVec('c_any', W), 0, 65535)
        p.facts.append(z3.And(p.j.t >= 0, p.j.t <= 65535, p.c.t >= 0, p.c.t <= 65535))
        if paged:
            p.facts.append(sv(p.hi - p.lo).t < 0x4000)
            banks = [SymMem('bank%d' % b, size=0x4000) for b in range(8)]
            p.banks = banks
            p.page = eng.fresh('page', 0, 255)
            snapshot = ObjModel(None, name='memory')
            snapshot.attrs['banks'] = SymList(list(banks), 'banks')     # indexed by page % 8: the engine forks per bank
            p.mem = None
            page = p.page
        else:
            p.mem = SymMem('mem')
            snapshot = p.mem
            page = None
        eng.call_models[id(S.get_int_param)] = lambda e, a, k, n: p.v

        def cell_of(a):
            return (a % 0x4000) if paged else a

        sym = not isinstance(p.step, int)

        def rel_of(c):
            if paged:
                cc = c & 0x3FFF
                return cc, (cc - (p.lo & 0x3FFF)) & 0x3FFF       # distance from the first poked offset, modulo the bank size
            return c, c - p.lo

        if sym:
            # Euclidean division of the Skolem cell's distance by the symbolic step: rel == qc*step + rc, 0 <= rc < step
            # (such qc, rc exist for every rel >= 0 and step >= 1); "on the grid" is then rc == 0 - no mod by an unknown
            p.qc = SV(z3.BitVec('q_c', W), 0, 65535)
            p.rc = SV(z3.BitVec('r_c', W), 0, 65535)
            _, rel_c = rel_of(p.c)
            p.facts.append(z3.And(p.qc.t >= 0, p.qc.t <= 65535, p.rc.t >= 0, p.rc.t < sv(p.step).t))
            p.facts.append(z3.Implies(sv(rel_c).t >= 0, sv(rel_c).t == sv(p.qc * p.step + p.rc).t))

        def untouched_at(arr, k, c, pk=None, grid=None):
            """cell c (an address in the unpaged case, a bank offset in the paged one) is not among the first k poked cells => unchanged"""
            cc, rel = rel_of(c)
            if pk is None:
                pk = k * p.step
            if grid is not None:
                on_grid = grid
            elif isinstance(p.step, int):
                on_grid = True if p.step == 1 else cmpop('==', rel % p.step, 0)
            else:
                on_grid = SB(z3.URem(z3.If(sv(rel).t >= 0, sv(rel).t, z3.BitVecVal(0, W)), sv(p.step).t) == 0)
            hit = and_(cmpop('>=', rel, 0), cmpop('<', rel, pk), on_grid)
            return or_(hit, SB(z3.Select(arr, sv(cc).t) == z3.Select(p.mem.arr0, sv(cc).t)))

        def mem_inv(arr, k, pk=None):
            aj = p.lo + p.j * p.step
            old_j = SV(z3.Select(p.mem.arr0, sv(cell_of(aj)).t), 0, 255)
            done = or_(not_(and_(cmpop('<', p.j, k), cmpop('<=', aj, 65535))), SB(z3.Select(arr, sv(cell_of(aj)).t) == sv(f_spec(op, old_j, p.v)).t))
            return and_(done, untouched_at(arr, k, p.c, pk, SB(p.rc.t == 0) if sym else None))

        def loop(e, node_):
            fr = e.frames[-1]
            if paged:
                p.mem = fr.loc['bank']
                p.pb = banks.index(p.mem)
                e.oblige('bank_is_page_mod_8', cmpop('==', p.page % 8, p.pb), node_)
            k = e.fresh('k', 0, 65536)
            arr = z3.Array('mem_k', z3.BitVecSort(W), z3.BitVecSort(W))
            e.oblige('inv.establish', SB(p.mem.arr == p.mem.arr0), node_)
            # range arguments as the code wrote them
            rng = [e.ev(a_) for a_ in node_.iter.args]
            if len(rng) != 3:
                raise poly.Refuse('poke loop is not range(a, b, step)')
            r_lo, r_hi, r_st = rng
            e.oblige('range_is_addr1_to_addr2_inclusive', and_(cmpop('==', r_lo, p.lo), cmpop('==', r_hi, p.hi + 1), cmpop('==', r_st, p.step)), node_)
            e.assume(cmpop('<=', p.lo + k * p.step, p.hi + p.step))
            p.mem.arr = arr
            pk = k * p.step
            if sym:
                # instances of the two arithmetic lemmas (proved once over the integers, see arithmetic_lemmas; all
                # products stay below 2**33, so the W-bit products are the integer ones):
                #   div_unique(qc, rc, k):  qc*step + rc == k*step  =>  rc == 0 and qc == k
                #   mul_mono(j, k):         j < k  =>  j*step + step <= k*step;      j == k  =>  j*step == k*step
                qs, js = p.qc * p.step, p.j * p.step
                e.assume(SB(z3.Implies(sv(qs + p.rc).t == sv(pk).t, z3.And(p.rc.t == 0, p.qc.t == sv(k).t))))
                e.assume(SB(z3.Implies(p.j.t < sv(k).t, sv(js + p.step).t <= sv(pk).t)))
                e.assume(SB(z3.Implies(p.j.t == sv(k).t, sv(js).t == sv(pk).t)))
            e.assume(mem_inv(arr, k, pk))
            # the universally quantified 'untouched' part of the hypothesis, instantiated at the cell poked next
            # (its distance is k*step itself, so it is on the grid whatever the step)
            e.assume(untouched_at(arr, k, cell_of(p.lo + pk), pk, True if sym else None))
            e.fresh_n += 1
            if e.decide(SB(z3.Bool('iterate!%d' % e.fresh_n))):
                a = p.lo + pk
                e.assume(cmpop('<', a, r_hi))
                e.assign(node_.target, a)
                e.exec_block(node_.body)
                e.oblige('inv.preserve', mem_inv(p.mem.arr, k + 1, (pk + p.step) if sym else None), node_)
                raise PathEnd()
            # exit: k is the number of terms of the range
            e.assume(not_(cmpop('<', p.lo + pk, r_hi)))
            p.ghost = (k, arr)
        eng.loop_invariants = {(q, i): loop for i in loop_ix}
        val = {'^': '^1', '+': '+1', '': '1'}[op]
        p.locs = {'snapshot': snapshot, 'param_str': 'spec', 'val': val, 'page': page, 'values': SymList(list(values), 'values')}
        eng.run_stmts(S.poke, stmts, p.locs)

    def post(p, prove, paged=paged):
        if hasattr(p, 'ghost'):
            k, arr = p.ghost
            prove('post.memory_is_loop_result', SB(p.mem.arr == arr))
        elif p.mem is not None:
            prove('post.no_loop_means_no_change', SB(p.mem.arr == p.mem.arr0))
        if paged:
            for b in range(8):
                if b != getattr(p, 'pb', None):
                    prove('frame.bank%d' % b, len(p.banks[b].writes) == 0)
    eng = PokeEngine(inline_ok=lambda f: False, unknown_ok=True)
    import time as _t
    _t0 = _t.time()
    FuncVC(rep, prop, S.poke, name, eng).run(start, post, replay_poke)
    if os.environ.get('POKEVC_TIMING'):
        print('%6.1fs %s' % (_t.time() - _t0, name), flush=True)


def _poke_worker(args):
    case, prop = args
    from props import common
    sub = common.SubReport(prop)
    try:
        poke_case(sub, prop, case)
    except Exception:
        import traceback
        sub.errors.append('poke kernel %s: checker crashed: %s' % (case, traceback.format_exc()[-400:]))
    return sub.export()


def arithmetic_lemmas(rep, prop):
    """The two facts about products with an unknown step that the symbolic-step invariant uses, proved over the
    mathematical integers (z3, nonlinear integer arithmetic); poke_case assumes instances of them in the bit-vector VCs,
    where every product stays below 2**33 < 2**(W-1), so the W-bit product is the integer product."""
    import time
    q, k, s_, r, j = z3.Ints('q k s r j')
    fn = 'skoolkit.snapshot.poke[arithmetic lemmas for a symbolic step]'
    for name, hyp, concl in (
            ('div_unique', z3.And(s_ >= 1, r >= 0, r < s_, q >= 0, k >= 0, q * s_ + r == k * s_), z3.And(r == 0, q == k)),
            ('mul_mono', z3.And(s_ >= 1, j >= 0, j < k), j * s_ + s_ <= k * s_)):
        sol = z3.Solver()
        sol.set('timeout', 60000)
        sol.add(hyp, z3.Not(concl))
        t0 = time.time()
        res = sol.check()
        oid = '%s/%s/lemma.%s' % (prop, fn, name)
        rep.add(oid, 'proved' if res == z3.unsat else 'unknown' if res == z3.unknown else 'failed', 'z3-nia', time.time() - t0, fn)
        rep.sample({'id': oid, 'result': str(res), 'backend': 'z3-nia', 'seconds': round(time.time() - t0, 4)})
        if res == z3.sat:
            rep.errors.append('arithmetic lemma %s is refuted by %s: the symbolic-step invariant of the poke kernel is wrong (checker error, not a violation)' % (name, sol.model()))
    # the hypotheses must be satisfiable (a contradictory lemma would prove anything)
    sol = z3.Solver()
    sol.add(s_ >= 1, r >= 0, r < s_, q >= 0, k >= 0, q * s_ + r == k * s_, j >= 0, j < k)
    if sol.check() != z3.sat:
        rep.errors.append('arithmetic lemma hypotheses are unsatisfiable')


def check_poke(rep, prop='C09', tier='quick'):
    from multiprocessing import Pool
    from props import common
    steps = QUICK_STEPS if tier == 'quick' else STEPS
    cases = poke_cases(steps)
    # unpaged ranges: the step itself is symbolic (1..65535) - the explicit steps remain for the bank-prefixed form
    cases += [(op, 3, False, 'sym') for op in ('^', '+', '')]
    arithmetic_lemmas(rep, prop)
    with Pool(common.NCPU) as pool:
        for part in pool.imap_unordered(_poke_worker, [(c, prop) for c in cases]):
            rep.merge(part)
    rep.bounded.append({'function': 'skoolkit.snapshot.poke (step field of a bank-prefixed address range `p:a-b-step`)', 'contract': 'kernel contract for an explicit step', 'bound': 'steps %s; every other parameter symbolic. The unpaged form `a-b-step` is proved for every step 1..65535 (P: invariant over the Euclidean quotient of the cell distance, two integer lemmas), see functions_under_contract' % (steps,), 'evaluations': len(steps)})
    rep.assume('poke kernel, symbolic step: the lemmas div_unique and mul_mono are proved over the mathematical integers and used as facts about W-bit products (W = 40; every product is below 2**33, so no wrap-around); the Euclidean quotient and remainder of the Skolem cell distance are ghost constants whose existence is the division theorem')
    rep.assume('poke kernel: the value is a byte (0..255), 0 <= addr1, addr2 <= 65535, 1 <= step; a bank-prefixed range spans fewer than 0x4000 addresses (beyond that offsets repeat and are poked more than once); '
               'spec-string splitting, _get_page and get_int_param are outside the slice')




def replay_poke(vals, kind):
    import skoolkit.snapshot as S
    rnd = random.Random(str(sorted(vals.items())))
    for t in range(300):
        is128 = t % 2 == 1
        a1 = vals.get('addr1', 16384) if t < 2 else rnd.randrange(16384, 65536)
        cnt = rnd.randrange(0, 60) if t % 5 else rnd.randrange(0, 65536)
        a2 = min(65535, a1 + cnt)
        step = rnd.choice((1, 1, 2, 3, 7, rnd.randrange(1, 65536)))
        v = vals.get('value', 1) & 255 if t < 2 else rnd.randrange(256)
        op = rnd.choice(('', '^', '+'))
        nf = rnd.randrange(3)
        if t < 12 and isinstance(vals.get('step'), int) and vals['step'] >= 1:
            # the solver's own range first: its addresses and step as they are, then the step with longer ranges
            a1 = min(65535, max(0, vals.get('addr1', 16384)))
            a2 = min(65535, max(0, vals.get('addr2', a1))) if t < 6 else 65535
            if t >= 9:
                a1 = 16384
            step, nf, op = vals['step'], 2, ('', '^', '+')[t % 3]
            if is128 and a2 - a1 >= 0x4000:
                a2 = a1 + 0x3FFF
        if is128:
            snap = [rnd.randrange(256) for _ in range(0x20000)]
            m = S.Memory(snapshot=snap, page=rnd.randrange(8))
            page = rnd.randrange(8)
            before = [list(b) for b in m.banks]
            spec = '%d:' % page + ('%d' % a1, '%d-%d' % (a1, a2), '%d-%d-%d' % (a1, a2, step))[nf] + ',%s%d' % (op, v)
            S.poke(m, spec)
            exp = [list(b) for b in before]
            for a in range(a1, (a1 if nf == 0 else a2) + 1, step if nf == 2 else 1):
                exp[page][a % 0x4000] = f_spec(op, exp[page][a % 0x4000], v)
            got = [list(b) for b in m.banks]
        else:
            snap = [rnd.randrange(256) for _ in range(65536)]
            m = list(snap)
            spec = ('%d' % a1, '%d-%d' % (a1, a2), '%d-%d-%d' % (a1, a2, step))[nf] + ',%s%d' % (op, v)
            S.poke(m, spec)
            exp = list(snap)
            for a in range(a1, (a1 if nf == 0 else a2) + 1, step if nf == 2 else 1):
                exp[a] = f_spec(op, exp[a], v)
            got = m
        if got != exp:
            return {'case': {'poke_spec': spec, 'is128': is128}, 'diffs': [('memory after poke %s' % spec, 'differs from the cells named by the spec', '')]}
    return {'case': {}, 'diffs': []}


# ---------------------------------------------------------------------------
# snapshot.move: which cells are copied where
class SliceRef:
    def __init__(self, obj, lo, hi):
        self.obj = obj
        self.lo = lo
        self.hi = hi


class MoveEngine(Engine):
    """Slices of memories are kept as (object, lo, hi); a slice assignment is recorded as one copy event."""

    def getitem(self, base, idx, node):
        if isinstance(base, SymMem) and isinstance(idx, tuple) and idx and idx[0] == 'symslice':
            return SliceRef(base, idx[1], idx[2])
        if isinstance(base, SymMem) and isinstance(idx, slice):
            return SliceRef(base, idx.start, idx.stop)
        return super().getitem(base, idx, node)

    def setitem(self, base, idx, v, node):
        if isinstance(base, SymMem) and (isinstance(idx, slice) or (isinstance(idx, tuple) and idx and idx[0] == 'symslice')):
            lo, hi = (idx.start, idx.stop) if isinstance(idx, slice) else (idx[1], idx[2])
            if not isinstance(v, SliceRef):
                self.oblige('copy_source_is_a_memory_slice', False, node)
                return
            self.path.copies.append((base, lo, hi, v.obj, v.lo, v.hi))
            return
        return super().setitem(base, idx, v, node)


def check_move(rep, prop='C09'):
    """snapshot.move(snapshot, 'P:S,L,Q:D') for symbolic P, S, L, Q, D: exactly one block copy happens, of L cells,
    from offset S % 0x4000 of bank P % 8 to offset D % 0x4000 of bank Q % 8 (bank P % 8 when no destination page is given);
    without page prefixes: from address S to address D of the 64K memory. The real function parses the spec string; the
    integer parser get_int_param is abstracted (returns the value the placeholder stands for)."""
    import skoolkit.snapshot as S
    W = poly.W
    for form, spec in (('no pages', 'S,L,D'), ('source page', 'P:S,L,D'), ('both pages', 'P:S,L,Q:D')):
        name = 'skoolkit.snapshot.move[%s]' % form

        def start(eng, form=form, spec=spec):
            p = eng.path
            p.copies = []
            p.P = SV(z3.BitVec('src_page', W), 0, 255)
            p.Q = SV(z3.BitVec('dest_page', W), 0, 255)
            p.S = SV(z3.BitVec('src', W), 0, 65535)
            p.D = SV(z3.BitVec('dest', W), 0, 65535)
            p.L = SV(z3.BitVec('length', W), 0, 65536)
            for x in (p.P, p.Q, p.S, p.D, p.L):
                p.facts.append(z3.And(x.t >= x.lo, x.t <= x.hi))
            vals = {'P': p.P, 'Q': p.Q, 'S': p.S, 'D': p.D, 'L': p.L}
            eng.call_models[id(S.get_int_param)] = lambda e, a, k, n: vals[a[0]]
            if form == 'no pages':
                p.mem = SymMem('mem')
                snapshot = p.mem
            else:
                p.banks = [SymMem('bank%d' % b, size=0x4000) for b in range(8)]
                snapshot = ObjModel(None, name='memory')
                snapshot.attrs['banks'] = SymList(list(p.banks), 'banks')
            eng.call_function(S.move, [snapshot, spec])

        def post(p, prove, form=form):
            prove('post.one_copy', len(p.copies) == 1)
            if len(p.copies) != 1:
                return
            dst, dlo, dhi, src, slo, shi = p.copies[0]
            if form == 'no pages':
                prove('post.objects', dst is p.mem and src is p.mem)
                prove('post.source_range', and_(cmpop('==', slo, p.S), cmpop('==', shi, p.S + p.L)))
                prove('post.dest_range', and_(cmpop('==', dlo, p.D), cmpop('==', dhi, p.D + p.L)))
                return
            si = p.banks.index(src) if src in p.banks else None
            di = p.banks.index(dst) if dst in p.banks else None
            prove('post.objects_are_banks', si is not None and di is not None)
            if si is None or di is None:
                return
            prove('post.source_bank', cmpop('==', p.P % 8, si))
            prove('post.dest_bank', cmpop('==', (p.Q if form == 'both pages' else p.P) % 8, di))
            prove('post.source_range', and_(cmpop('==', slo, p.S % 0x4000), cmpop('==', shi, p.S % 0x4000 + p.L)))
            prove('post.dest_range', and_(cmpop('==', dlo, p.D % 0x4000), cmpop('==', dhi, p.D % 0x4000 + p.L)))
        eng = MoveEngine(inline_ok=lambda f: f.__module__ == 'skoolkit.snapshot' and f.__name__ == '_get_page', unknown_ok=True)
        FuncVC(rep, prop, S.move, name, eng).run(start, post, replay_move)
    rep.assume('move: Python slice assignment copies the cells of the source slice into the destination slice (list semantics; ranges reaching beyond the end of a bank / of memory change the length of the list - outside the documented use); get_int_param abstracted')


def replay_move(vals, kind):
    import skoolkit.snapshot as S
    rnd = random.Random(3)
    for t in range(400):
        if t == 0:
            P, Q = vals.get('src_page', 1), vals.get('dest_page', 0)
        else:
            P, Q = rnd.randrange(10), rnd.randrange(10)
        s, d, ln = rnd.randrange(0, 65000), rnd.randrange(0, 65000), rnd.randrange(0, 40)
        if s % 0x4000 + ln > 0x4000 or d % 0x4000 + ln > 0x4000:
            continue
        for form in (0, 1, 2):
            m = S.Memory(snapshot=[rnd.randrange(256) for _ in range(0x20000)], page=rnd.randrange(8))
            before = [list(b) for b in m.banks]
            exp = [list(b) for b in before]
            if form == 0:
                continue
            spec = ('%d:%d,%d,%d' % (P, s, ln, d)) if form == 1 else ('%d:%d,%d,%d:%d' % (P, s, ln, Q, d))
            db = (P if form == 1 else Q) % 8
            data = before[P % 8][s % 0x4000:s % 0x4000 + ln]
            exp[db][d % 0x4000:d % 0x4000 + ln] = data
            S.move(m, spec)
            got = [list(b) for b in m.banks]
            if got != exp:
                bad = [(b, o) for b in range(8) for o in range(0x4000) if got[b][o] != exp[b][o]][:4]
                return {'case': {'move_spec': spec}, 'diffs': [('banks after move %s' % spec, bad, 'cells named by the spec')]}
    return {'case': {}, 'diffs': []}


# ---------------------------------------------------------------------------------------------------------------------
# snapshot.patch: the bytes of a file are stored at an address (64K view) or into a RAM bank (page prefix)
class FileData:
    """The list read_bin_file returns, or a prefix slice of it: only its length is tracked."""

    def __init__(self, length, whole=True):
        self.length = length
        self.whole = whole


class PatchEngine(MoveEngine):
    def getitem(self, base, idx, node):
        if isinstance(base, FileData):
            lo, hi = None, None
            if isinstance(idx, tuple) and idx and idx[0] == 'symslice' and idx[3] is None:
                lo, hi = idx[1], idx[2]
            elif isinstance(idx, slice) and idx.step is None:
                lo, hi = idx.start, idx.stop
            else:
                raise poly.Refuse('file data indexed by %r' % (idx,))
            if lo not in (None, 0):
                raise poly.Refuse('file data sliced from a non-zero offset')
            if hi is None:
                return FileData(base.length, base.whole)
            # data[:hi] for hi >= 0: the first min(hi, len) bytes
            self.oblige('prefix_length_not_negative', cmpop('>=', hi, 0), node)
            return FileData(ite(cmpop('<', hi, base.length), hi, base.length), False)
        return super().getitem(base, idx, node)

    def setitem(self, base, idx, v, node):
        if isinstance(base, SymMem) and isinstance(v, FileData) and (isinstance(idx, slice) or (isinstance(idx, tuple) and idx and idx[0] == 'symslice')):
            lo, hi = (idx.start, idx.stop) if isinstance(idx, slice) else (idx[1], idx[2])
            self.path.stores.append((base, lo, hi, v))
            return
        return super().setitem(base, idx, v, node)

    def sym_builtin(self, f, name, args, kwargs, node):
        if name == 'len' and len(args) == 1 and isinstance(args[0], FileData):
            return args[0].length
        return super().sym_builtin(f, name, args, kwargs, node)

    def call(self, f, args, kwargs, node):
        if f is len and len(args) == 1 and isinstance(args[0], FileData):
            return args[0].length
        return super().call(f, args, kwargs, node)


def check_patch(rep, prop='C09'):
    """snapshot.patch(snapshot, '[P:]A,file') for symbolic page P, address A and file length L (0..0xC000):
    with a page prefix exactly one store happens, into bank P % 8, at offset A % 0x4000, of the first
    min(L, 0x4000 - A % 0x4000) bytes of the file, and the slice stored into has exactly that length (so the bank
    keeps its 16384 cells) and ends inside the bank; without a prefix the whole file goes to [A, A + L) of the memory
    object. get_int_param and read_bin_file are abstracted (the value the placeholder stands for; some list of at most
    the requested number of bytes)."""
    import skoolkit.snapshot as S
    W = poly.W
    for form, spec in (('no page', 'A,file'), ('page', 'P:A,file')):
        name = 'skoolkit.snapshot.patch[%s]' % form

        def start(eng, form=form, spec=spec):
            p = eng.path
            p.stores = []
            p.P = SV(z3.BitVec('page', W), 0, 255)
            p.A = SV(z3.BitVec('address', W), 0, 65535)
            p.L = SV(z3.BitVec('file_length', W), 0, 0xC000)
            for x in (p.P, p.A, p.L):
                p.facts.append(z3.And(x.t >= x.lo, x.t <= x.hi))
            vals = {'P': p.P, 'A': p.A}
            eng.call_models[id(S.get_int_param)] = lambda e, a, k, n: vals[a[0]]
            p.data = FileData(p.L)

            def read(e, a, k, n):
                e.oblige('file_read_is_capped', len(a) == 2 and a[0] == 'file' and isinstance(a[1], int) and a[1] <= 0xC000, n)
                return p.data
            eng.call_models[id(S.read_bin_file)] = read
            if form == 'no page':
                p.mem = SymMem('mem')
                snapshot = p.mem
            else:
                p.banks = [SymMem('bank%d' % b, size=0x4000) for b in range(8)]
                snapshot = ObjModel(None, name='memory')
                snapshot.attrs['banks'] = SymList(list(p.banks), 'banks')
            eng.call_function(S.patch, [snapshot, spec])

        def post(p, prove, form=form):
            prove('post.one_store', len(p.stores) == 1)
            if len(p.stores) != 1:
                return
            dst, lo, hi, v = p.stores[0]
            if form == 'no page':
                prove('post.object', dst is p.mem)
                prove('post.whole_file', v is p.data)
                prove('post.range', and_(cmpop('==', lo, p.A), cmpop('==', hi, p.A + p.L)))
                return
            bi = p.banks.index(dst) if dst in p.banks else None
            prove('post.object_is_a_bank', bi is not None)
            if bi is None:
                return
            off = p.A % 0x4000
            fits = 0x4000 - off
            prove('post.bank', cmpop('==', p.P % 8, bi))
            prove('post.offset', cmpop('==', lo, off))
            prove('post.ends_inside_the_bank', cmpop('<=', hi, 0x4000))
            prove('post.as_much_as_fits', cmpop('==', v.length, ite(cmpop('<', p.L, fits), p.L, fits)))
            prove('post.bank_keeps_its_length', cmpop('==', hi - lo, v.length))
        eng = PatchEngine(inline_ok=lambda f: f.__module__ == 'skoolkit.snapshot' and f.__name__ == '_get_page', unknown_ok=True)
        FuncVC(rep, prop, S.patch, name, eng).run(start, post, replay_patch)
    rep.assume('patch: a slice store of n values into an n-cell slice of a list replaces those cells and nothing else (list semantics); Memory.__setitem__ (64K view, no page prefix) is exercised in the bounded runs only; get_int_param and read_bin_file abstracted')


def replay_patch(vals, kind):
    """Concrete search on a 128K memory: the counterexample first, then patches around the end of a bank."""
    import os
    import tempfile
    import skoolkit.snapshot as S
    rnd = random.Random(5)
    tmp = tempfile.mkdtemp(prefix='c09patch_')
    try:
        fn = os.path.join(tmp, 'p.bin')
        for t in range(300):
            if t == 0 and vals:
                P, A, L = vals.get('page', 3), vals.get('address', 0x3FFC), vals.get('file_length', 8)
            else:
                P, L = rnd.randrange(10), rnd.choice((0, 1, 5, 40, 0x4000, 0x4001))
                A = rnd.choice((rnd.randrange(65536), 0x4000 * rnd.randrange(1, 5) - rnd.randrange(0, 8)))
            A, L = A % 65536, max(0, min(L, 0xC000))
            data = [rnd.randrange(1, 256) for _ in range(L)]
            with open(fn, 'wb') as f:
                f.write(bytes(data))
            for paged in (True, False):
                m = S.Memory(snapshot=[0] * 0x20000, page=rnd.randrange(8))
                exp = [list(b) for b in m.banks]
                if paged:
                    spec = '%d:%d,%s' % (P, A, fn)
                    off = A % 0x4000
                    k = min(L, 0x4000 - off)
                    exp[P % 8][off:off + k] = data[:k]
                else:
                    if A + L > 65536:
                        continue
                    spec = '%d,%s' % (A, fn)
                    slot = {0: None, 1: 5, 2: 2, 3: [i for i in range(8) if m.memory[3] is m.banks[i]][0]}
                    for i, b in enumerate(data):
                        sb = slot[(A + i) >> 14]
                        if sb is not None:
                            exp[sb][(A + i) & 0x3FFF] = b
                S.patch(m, spec)
                got = [list(b) for b in m.banks]
                if got != exp:
                    lens = [len(b) for b in got]
                    bad = [(b, o) for b in range(8) for o in range(min(len(got[b]), 0x4000)) if got[b][o] != exp[b][o]][:4]
                    return {'case': {'patch_spec': spec.replace(fn, '<file of %d bytes>' % L), 'page': P, 'address': A, 'file_length': L},
                            'diffs': [('banks after patch', {'bank lengths': lens, 'cells': bad}, 'every bank 16384 cells; only the cells named by the spec change')]}
    finally:
        import shutil
        shutil.rmtree(tmp, ignore_errors=True)
    return {'case': {}, 'diffs': []}
