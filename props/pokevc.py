"""C09: the cell-writing kernel of snapshot.poke under contract.

Slice of the real function, re-read on every run: the statement that builds
poke_f from the value text (`^v`, `+v`, `v`), the unpacking of (addr1, addr2,
step) from the parsed address list, and the final `if page is None: ... elif
hasattr(snapshot, 'banks'): ...` statement with its two loops.  Dropped: the
splitting of the spec string, _get_page and the int parsing (get_int_param is
abstracted: returns the byte value / the addresses).

Contract, for 0 <= addr1, addr2 <= 65535, 1 <= step <= 65535, value in 0..255:
  unpaged (flat 64K memory):  for every j with addr1 + j*step <= addr2 the cell
      addr1 + j*step holds f(old), every other cell is unchanged;
  paged (`p:` prefix, 128K):  the same on bank p % 8 at offset (address % 0x4000)
      when the range spans fewer than 0x4000 addresses; every other bank is not
      touched (no store reaches it);
  f = (b ^ v), ((b + v) & 255) or v according to the operator.
The loop `for a in range(addr1, addr2 + 1, step)` is treated with an inductive
invariant over the number k of cells done, its memory part stated for one arbitrary
index j and one arbitrary cell c (Skolem constants): j < k => cell(addr1 + j*step)
== f(old); c not of the form addr1 + j'*step with j' < k => cell(c) == old.  The
second part is stated through a witness-free characterisation: c is untouched if
c < addr1, or c >= addr1 + k*step, or (c - addr1) mod step != 0.
"""
import ast
import os
import random

import z3

from props.funcvc import FuncVC
from pyvc import poly
from pyvc.poly import SV, SB, ite, and_, or_, not_, sv, cmpop, truth
from pyvc.engine import Engine, ObjModel, SymList, SymMem, UNK, PathEnd, func_ast, CallModel


def poke_slice():
    import skoolkit.snapshot as S
    node, _ = func_ast(S.poke)
    body = node.body
    out = []
    for s in body:
        if isinstance(s, ast.Try) and any(isinstance(n, ast.Lambda) for n in ast.walk(s)):
            out.append(s)
        elif isinstance(s, ast.Assign) and ast.unparse(s.targets[0]).replace(' ', '') in ('addr1,addr2,step', '(addr1,addr2,step)'):
            out.append(s)
        elif isinstance(s, ast.If) and ast.unparse(s.test).replace(' ', '') == 'pageisNone':
            out.append(s)
    if len(out) != 3:
        raise LookupError('poke: expected the poke_f try-block, the (addr1, addr2, step) assignment and the final if; found %d' % len(out))
    loops = sorted([n for n in ast.walk(out[2]) if isinstance(n, (ast.For, ast.While))], key=lambda n: (n.lineno, n.col_offset))
    if len(loops) != 2:
        raise LookupError('poke: expected two loops in the final statement')
    all_loops = sorted([n for n in ast.walk(node) if isinstance(n, (ast.For, ast.While))], key=lambda n: (n.lineno, n.col_offset))
    return out, [all_loops.index(l) for l in loops]


def f_spec(op, b, v):
    if op == '^':
        return b ^ v
    if op == '+':
        return (b + v) & 255
    return v


STEPS = (1, 2, 3, 7, 16, 255, 256, 257, 4096)


class PokeEngine(Engine):
    """A subscript of the paged Memory object itself (its flat 64K view) reads some byte - which
    bank it comes from depends on the paging state, so nothing is known about it."""

    def getitem(self, base, idx, node):
        if isinstance(base, ObjModel) and base.name == 'memory' and isinstance(idx, (int, SV)):
            return self.fresh('flat_view_byte', 0, 255)
        return super().getitem(base, idx, node)

    def setitem(self, base, idx, v, node):
        if isinstance(base, ObjModel) and base.name == 'memory':
            self.oblige('paged_poke_writes_the_named_bank_only', False, node)
            return
        return super().setitem(base, idx, v, node)


QUICK_STEPS = (1, 3, 256)


def poke_cases(steps=STEPS):
    cases = []
    for op in ('^', '+', ''):
        for paged in (False, True):
            cases.append((op, 1, paged, None))
            cases.append((op, 2, paged, None))
            for st in steps:
                cases.append((op, 3, paged, st))
    return cases


def poke_case(rep, prop, case):
    import skoolkit.snapshot as S
    W = poly.W
    stmts, loop_ix = poke_slice()
    q = S.poke.__qualname__
    op, nvals, paged, cstep = case
    name = 'skoolkit.snapshot.poke[kernel; op=%r, %d address field(s)%s, %s]' % (op, nvals, '' if cstep is None else ' step symbolic (1..65535)' if cstep == 'sym' else ' step=%d' % cstep, 'bank-prefixed' if paged else 'unpaged')

    def start(eng, op=op, nvals=nvals, paged=paged, cstep=cstep):
        p = eng.path
        p.v = SV(z3.BitVec('value', W), 0, 255)
        p.a1 = SV(z3.BitVec('addr1', W), 0, 65535)
        p.a2 = SV(z3.BitVec('addr2', W), 0, 65535)
        p.st = SV(z3.BitVec('step', W), 1, 65535) if cstep == 'sym' else cstep if cstep is not None else 1
        for x in (p.v, p.a1, p.a2) + ((p.st,) if cstep == 'sym' else ()):
            p.facts.append(z3.And(x.t >= x.lo, x.t <= x.hi))
        values = [p.a1, p.a2, p.st][:nvals]
        p.lo = p.a1
        p.hi = p.a2 if nvals >= 2 else p.a1
        p.step = p.st if nvals == 3 else 1
        p.j = SV(z3.BitVec('j_any', W), 0, 65535)
        p.c = SV(z3.BitVec('c_any', W), 0, 65535)
        p.facts.append(z3.And(p.j.t >= 0, p.j.t <= 65535, p.c.t >= 0, p.c.t <= 65535))
        if paged:
            p.facts.append(sv(p.hi - p.lo).t < 0x4000)
            banks = [SymMem('bank%d' % b, size=0x4000) for b in range(8)]
            p.banks = banks
            p.page = eng.fresh('page', 0, 255)
            snapshot = ObjModel(None, name='memory')
            snapshot.attrs['banks'] = SymList(list(banks), 'banks')     # indexed by page % 8: the engine forks per bank
            p.mem = None
            page = p.page
        else:
            p.mem = SymMem('mem')
            snapshot = p.mem
            page = None
        eng.call_models[id(S.get_int_param)] = lambda e, a, k, n: p.v

        def cell_of(a):
            return (a % 0x4000) if paged else a

        def untouched_at(arr, k, c):
            """cell c (an address in the unpaged case, a bank offset in the paged one) is not among the first k poked cells => unchanged"""
            if paged:
                cc = c & 0x3FFF
                rel = (cc - (p.lo & 0x3FFF)) & 0x3FFF       # distance from the first poked offset, modulo the bank size
            else:
                cc = c
                rel = cc - p.lo
            if isinstance(p.step, int):
                on_grid = True if p.step == 1 else cmpop('==', rel % p.step, 0)
            else:
                on_grid = SB(z3.URem(z3.If(sv(rel).t >= 0, sv(rel).t, z3.BitVecVal(0, W)), sv(p.step).t) == 0)
            hit = and_(cmpop('>=', rel, 0), cmpop('<', rel, k * p.step), on_grid)
            return or_(hit, SB(z3.Select(arr, sv(cc).t) == z3.Select(p.mem.arr0, sv(cc).t)))

        def mem_inv(arr, k):
            aj = p.lo + p.j * p.step
            old_j = SV(z3.Select(p.mem.arr0, sv(cell_of(aj)).t), 0, 255)
            done = or_(not_(and_(cmpop('<', p.j, k), cmpop('<=', aj, 65535))), SB(z3.Select(arr, sv(cell_of(aj)).t) == sv(f_spec(op, old_j, p.v)).t))
            return and_(done, untouched_at(arr, k, p.c))

        def loop(e, node_):
            fr = e.frames[-1]
            if paged:
                p.mem = fr.loc['bank']
                p.pb = banks.index(p.mem)
                e.oblige('bank_is_page_mod_8', cmpop('==', p.page % 8, p.pb), node_)
            k = e.fresh('k', 0, 65536)
            arr = z3.Array('mem_k', z3.BitVecSort(W), z3.BitVecSort(W))
            e.oblige('inv.establish', SB(p.mem.arr == p.mem.arr0), node_)
            # range arguments as the code wrote them
            rng = [e.ev(a_) for a_ in node_.iter.args]
            if len(rng) != 3:
                raise poly.Refuse('poke loop is not range(a, b, step)')
            r_lo, r_hi, r_st = rng
            e.oblige('range_is_addr1_to_addr2_inclusive', and_(cmpop('==', r_lo, p.lo), cmpop('==', r_hi, p.hi + 1), cmpop('==', r_st, p.step)), node_)
            e.assume(cmpop('<=', p.lo + k * p.step, p.hi + p.step))
            p.mem.arr = arr
            e.assume(mem_inv(arr, k))
            # the universally quantified 'untouched' part of the hypothesis, instantiated at the cell poked next
            e.assume(untouched_at(arr, k, cell_of(p.lo + k * p.step)))
            e.fresh_n += 1
            if e.decide(SB(z3.Bool('iterate!%d' % e.fresh_n))):
                a = p.lo + k * p.step
                e.assume(cmpop('<', a, r_hi))
                e.assign(node_.target, a)
                e.exec_block(node_.body)
                e.oblige('inv.preserve', mem_inv(p.mem.arr, k + 1), node_)
                raise PathEnd()
            # exit: k is the number of terms of the range
            e.assume(not_(cmpop('<', p.lo + k * p.step, r_hi)))
            p.ghost = (k, arr)
        eng.loop_invariants = {(q, i): loop for i in loop_ix}
        val = {'^': '^1', '+': '+1', '': '1'}[op]
        p.locs = {'snapshot': snapshot, 'param_str': 'spec', 'val': val, 'page': page, 'values': SymList(list(values), 'values')}
        eng.run_stmts(S.poke, stmts, p.locs)

    def post(p, prove, paged=paged):
        if hasattr(p, 'ghost'):
            k, arr = p.ghost
            prove('post.memory_is_loop_result', SB(p.mem.arr == arr))
        elif p.mem is not None:
            prove('post.no_loop_means_no_change', SB(p.mem.arr == p.mem.arr0))
        if paged:
            for b in range(8):
                if b != getattr(p, 'pb', None):
                    prove('frame.bank%d' % b, len(p.banks[b].writes) == 0)
    eng = PokeEngine(inline_ok=lambda f: False, unknown_ok=True)
    import time as _t
    _t0 = _t.time()
    FuncVC(rep, prop, S.poke, name, eng).run(start, post, replay_poke)
    if os.environ.get('POKEVC_TIMING'):
        print('%6.1fs %s' % (_t.time() - _t0, name), flush=True)


def _poke_worker(args):
    case, prop = args
    from props import common
    sub = common.SubReport(prop)
    try:
        poke_case(sub, prop, case)
    except Exception:
        import traceback
        sub.errors.append('poke kernel %s: checker crashed: %s' % (case, traceback.format_exc()[-400:]))
    return sub.export()


def check_poke(rep, prop='C09', tier='quick'):
    from multiprocessing import Pool
    from props import common
    steps = QUICK_STEPS if tier == 'quick' else STEPS
    cases = poke_cases(steps)
    with Pool(common.NCPU) as pool:
        for part in pool.imap_unordered(_poke_worker, [(c, prop) for c in cases]):
            rep.merge(part)
    rep.bounded.append({'function': 'skoolkit.snapshot.poke (step field of the address range)', 'contract': 'kernel contract for an explicit step', 'bound': 'steps %s; every other parameter symbolic (an arbitrary symbolic step makes the invariant non-linear: mod and product of two unknowns)' % (steps,), 'evaluations': len(steps)})
    rep.assume('poke kernel: the value is a byte (0..255), 0 <= addr1, addr2 <= 65535, 1 <= step; a bank-prefixed range spans fewer than 0x4000 addresses (beyond that offsets repeat and are poked more than once); '
               'spec-string splitting, _get_page and get_int_param are outside the slice')




def replay_poke(vals, kind):
    import skoolkit.snapshot as S
    rnd = random.Random(str(sorted(vals.items())))
    for t in range(300):
        is128 = t % 2 == 1
        a1 = vals.get('addr1', 16384) if t < 2 else rnd.randrange(16384, 65536)
        cnt = rnd.randrange(0, 60)
        a2 = min(65535, a1 + cnt)
        step = rnd.choice((1, 1, 2, 3, 7))
        v = vals.get('value', 1) & 255 if t < 2 else rnd.randrange(256)
        op = rnd.choice(('', '^', '+'))
        nf = rnd.randrange(3)
        if is128:
            snap = [rnd.randrange(256) for _ in range(0x20000)]
            m = S.Memory(snapshot=snap, page=rnd.randrange(8))
            page = rnd.randrange(8)
            before = [list(b) for b in m.banks]
            spec = '%d:' % page + ('%d' % a1, '%d-%d' % (a1, a2), '%d-%d-%d' % (a1, a2, step))[nf] + ',%s%d' % (op, v)
            S.poke(m, spec)
            exp = [list(b) for b in before]
            for a in range(a1, (a1 if nf == 0 else a2) + 1, step if nf == 2 else 1):
                exp[page][a % 0x4000] = f_spec(op, exp[page][a % 0x4000], v)
            got = [list(b) for b in m.banks]
        else:
            snap = [rnd.randrange(256) for _ in range(65536)]
            m = list(snap)
            spec = ('%d' % a1, '%d-%d' % (a1, a2), '%d-%d-%d' % (a1, a2, step))[nf] + ',%s%d' % (op, v)
            S.poke(m, spec)
            exp = list(snap)
            for a in range(a1, (a1 if nf == 0 else a2) + 1, step if nf == 2 else 1):
                exp[a] = f_spec(op, exp[a], v)
            got = m
        if got != exp:
            return {'case': {'poke_spec': spec, 'is128': is128}, 'diffs': [('memory after poke %s' % spec, 'differs from the cells named by the spec', '')]}
    return {'case': {}, 'diffs': []}


# ---------------------------------------------------------------------------
# snapshot.move: which cells are copied where
class SliceRef:
    def __init__(self, obj, lo, hi):
        self.obj = obj
        self.lo = lo
        self.hi = hi


class MoveEngine(Engine):
    """Slices of memories are kept as (object, lo, hi); a slice assignment is recorded as one copy event."""

    def getitem(self, base, idx, node):
        if isinstance(base, SymMem) and isinstance(idx, tuple) and idx and idx[0] == 'symslice':
            return SliceRef(base, idx[1], idx[2])
        if isinstance(base, SymMem) and isinstance(idx, slice):
            return SliceRef(base, idx.start, idx.stop)
        return super().getitem(base, idx, node)

    def setitem(self, base, idx, v, node):
        if isinstance(base, SymMem) and (isinstance(idx, slice) or (isinstance(idx, tuple) and idx and idx[0] == 'symslice')):
            lo, hi = (idx.start, idx.stop) if isinstance(idx, slice) else (idx[1], idx[2])
            if not isinstance(v, SliceRef):
                self.oblige('copy_source_is_a_memory_slice', False, node)
                return
            self.path.copies.append((base, lo, hi, v.obj, v.lo, v.hi))
            return
        return super().setitem(base, idx, v, node)


def check_move(rep, prop='C09'):
    """snapshot.move(snapshot, 'P:S,L,Q:D') for symbolic P, S, L, Q, D: exactly one block copy happens, of L cells,
    from offset S % 0x4000 of bank P % 8 to offset D % 0x4000 of bank Q % 8 (bank P % 8 when no destination page is given);
    without page prefixes: from address S to address D of the 64K memory. The real function parses the spec string; the
    integer parser get_int_param is abstracted (returns the value the placeholder stands for)."""
    import skoolkit.snapshot as S
    W = poly.W
    for form, spec in (('no pages', 'S,L,D'), ('source page', 'P:S,L,D'), ('both pages', 'P:S,L,Q:D')):
        name = 'skoolkit.snapshot.move[%s]' % form

        def start(eng, form=form, spec=spec):
            p = eng.path
            p.copies = []
            p.P = SV(z3.BitVec('src_page', W), 0, 255)
            p.Q = SV(z3.BitVec('dest_page', W), 0, 255)
            p.S = SV(z3.BitVec('src', W), 0, 65535)
            p.D = SV(z3.BitVec('dest', W), 0, 65535)
            p.L = SV(z3.BitVec('length', W), 0, 65536)
            for x in (p.P, p.Q, p.S, p.D, p.L):
                p.facts.append(z3.And(x.t >= x.lo, x.t <= x.hi))
            vals = {'P': p.P, 'Q': p.Q, 'S': p.S, 'D': p.D, 'L': p.L}
            eng.call_models[id(S.get_int_param)] = lambda e, a, k, n: vals[a[0]]
            if form == 'no pages':
                p.mem = SymMem('mem')
                snapshot = p.mem
            else:
                p.banks = [SymMem('bank%d' % b, size=0x4000) for b in range(8)]
                snapshot = ObjModel(None, name='memory')
                snapshot.attrs['banks'] = SymList(list(p.banks), 'banks')
            eng.call_function(S.move, [snapshot, spec])

        def post(p, prove, form=form):
            prove('post.one_copy', len(p.copies) == 1)
            if len(p.copies) != 1:
                return
            dst, dlo, dhi, src, slo, shi = p.copies[0]
            if form == 'no pages':
                prove('post.objects', dst is p.mem and src is p.mem)
                prove('post.source_range', and_(cmpop('==', slo, p.S), cmpop('==', shi, p.S + p.L)))
                prove('post.dest_range', and_(cmpop('==', dlo, p.D), cmpop('==', dhi, p.D + p.L)))
                return
            si = p.banks.index(src) if src in p.banks else None
            di = p.banks.index(dst) if dst in p.banks else None
            prove('post.objects_are_banks', si is not None and di is not None)
            if si is None or di is None:
                return
            prove('post.source_bank', cmpop('==', p.P % 8, si))
            prove('post.dest_bank', cmpop('==', (p.Q if form == 'both pages' else p.P) % 8, di))
            prove('post.source_range', and_(cmpop('==', slo, p.S % 0x4000), cmpop('==', shi, p.S % 0x4000 + p.L)))
            prove('post.dest_range', and_(cmpop('==', dlo, p.D % 0x4000), cmpop('==', dhi, p.D % 0x4000 + p.L)))
        eng = MoveEngine(inline_ok=lambda f: f.__module__ == 'skoolkit.snapshot' and f.__name__ == '_get_page', unknown_ok=True)
        FuncVC(rep, prop, S.move, name, eng).run(start, post, replay_move)
    rep.assume('move: Python slice assignment copies the cells of the source slice into the destination slice (list semantics; ranges reaching beyond the end of a bank / of memory change the length of the list - outside the documented use); get_int_param abstracted')


def replay_move(vals, kind):
    import skoolkit.snapshot as S
    rnd = random.Random(3)
    for t in range(400):
        if t == 0:
            P, Q = vals.get('src_page', 1), vals.get('dest_page', 0)
        else:
            P, Q = rnd.randrange(10), rnd.randrange(10)
        s, d, ln = rnd.randrange(0, 65000), rnd.randrange(0, 65000), rnd.randrange(0, 40)
        if s % 0x4000 + ln > 0x4000 or d % 0x4000 + ln > 0x4000:
            continue
        for form in (0, 1, 2):
            m = S.Memory(snapshot=[rnd.randrange(256) for _ in range(0x20000)], page=rnd.randrange(8))
            before = [list(b) for b in m.banks]
            exp = [list(b) for b in before]
            if form == 0:
                continue
            spec = ('%d:%d,%d,%d' % (P, s, ln, d)) if form == 1 else ('%d:%d,%d,%d:%d' % (P, s, ln, Q, d))
            db = (P if form == 1 else Q) % 8
            data = before[P % 8][s % 0x4000:s % 0x4000 + ln]
            exp[db][d % 0x4000:d % 0x4000 + ln] = data
            S.move(m, spec)
            got = [list(b) for b in m.banks]
            if got != exp:
                bad = [(b, o) for b in range(8) for o in range(0x4000) if got[b][o] != exp[b][o]][:4]
                return {'case': {'move_spec': spec}, 'diffs': [('banks after move %s' % spec, bad, 'cells named by the spec')]}
    return {'case': {}, 'diffs': []}


# ---------------------------------------------------------------------------------------------------------------------
# snapshot.patch: the bytes of a file are stored at an address (64K view) or into a RAM bank (page prefix)
class FileData:
    """The list read_bin_file returns, or a prefix slice of it: only its length is tracked."""

    def __init__(self, length, whole=True):
        self.length = length
        self.whole = whole


class PatchEngine(MoveEngine):
    def getitem(self, base, idx, node):
        if isinstance(base, FileData):
            lo, hi = None, None
            if isinstance(idx, tuple) and idx and idx[0] == 'symslice' and idx[3] is None:
                lo, hi = idx[1], idx[2]
            elif isinstance(idx, slice) and idx.step is None:
                lo, hi = idx.start, idx.stop
            else:
                raise poly.Refuse('file data indexed by %r' % (idx,))
            if lo not in (None, 0):
                raise poly.Refuse('file data sliced from a non-zero offset')
            if hi is None:
                return FileData(base.length, base.whole)
            # data[:hi] for hi >= 0: the first min(hi, len) bytes
            self.oblige('prefix_length_not_negative', cmpop('>=', hi, 0), node)
            return FileData(ite(cmpop('<', hi, base.length), hi, base.length), False)
        return super().getitem(base, idx, node)

    def setitem(self, base, idx, v, node):
        if isinstance(base, SymMem) and isinstance(v, FileData) and (isinstance(idx, slice) or (isinstance(idx, tuple) and idx and idx[0] == 'symslice')):
            lo, hi = (idx.start, idx.stop) if isinstance(idx, slice) else (idx[1], idx[2])
            self.path.stores.append((base, lo, hi, v))
            return
        return super().setitem(base, idx, v, node)

    def sym_builtin(self, f, name, args, kwargs, node):
        if name == 'len' and len(args) == 1 and isinstance(args[0], FileData):
            return args[0].length
        return super().sym_builtin(f, name, args, kwargs, node)

    def call(self, f, args, kwargs, node):
        if f is len and len(args) == 1 and isinstance(args[0], FileData):
            return args[0].length
        return super().call(f, args, kwargs, node)


def check_patch(rep, prop='C09'):
    """snapshot.patch(snapshot, '[P:]A,file') for symbolic page P, address A and file length L (0..0xC000):
    with a page prefix exactly one store happens, into bank P % 8, at offset A % 0x4000, of the first
    min(L, 0x4000 - A % 0x4000) bytes of the file, and the slice stored into has exactly that length (so the bank
    keeps its 16384 cells) and ends inside the bank; without a prefix the whole file goes to [A, A + L) of the memory
    object. get_int_param and read_bin_file are abstracted (the value the placeholder stands for; some list of at most
    the requested number of bytes)."""
    import skoolkit.snapshot as S
    W = poly.W
    for form, spec in (('no page', 'A,file'), ('page', 'P:A,file')):
        name = 'skoolkit.snapshot.patch[%s]' % form

        def start(eng, form=form, spec=spec):
            p = eng.path
            p.stores = []
            p.P = SV(z3.BitVec('page', W), 0, 255)
            p.A = SV(z3.BitVec('address', W), 0, 65535)
            p.L = SV(z3.BitVec('file_length', W), 0, 0xC000)
            for x in (p.P, p.A, p.L):
                p.facts.append(z3.And(x.t >= x.lo, x.t <= x.hi))
            vals = {'P': p.P, 'A': p.A}
            eng.call_models[id(S.get_int_param)] = lambda e, a, k, n: vals[a[0]]
            p.data = FileData(p.L)

            def read(e, a, k, n):
                e.oblige('file_read_is_capped', len(a) == 2 and a[0] == 'file' and isinstance(a[1], int) and a[1] <= 0xC000, n)
                return p.data
            eng.call_models[id(S.read_bin_file)] = read
            if form == 'no page':
                p.mem = SymMem('mem')
                snapshot = p.mem
            else:
                p.banks = [SymMem('bank%d' % b, size=0x4000) for b in range(8)]
                snapshot = ObjModel(None, name='memory')
                snapshot.attrs['banks'] = SymList(list(p.banks), 'banks')
            eng.call_function(S.patch, [snapshot, spec])

        def post(p, prove, form=form):
            prove('post.one_store', len(p.stores) == 1)
            if len(p.stores) != 1:
                return
            dst, lo, hi, v = p.stores[0]
            if form == 'no page':
                prove('post.object', dst is p.mem)
                prove('post.whole_file', v is p.data)
                prove('post.range', and_(cmpop('==', lo, p.A), cmpop('==', hi, p.A + p.L)))
                return
            bi = p.banks.index(dst) if dst in p.banks else None
            prove('post.object_is_a_bank', bi is not None)
            if bi is None:
                return
            off = p.A % 0x4000
            fits = 0x4000 - off
            prove('post.bank', cmpop('==', p.P % 8, bi))
            prove('post.offset', cmpop('==', lo, off))
            prove('post.ends_inside_the_bank', cmpop('<=', hi, 0x4000))
            prove('post.as_much_as_fits', cmpop('==', v.length, ite(cmpop('<', p.L, fits), p.L, fits)))
            prove('post.bank_keeps_its_length', cmpop('==', hi - lo, v.length))
        eng = PatchEngine(inline_ok=lambda f: f.__module__ == 'skoolkit.snapshot' and f.__name__ == '_get_page', unknown_ok=True)
        FuncVC(rep, prop, S.patch, name, eng).run(start, post, replay_patch)
    rep.assume('patch: a slice store of n values into an n-cell slice of a list replaces those cells and nothing else (list semantics); Memory.__setitem__ (64K view, no page prefix) is exercised in the bounded runs only; get_int_param and read_bin_file abstracted')


def replay_patch(vals, kind):
    """Concrete search on a 128K memory: the counterexample first, then patches around the end of a bank."""
    import os
    import tempfile
    import skoolkit.snapshot as S
    rnd = random.Random(5)
    tmp = tempfile.mkdtemp(prefix='c09patch_')
    try:
        fn = os.path.join(tmp, 'p.bin')
        for t in range(300):
            if t == 0 and vals:
                P, A, L = vals.get('page', 3), vals.get('address', 0x3FFC), vals.get('file_length', 8)
            else:
                P, L = rnd.randrange(10), rnd.choice((0, 1, 5, 40, 0x4000, 0x4001))
                A = rnd.choice((rnd.randrange(65536), 0x4000 * rnd.randrange(1, 5) - rnd.randrange(0, 8)))
            A, L = A % 65536, max(0, min(L, 0xC000))
            data = [rnd.randrange(1, 256) for _ in range(L)]
            with open(fn, 'wb') as f:
                f.write(bytes(data))
            for paged in (True, False):
                m = S.Memory(snapshot=[0] * 0x20000, page=rnd.randrange(8))
                exp = [list(b) for b in m.banks]
                if paged:
                    spec = '%d:%d,%s' % (P, A, fn)
                    off = A % 0x4000
                    k = min(L, 0x4000 - off)
                    exp[P % 8][off:off + k] = data[:k]
                else:
                    if A + L > 65536:
                        continue
                    spec = '%d,%s' % (A, fn)
                    slot = {0: None, 1: 5, 2: 2, 3: [i for i in range(8) if m.memory[3] is m.banks[i]][0]}
                    for i, b in enumerate(data):
                        sb = slot[(A + i) >> 14]
                        if sb is not None:
                            exp[sb][(A + i) & 0x3FFF] = b
                S.patch(m, spec)
                got = [list(b) for b in m.banks]
                if got != exp:
                    lens = [len(b) for b in got]
                    bad = [(b, o) for b in range(8) for o in range(min(len(got[b]), 0x4000)) if got[b][o] != exp[b][o]][:4]
                    return {'case': {'patch_spec': spec.replace(fn, '<file of %d bytes>' % L), 'page': P, 'address': A, 'file_length': L},
                            'diffs': [('banks after patch', {'bank lengths': lens, 'cells': bad}, 'every bank 16384 cells; only the cells named by the spec change')]}
    finally:
        import shutil
        shutil.rmtree(tmp, ignore_errors=True)
    return {'case': {}, 'diffs': []}
