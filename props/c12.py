"""C12 - A program converted to tape by bin2tap loads back via tap2sna.

P: the part of the property that lives in skoolkit's own integer code: the
   stack pre-fill of bin2tap.run (statements taken from the function on every
   run) for all (org, length, stack, start); _get_word; _make_block parity and
   framing for symbolic data of lengths 0..6; the machine code emitted by
   _get_data_loader / _get_bank_loader executed over the ISA contracts
   (props/loadervc.py); LoadTracer.fast_load against its contract
   (props/fastloadvc.py).
B: bin2tap.main -> tap2sna.main in-process on generated configurations; the
   ROM's own code (BASIC interpreter, LD-BYTES when fast loading is off) is not
   a function contract and is only ever observed.
"""
import ast
import contextlib
import io
import os
import random
import shutil
import tempfile
import time
from multiprocessing import Pool

import z3

from props import common
from props.funcvc import FuncVC
from pyvc import poly
from pyvc.poly import SV, SB, ite, and_, or_, not_, sv, cmpop
from pyvc.engine import Engine, SymMem, SymList, func_ast


def prefill_slice():
    import skoolkit.bin2tap as B
    node, src = func_ast(B.run)
    for n in ast.walk(node):
        if isinstance(n, ast.If) and ast.unparse(n.test) == 'clear is None':
            out = []
            for s in n.body:
                if isinstance(s, ast.Expr):
                    break
                out.append(s)
            return out
    raise LookupError('stack pre-fill not found in bin2tap.run')


def check_prefill(rep):
    import skoolkit.bin2tap as B
    W = poly.W
    stmts = prefill_slice()

    def start(eng):
        p = eng.path
        p.org = SV(z3.BitVec('org', W), 0, 65535)
        p.length = SV(z3.BitVec('length', W), 1, 65536)
        p.stack = SV(z3.BitVec('stack', W), 0, 65535)
        p.start = SV(z3.BitVec('start', W), 0, 65535)
        for v, lo, hi in ((p.org, 0, 65535), (p.length, 1, 65536), (p.stack, 0, 65535), (p.start, 0, 65535)):
            p.facts.append(z3.And(v.t >= lo, v.t <= hi))
        p.facts.append((p.org.t + p.length.t) <= 65536)
        ram = SymMem('ram', size=p.length)
        p.ram = ram
        locs = {'ram': ram, 'length': p.length, 'org': p.org, 'stack': p.stack, 'start': p.start, 'clear': None}
        eng.run_stmts(B.run, stmts, locs)
        p.locs = locs

    def post(p, prove):
        sc = (1343 % 256, 1343 // 256, p.start & 255, p.start >> 8)
        exp = p.ram.arr0
        for k in range(4):
            a = p.stack - 4 + k                 # address of the k-th stack byte
            inside = and_(a >= p.org, a < p.org + p.length)
            idx = a - p.org
            exp = z3.If(poly.bterm(inside), z3.Store(exp, sv(idx).t, sv(sc[k]).t), exp)
        ram = p.locs['ram']
        prove('post.prefill', SB(ram.arr == exp))
    eng = Engine(inline_ok=lambda f: f.__module__ == 'skoolkit.bin2tap')
    FuncVC(rep, 'C12', B.run, 'skoolkit.bin2tap.run[stack pre-fill]', eng, own_kinds=('idx', 'no_overflow', 'def_before_use')).run(start, post, replay_prefill)


def replay_prefill(vals, kind):
    org, length, stack, start = vals.get('org', 0), vals.get('length', 1), vals.get('stack', 0), vals.get('start', 0)
    d = concrete_prefill(org, length, stack, start)
    return {'case': {'org': org, 'length': length, 'stack': stack, 'start': start,
                     'demo': 'bin2tap -o %d -p %d -s %d x.bin; tap2sna x.tap' % (org, stack, start)}, 'diffs': d}


def concrete_prefill(org, length, stack, start):
    """Run the real bin2tap.run and look at the main data block it writes."""
    import skoolkit.bin2tap as B
    captured = {}
    orig = B.write_tap
    B.write_tap = lambda fname, blocks: captured.setdefault('blocks', blocks)
    try:
        ram = [(i * 7 + 1) & 255 for i in range(length)]
        B.run(list(ram), None, org, start, stack, 'x.tap', None, None, None, None)
    finally:
        B.write_tap = orig
    block = captured['blocks'][-1]
    got = list(block[1:-1])
    exp = list(ram)
    sc = (1343 % 256, 1343 // 256, start % 256, start // 256)
    for k in range(4):
        a = stack - 4 + k
        if org <= a < org + length:
            exp[a - org] = sc[k]
    if got != exp:
        return [('main data block', [(org + i, got[i], exp[i]) for i in range(length) if got[i] != exp[i]][:6])]
    return []


def check_small_kernels(rep):
    import skoolkit.bin2tap as B
    W = poly.W

    def start(eng):
        p = eng.path
        p.w = SV(z3.BitVec('w', W), 0, 65535)
        p.facts.append(z3.And(p.w.t >= 0, p.w.t <= 65535))
        p.ret = eng.call_function(B._get_word, [p.w])

    def post(p, prove):
        lo, hi = p.ret
        prove('post.bytes', and_(lo >= 0, lo <= 255, hi >= 0, hi <= 255))
        prove('post.value', cmpop('==', lo + 256 * hi, p.w))
    FuncVC(rep, 'C12', B._get_word, 'skoolkit.bin2tap._get_word', Engine()).run(start, post, None)

    # _make_block: flag byte, data, parity == XOR of everything before it (data length 0..6, symbolic bytes)
    for n in range(0, 7):
        for header in (False, True):
            def startb(eng, n=n, header=header):
                p = eng.path
                p.data = [SV(z3.BitVec('d%d' % i, W), 0, 255) for i in range(n)]
                for d in p.data:
                    p.facts.append(z3.And(d.t >= 0, d.t <= 255))
                p.ret = eng.call_function(B._make_block, [list(p.data), header])

            def postb(p, prove, n=n, header=header):
                blk = p.ret.items if isinstance(p.ret, SymList) else p.ret
                prove('post.length', len(blk) == n + 2)
                if len(blk) != n + 2:
                    return
                prove('post.flag', cmpop('==', blk[0], 0 if header else 255))
                prove('post.data', all(blk[1 + i] is p.data[i] for i in range(n)))
                x = 0 if header else 255
                for d in p.data:
                    x = x ^ d
                prove('post.parity', cmpop('==', blk[-1], x))
                prove('post.parity_byte', and_(blk[-1] >= 0, blk[-1] <= 255))
            FuncVC(rep, 'C12', B._make_block, 'skoolkit.bin2tap._make_block[len=%d,header=%s]' % (n, header), Engine()).run(startb, postb, None)


# ------------------------------------------------------------------ B: load-back
def _run_main(mainf, args):
    out = io.StringIO()
    with contextlib.redirect_stdout(out), contextlib.redirect_stderr(out):
        try:
            mainf(args)
            return out.getvalue()
        except SystemExit as e:
            return out.getvalue() + '\nEXIT %s' % e
        except Exception as e:
            return out.getvalue() + '\nEXC %r' % (e,)


def ext_variants():
    """Every upper/lower-case spelling of the two tape extensions bin2tap writes."""
    import itertools
    out = []
    for ext in ('tap', 'pzx'):
        for bits in itertools.product((0, 1), repeat=3):
            out.append(''.join(c.upper() if b else c for c, b in zip(ext, bits)))
    return out


def loadback_case(args):
    seed, k = args[0], args[1]
    force_ext = args[2] if len(args) > 2 else None
    from skoolkit import bin2tap, tap2sna
    from skoolkit.snapshot import Snapshot
    rnd = random.Random('%s/%s' % (seed, k))
    tmp = tempfile.mkdtemp(prefix='c12_')
    try:
        L = rnd.choice((1, 2, 5, 100, rnd.randrange(1, 3000)))
        org = rnd.choice((32768, 65536 - L, rnd.randrange(24000, 65536 - L)))
        data = bytes(rnd.randrange(256) for _ in range(L))
        binf = os.path.join(tmp, 'x.bin')
        with open(binf, 'wb') as f:
            f.write(data)
        start = rnd.choice((org, org + rnd.randrange(L)))
        use_clear = rnd.random() < .3
        ext = rnd.choice(('tap', 'pzx'))
        if force_ext:
            ext = force_ext
        args = ['-o', str(org), '-s', str(start)]
        stack = None
        if use_clear:
            clear = org - 1 - rnd.randrange(0, 50)
            args += ['-c', str(clear)]
        else:
            # every partial overlap of the four pre-filled stack bytes with the data is a likely choice
            stack = rnd.choice((org, org + 1, org + 2, org + 3, org + 4, org + 5, org + L, org + L + 1, org + L + 2, org + L + 3, org + L + 4, org + L + 5,
                                rnd.randrange(24000, 65536), org - rnd.randrange(0, 30)))
            stack = max(23500, min(65535, stack))
            args += ['-p', str(stack)]
        if rnd.random() < .2:
            scrf = os.path.join(tmp, 's.scr')
            with open(scrf, 'wb') as f:
                f.write(bytes(rnd.randrange(256) for _ in range(6912)))
            args += ['-S', scrf]
        tapef = os.path.join(tmp, 'x.' + ext)
        z80f = os.path.join(tmp, 'x.z80')
        o1 = _run_main(bin2tap.main, args + [binf, tapef])
        desc = ' '.join(a if not a.startswith(tmp) else os.path.basename(a) for a in args) + ' (%s, %d bytes)' % (ext, L)
        if 'EXC' in o1 or 'EXIT' in o1:
            return ('bin2tap', desc, o1[-200:])
        sim_args = ['-c', 'python=1'] if k % 3 == 2 else []
        if sim_args:
            desc += ' [python=1]'
        if k % 4 == 1:
            # the LOAD command typed on the simulated keyboard (doubled quote key) instead of tap2sna's shortcut
            sim_args += ['-c', 'load=LOAD ""']
            desc += ' [load=LOAD ""]'
        o2 = _run_main(tap2sna.main, sim_args + [tapef, z80f])
        if not os.path.exists(z80f) or 'EXC' in o2 or 'EXIT' in o2:
            return ('tap2sna', desc, o2[-200:].replace('\n', '|'))
        try:
            s = Snapshot.get(z80f)
        except Exception as ex:      # the snapshot tap2sna wrote must be readable
            return ('loadback', desc, ['the snapshot written by tap2sna cannot be read back: %r' % (ex,)])
        mem = [0] * 16384 + list(s.ram())
        why = []
        if s.pc != start:
            why.append('pc %d != %d' % (s.pc, start))
        if stack is not None and s.sp != stack:
            why.append('sp %d != %d' % (s.sp, stack))
        diffs = [a for a in range(org, org + L) if mem[a] != data[a - org] and not (stack is not None and stack - 14 <= a < stack)]
        if diffs and not why and stack is not None and all(stack - 18 <= a < stack - 14 for a in diffs):
            # only the four bytes just below the documented 14 differ: a frame interrupt taken between the EI of the ROM's
            # SA/LD-RET and the final RET to START (its handler then starts two bytes deeper) - known finding F19
            return ('loadback-interrupt-window', desc, ['memory differs at %s (STACK-18..STACK-15)' % diffs[:4]])
        if diffs:
            why.append('memory differs at %s' % diffs[:4])
        if why:
            return ('loadback', desc, why)
        return None
    finally:
        shutil.rmtree(tmp, ignore_errors=True)


def loadback128_case(args):
    """bin2tap on a 128K image (--7ffd, --clear, --begin, optional --banks / --loader / --start) -> tap2sna -c machine=128:
    every requested RAM bank holds its bytes, the main block is at its addresses (bar the bank loader's own bytes),
    PC = START, port 0x7FFD holds the requested value."""
    seed, k = args
    from skoolkit import bin2tap, tap2sna
    from skoolkit.snapshot import Snapshot
    rnd = random.Random('%s/128/%s' % (seed, k))
    tmp = tempfile.mkdtemp(prefix='c12b_')
    try:
        image = bytes(rnd.randrange(1, 256) for _ in range(0x20000))
        binf = os.path.join(tmp, 'x.bin')
        with open(binf, 'wb') as f:
            f.write(image)
        clear = rnd.randrange(24200, 26000)
        begin = clear + 1 + rnd.choice((0, 0, 100))
        start = rnd.choice((32768, begin + 200, 40000))
        o7 = rnd.choice((0x10, 0x11, 0x13, 0x14, 0x16, 0x17, 0x00, 0x07))
        ext = rnd.choice(('tap', 'pzx'))
        args = ['--7ffd', str(o7), '-c', str(clear), '-b', str(begin), '-s', str(start)]
        all_banks = (0, 1, 3, 4, 6, 7)
        form = k % 4
        if form == 0:
            banks = all_banks           # --banks not given: the documented default
        elif form == 1:
            banks = tuple(b for b in all_banks if rnd.random() < 0.5) or (0,)
            args += ['--banks', ','.join(str(b) for b in banks)]
        elif form == 2:
            banks = (0,) + tuple(b for b in all_banks[1:] if rnd.random() < 0.4)      # bank 0 named explicitly
            args += ['--banks', ','.join(str(b) for b in sorted(banks, reverse=rnd.random() < 0.5))]
        else:
            banks = all_banks
            args += ['--banks', '0,1,3,4,6,7']
        slow = k % 10 == 9
        if slow:
            # the simulated ROM loader itself reads the bank from the tape (python=1, fast-load=0): one bank other than 0
            banks = (rnd.choice((1, 3, 4, 6, 7)),)
            if '--banks' in args:
                args[args.index('--banks') + 1] = str(banks[0])
            else:
                args += ['--banks', str(banks[0])]
        loader = clear + 1
        if rnd.random() < 0.3:
            loader = rnd.randrange(begin, 30000)
            args += ['--loader', str(loader)]
        if loader - 4 <= start < loader + 64:
            # START inside the bank loader's own bytes is not a program to load back: the loader replaces the image there
            start = 32768
            args[args.index('-s') + 1] = str(start)
        tapef = os.path.join(tmp, 'x.' + ext)
        z80f = os.path.join(tmp, 'x.z80')
        desc = ' '.join(args) + ' (%s)' % ext
        o1 = _run_main(bin2tap.main, args + [binf, tapef])
        if 'EXC' in o1 or 'EXIT' in o1:
            return ('bin2tap', desc, o1[-200:])
        o2 = _run_main(tap2sna.main, ['-c', 'machine=128', '--start', str(start)] + (['-c', 'python=1'] if k % 5 == 4 else []) + (['-c', 'fast-load=0'] if slow else []) + [tapef, z80f])
        if slow:
            desc += ' [python=1 fast-load=0]'
        if not os.path.exists(z80f) or 'EXC' in o2 or 'EXIT' in o2:
            return ('tap2sna', desc, o2[-200:].replace('\n', '|'))
        try:
            s = Snapshot.get(z80f)
            ram = s.ram(-1)
        except Exception as ex:
            return ('loadback128', desc, ['the snapshot written by tap2sna cannot be read back: %r' % (ex,)])
        why = []
        if len(ram) != 0x20000:
            return ('loadback128', desc, ['not a 128K snapshot (%d bytes of RAM)' % len(ram)])
        if s.pc != start:
            why.append('pc %d != %d' % (s.pc, start))
        if s.out7ffd != o7:
            why.append('port 0x7FFD holds %d, requested %d' % (s.out7ffd, o7))
        for addr in range(begin, 49152):
            if loader <= addr < loader + 64:
                continue
            b, off = (5, addr - 0x4000) if addr < 0x8000 else (2, addr - 0x8000)
            if ram[b * 0x4000 + off] != image[b * 0x4000 + off]:
                why.append('main block differs at %d' % addr)
                break
        for b in banks:
            if bytes(ram[b * 0x4000:(b + 1) * 0x4000]) != image[b * 0x4000:(b + 1) * 0x4000]:
                first = next(i for i in range(0x4000) if ram[b * 0x4000 + i] != image[b * 0x4000 + i])
                why.append('RAM bank %d was requested but does not hold its bytes (first difference at offset %d)' % (b, first))
                break
        if why:
            return ('loadback128', desc, why)
        return None
    finally:
        shutil.rmtree(tmp, ignore_errors=True)


def run(tier):
    rep = common.Report('C12', tier, 'other', './check C12 --tier %s' % tier)
    rep.trust('pyvc, z3 for the kernels; CPython + skoolkit\'s own simulator for the bounded load-back')
    rep.assume('the ROM routine LD-BYTES and the BASIC interpreter that run during a simulated LOAD are outside any function contract: the end-to-end statement is bounded only')
    rep.assume('BASIC loader text (_get_basic_loader) is tokenised BASIC interpreted by the ROM: only the bounded load-back exercises it')
    check_prefill(rep)
    check_small_kernels(rep)
    from props import loadervc, fastloadvc
    loadervc.check_data_loader(rep, 'C12')          # the emitted machine-code loader, executed over the ISA contracts
    loadervc.check_bank_loader(rep, 'C12')          # the 128K bank loader for every subset of banks
    fastloadvc.check_fast_load(rep, 'C12')          # tap2sna's stand-in for LD-BYTES puts block[1+k] at IX+k
    fastloadvc.check_block_selection(rep, 'C12')    # which tape block that stand-in takes: the next one whose data has not begun (and the loop ends)
    from props import edgevc
    edgevc.check_fast_load_bookkeeping(rep, 'C12')  # where the tape stands after a fast-loaded block (the last one stops the tape)
    loadervc.crosscheck_loaders(rep, 'C12')
    fastloadvc.crosscheck_fast_load(rep, 'C12')
    quick = tier == 'quick'
    n = 32 if quick else 1500
    t0 = time.time()
    exts = ext_variants()
    with Pool(common.NCPU) as p:
        res = p.map(loadback_case, [(common.seed(), k) for k in range(n)], chunksize=1)
        # E: the writer bin2tap picks and the reader tap2sna picks agree for every spelling of the extension
        res_e = p.map(loadback_case, [(common.seed(), 1000 + i, e) for i, e in enumerate(exts)], chunksize=1)
        n128 = 48 if quick else 1200
        res128 = p.map(loadback128_case, [(common.seed(), k) for k in range(n128)], chunksize=2)
    bad_e = [r for r in res_e if r]
    rep.add_bulk(len(exts) - len(bad_e), 'exhaustive', 0, 'skoolkit.bin2tap.run / skoolkit.tap2sna (tape format chosen from the file name)', n=len(exts))
    rep.exhaustive.append({'domain': 'upper/lower-case spellings of the output extensions .tap and .pzx (format written == format read)', 'size': len(exts), 'visited': len(exts), 'complete': True})
    for e, r in zip(exts, res_e):
        if r:
            rep.violation('C12/extension-case/%s' % e.lower(), 'bin2tap -> tap2sna with output name x.%s: %s %s' % (e, r[0], r[2]), {'case': {'args': r[1], 'extension': e}, 'observed': r[2]})
    bad = [r for r in res if r]
    rep.bounded.append({'function': 'skoolkit.bin2tap.main -> skoolkit.tap2sna.main', 'contract': 'loaded snapshot: memory == binary at ORG (bar 14 stack bytes), PC == START, SP == STACK',
                        'bound': '%d generated configurations (ORG/START/STACK incl. every partial stack overlap, CLEAR, screen, tap/pzx)' % n, 'evaluations': n})
    bad += [r for r in res128 if r]
    rep.bounded.append({'function': 'skoolkit.bin2tap.main (128K: --7ffd/--clear/--begin/--banks/--loader) -> skoolkit.tap2sna.main -c machine=128',
                        'contract': 'every requested RAM bank holds its bytes, main block at its addresses (bar the bank loader), PC == START, port 0x7FFD == requested value',
                        'bound': '%d generated 128K configurations (default banks, subsets, bank 0 named, the default list spelled out; tap/pzx; python=1 for one in five)' % n128, 'evaluations': n128})
    seen = set()
    for b in bad:
        key = 'C12/%s' % b[0]
        if b[0] == 'loadback-interrupt-window':
            key = 'C12/loadback/stack-18..15-interrupt-before-final-RET'
        if key in seen:
            continue
        seen.add(key)
        rep.violation(key, 'bin2tap %s: %s' % (b[1], b[2]), {'case': {'args': b[1]}, 'observed': b[2]})
    rep.extra['explanation'] = ('P: stack pre-fill, word/parity kernels for all values; the machine-code loaders emitted by _get_data_loader and _get_bank_loader '
                                'executed symbolically over the ISA contracts up to their jumps into LD-BYTES; LoadTracer.fast_load (the LD-BYTES stand-in) against its '
                                'contract with a loop invariant for the byte loop. B: end-to-end load-back')
    return rep.finish()


def replay(path):
    import json
    with open(path) as f:
        doc = json.load(f)
    case = doc.get('case') or {}
    print('replaying', doc.get('key'), case)
    if 'extension' in case:
        r = loadback_case((common.seed(), 1000, case['extension']))
        print(r)
        if r:
            print('VIOLATION property=C12 replay=%s' % path)
            return 1
        return 0
    if case.get('loader') == 'data':
        from props import loadervc
        r = loadervc.replay_data_loader({k: case[k] for k in ('org', 'length', 'start', 'stack')}, '')
        print(r['diffs'])
        if r['diffs']:
            print('VIOLATION property=C12 replay=%s' % path)
            return 1
        return 0
    if case.get('loader') == 'bank':
        from props import loadervc
        d = loadervc.concrete_bank_loader(case['banks'], case['loader_addr'], case['start'], case['out7ffd'])
        print(d)
        if d:
            print('VIOLATION property=C12 replay=%s' % path)
            return 1
        return 0
    if 'block_selection' in case or 'blocks' in case:
        from props import fastloadvc
        r = fastloadvc.concrete_selection() if 'blocks' in case else fastloadvc.block_selection_scenarios(tuple(case['block_selection']))
        print(r['diffs'][:2])
        if r['diffs']:
            print('VIOLATION property=C12 replay=%s' % path)
            return 1
        return 0
    if 'block' in case and 'regs' in case:
        from props import fastloadvc
        d = fastloadvc.concrete_fast_load(case['regs'], case['block'])
        print(d)
        if d:
            print('VIOLATION property=C12 replay=%s' % path)
            return 1
        return 0
    if doc.get('no_failing_input_found'):
        print(doc.get('what'))
        print('VIOLATION property=C12 replay=%s no-failing-input-found' % path)
        return 1
    if 'org' in case:
        d = concrete_prefill(case['org'], case['length'], case['stack'], case['start'])
        print(d)
        if d:
            print('VIOLATION property=C12 replay=%s' % path)
            return 1
        return 0
    return 1
