"""C08, 128K paging: contracts on pagingtracer.Memory, skoolutils.Memory and on
every copy of the 0x7FFD port decoder (PagingTracer.write_port and friends).

Abstract view of a Memory object: (o7ffd, phys) where phys maps
(bank id 0..7 = RAM banks, 8..9 = ROMs) x offset -> byte.
Representation invariant INV(o7ffd):
    memory[0] is roms[(o7ffd % 32) // 16],  memory[1] is banks[5],
    memory[2] is banks[2],                   memory[3] is banks[o7ffd % 8]
(object identity of the bank lists is modelled by the integer id).
"""
import z3

from pyvc import poly
from pyvc.poly import SV, SB, ite, and_, or_, not_, sv, cmpop, implies
from pyvc.engine import Engine, ObjModel, SymList, BankRef, BankTuple, PhysHeap, CallModel, SymMem
from props.funcvc import FuncVC


def byte(name):
    return SV(z3.BitVec(name, poly.W), 0, 255)


def mk_memory_model(cls, o7ffd, heap, inv=True, all_banks=True):
    """Symbolic Memory object satisfying INV(o7ffd)."""
    m = ObjModel(None, name='Memory', cls=cls)
    m.attrs['banks'] = BankTuple(heap, 0, 8)
    m.attrs['roms'] = BankTuple(heap, 8, 2)
    m.attrs['o7ffd'] = o7ffd
    m.attrs['machine'] = '128K'
    if inv:
        m.attrs['memory'] = SymList([BankRef(heap, 8 + ((o7ffd & 31) >> 4)), BankRef(heap, 5), BankRef(heap, 2),
                                     BankRef(heap, o7ffd & 7)], 'memory')
    return m


def inv_holds(m, o7ffd):
    """INV(o7ffd) as a condition on the model's `memory` list."""
    mem = m.attrs.get('memory')
    if not isinstance(mem, SymList) or len(mem.items) != 4 or not all(isinstance(x, BankRef) for x in mem.items):
        return False
    ids = [x.bid for x in mem.items]
    return and_(cmpop('==', ids[0], 8 + ((o7ffd & 31) >> 4)), cmpop('==', ids[1], 5), cmpop('==', ids[2], 2),
                cmpop('==', ids[3], o7ffd & 7))


def bank_of(index, o7ffd):
    """Which physical bank a flat address belongs to under INV(o7ffd)."""
    q = index >> 14
    return ite(q == 0, 8 + ((o7ffd & 31) >> 4), ite(q == 1, 5, ite(q == 2, 2, o7ffd & 7)))


def inline_all(fn):
    return fn.__module__.startswith('skoolkit.')


def check_memory_class(rep, prop, cls, label):
    """Contracts on cls.__getitem__/__setitem__/out7ffd (+ __init__ for pagingtracer)."""
    W = poly.W

    # ---- __getitem__(index), int path
    def start_get(eng):
        heap = PhysHeap()
        o = byte('o7ffd')
        m = mk_memory_model(cls, o, heap)
        index = SV(z3.BitVec('index', W), 0, 0xFFFF)
        p = eng.path
        p.heap, p.o, p.m, p.index = heap, o, m, index
        p.ret = eng.call_function(cls.__getitem__, [m, index])

    def post_get(p, prove):
        exp = z3.Select(p.heap.arr0, sv(bank_of(p.index, p.o) * 0x4000 + (p.index & 0x3FFF)).t)
        prove('post.result', SB(sv(p.ret).t == exp))
        prove('frame.phys', p.heap.arr.eq(p.heap.arr0))
        prove('inv.preserve', inv_holds(p.m, p.o))
        prove('frame.o7ffd', p.m.attrs['o7ffd'] is p.o)

    FuncVC(rep, prop, cls.__getitem__, label + '.__getitem__', Engine(inline_ok=inline_all)).run(start_get, post_get, replay_memory(cls))

    # ---- __setitem__(index, value), int path: exactly one physical cell changes
    def start_set(eng):
        heap = PhysHeap()
        o = byte('o7ffd')
        m = mk_memory_model(cls, o, heap)
        index = SV(z3.BitVec('index', W), 0, 0xFFFF)
        value = byte('value')
        p = eng.path
        p.heap, p.o, p.m, p.index, p.value = heap, o, m, index, value
        eng.call_function(cls.__setitem__, [m, index, value])

    def post_set(p, prove):
        cell = sv(bank_of(p.index, p.o) * 0x4000 + (p.index & 0x3FFF))
        prove('post.one_cell', SB(p.heap.arr == z3.Store(p.heap.arr0, cell.t, p.value.t)))
        prove('inv.preserve', inv_holds(p.m, p.o))
        prove('frame.o7ffd', p.m.attrs['o7ffd'] is p.o)
        # banks 5 and 2 stay fixed at 0x4000 / 0x8000 whatever is paged at 0xC000
        q = p.index >> 14
        prove('post.bank5_bank2_fixed', and_(implies(q == 1, bank_of(p.index, p.o) == 5), implies(q == 2, bank_of(p.index, p.o) == 2)))

    FuncVC(rep, prop, cls.__setitem__, label + '.__setitem__', Engine(inline_ok=inline_all)).run(start_set, post_set, replay_memory(cls))

    # ---- out7ffd(value): establishes INV(value), touches no byte
    def start_out(eng):
        heap = PhysHeap()
        o = byte('o7ffd')
        m = mk_memory_model(cls, o, heap)
        value = byte('value')
        p = eng.path
        p.heap, p.o, p.m, p.value = heap, o, m, value
        eng.call_function(cls.out7ffd, [m, value])

    def post_out(p, prove):
        prove('inv.establish', inv_holds(p.m, p.value))
        prove('post.o7ffd', cmpop('==', p.m.attrs['o7ffd'], p.value))
        prove('frame.phys', p.heap.arr.eq(p.heap.arr0))

    FuncVC(rep, prop, cls.out7ffd, label + '.out7ffd', Engine(inline_ok=inline_all)).run(start_out, post_out, replay_memory(cls))


def check_pagingtracer_memory_init(rep, prop):
    from skoolkit.pagingtracer import Memory

    def start(eng):
        heap = PhysHeap()
        o = byte('out7ffd')
        m = ObjModel(None, name='Memory', cls=Memory)

        def on_setattr(e, attr, v, node):
            # abstraction of the freshly read ROM lists: ids 8 and 9
            if attr == 'roms':
                if not (isinstance(v, tuple) and len(v) == 2):
                    e.oblige('post.roms', False, node)
                return BankTuple(heap, 8, 2)
            return v
        m.on_setattr = on_setattr
        p = eng.path
        p.heap, p.o, p.m = heap, o, m
        eng.call_function(Memory.__init__, [m, BankTuple(heap, 0, 8), o, '128K'])

    def post(p, prove):
        prove('inv.establish', inv_holds(p.m, p.o))
        prove('post.o7ffd', cmpop('==', p.m.attrs.get('o7ffd', -1), p.o))
        prove('frame.phys', p.heap.arr.eq(p.heap.arr0))

    FuncVC(rep, prop, Memory.__init__, 'skoolkit.pagingtracer.Memory.__init__', Engine(inline_ok=inline_all)).run(start, post, replay_memory(Memory))


# ------------------------------------------------------------ port decoders
def write_port_targets():
    """(label, function, how the tracer reaches the Memory object, needs isinstance)."""
    import skoolkit.pagingtracer as pt
    import skoolkit.rzxplay as rz
    import skoolkit.trace as tr
    import skoolkit.skoolmacro as sm
    return [
        ('skoolkit.pagingtracer.PagingTracer.write_port', pt.PagingTracer.write_port, 'simulator', pt.PagingTracer),
        ('skoolkit.pagingtracer.PagingTracer.write_port_with_border_list', pt.PagingTracer.write_port_with_border_list, 'simulator', pt.PagingTracer),
        ('skoolkit.rzxplay.RZXTracer.write_port', rz.RZXTracer.write_port, 'simulator', rz.RZXTracer),
        ('skoolkit.trace.Tracer._write_port', tr.Tracer._write_port, 'simulator', tr.Tracer),
        ('skoolkit.skoolmacro.PagingTracer.write_port', sm.PagingTracer.write_port, 'memory', sm.PagingTracer),
        ('skoolkit.skoolmacro.AudioTracer128.write_port', sm.AudioTracer128.write_port, 'memory', sm.AudioTracer128),
    ]


def check_write_port(rep, prop, label, fn, via, cls, is128):
    """post: the 0x7FFD decode (A15 = 0, A1 = 0) with the lock bit clear and a
    128K memory calls memory.out7ffd(value) exactly once and records value;
    otherwise neither the mapping nor the recorded value changes."""
    from skoolkit.pagingtracer import Memory
    W = poly.W

    def start(eng):
        p = eng.path
        p.calls = []
        port = SV(z3.BitVec('port', W), 0, 0xFFFF)
        value = byte('value')
        offset = SV(z3.BitVec('offset', W), 0, 255)
        o = byte('tracer_out7ffd')
        outfffd = byte('outfffd')
        regs = SymList([SV(z3.BitVec('r%d' % i, W), 0, (1 << 38) - 1 if i == 25 else 0xFFFF) for i in range(30)], 'registers')
        if is128:
            mem = ObjModel(None, name='Memory', cls=Memory)

            def out7ffd(e, args, kwargs, node):
                e.path.calls.append((list(e.path.pc) + list(e.guards), args[-1]))
                return None
            mem.attrs['out7ffd'] = CallModel(out7ffd, 'Memory.out7ffd')
        else:
            mem = SymMem('mem48')
        t = ObjModel(None, name='tracer', cls=cls)
        t.attrs.update({'out7ffd': o, 'outfffd': outfffd, 'outfe': byte('outfe'), 'border': SymList([], 'border') if 'border_list' in label or 'rzxplay' in label or 'trace.' in label else byte('border'),
                        'ay': SymList([byte('ay%d' % i) for i in range(16)], 'ay'), 'frame_duration': 69888,
                        'spkr': byte('spkr'), 'audio_log': SymList([], 'audio_log')})
        if via == 'simulator':
            sim = ObjModel(None, name='simulator')
            sim.attrs['memory'] = mem
            t.attrs['simulator'] = sim
        else:
            t.attrs['memory'] = mem
        p.t, p.port, p.value, p.o, p.mem = t, port, value, o, mem
        p.ay0 = list(t.attrs['ay'].items)
        p.outfffd0 = outfffd
        eng.call_function(fn, [t, regs, port, value, offset])

    def post(p, prove):
        decoded = and_((p.port & 0x8002) == 0, (p.o & 32) == 0)
        new_o = p.t.attrs['out7ffd']
        if is128:
            n = len(p.calls)
            if n == 0:
                prove('post.no_page_when_not_decoded_or_locked', not_(decoded))
                prove('post.out7ffd_unchanged', new_o is p.o)
            elif n == 1:
                prove('post.page_only_when_decoded', decoded)
                prove('post.paged_value', cmpop('==', p.calls[0][1], p.value))
                prove('post.out7ffd_recorded', cmpop('==', new_o, p.value))
            else:
                prove('post.single_page_call', False)
            # lock lemma: once bit 5 is set nothing changes the mapping
            prove('post.lock', or_((p.o & 32) == 0, n == 0 and new_o is p.o))
        else:
            prove('post.48k_no_paging', len(p.calls) == 0 and new_o is p.o)
        # AY register file: only the selected register may change, selection only via 0xFFFD
        ay = p.t.attrs['ay']
        ok = isinstance(ay, SymList) and len(ay.items) == 16
        prove('post.ay_shape', ok)
        if ok:
            sel = and_((p.port & 0xC002) == 0x8000, p.outfffd0 < 16, not_((p.port & 0xC002) == 0xC000))
            for i in range(16):
                prove('post.ay%d' % i, cmpop('==', ay.items[i], ite(and_(sel, p.outfffd0 == i), p.value, p.ay0[i])))
        prove('post.outfffd', cmpop('==', p.t.attrs['outfffd'], ite((p.port & 0xC002) == 0xC000, p.value, p.outfffd0)))

    eng = Engine(inline_ok=lambda f: False)
    orig = eng.sym_builtin

    def sym_builtin(f, name, args, kwargs, node):
        if name == 'isinstance' and len(args) == 2 and isinstance(args[0], SymMem):
            return False if args[1] is Memory else orig(f, name, args, kwargs, node)
        return orig(f, name, args, kwargs, node)
    eng.sym_builtin = sym_builtin
    FuncVC(rep, prop, fn, label + ('[128K]' if is128 else '[48K]'), eng).run(start, post, replay_write_port(fn, via, cls, is128))


# ------------------------------------------------------------ concrete side (replay + differential)
def concrete_memory(cls, o, index, value, seed=0):
    """Run the real Memory methods; check the contract on ints. Returns diffs."""
    import random
    rnd = random.Random(seed)
    diffs = []
    banks = [[rnd.randrange(256) for _ in range(0x4000)] for _ in range(8)]
    if cls.__module__ == 'skoolkit.pagingtracer':
        m = cls([b for b in banks], o)
    else:
        roms = ([rnd.randrange(256) for _ in range(0x4000)], [rnd.randrange(256) for _ in range(0x4000)])
        m = cls(banks=[b for b in banks], roms=roms)
        m.out7ffd(o)
    phys = list(m.banks) + list(m.roms)
    def bank_id(a, o_):
        q = a >> 14
        return (8 + ((o_ & 31) >> 4), 5, 2, o_ & 7)[q]
    exp_ids = [bank_id(q << 14, o) for q in range(4)]
    if any(m.memory[q] is not phys[exp_ids[q]] for q in range(4)):
        diffs.append(('inv', [next((i for i, b in enumerate(phys) if b is m.memory[q]), None) for q in range(4)], exp_ids))
    got = m[index]
    e = phys[bank_id(index, o)][index & 0x3FFF]
    if got != e:
        diffs.append(('post.result', got, e))
    snap = [list(b) for b in phys]
    m[index] = value
    snap[bank_id(index, o)][index & 0x3FFF] = value
    now = [list(b) for b in phys]
    if now != snap:
        diffs.append(('post.one_cell', [(i, j) for i in range(10) for j in range(0x4000) if now[i][j] != snap[i][j]][:4]))
    if m.o7ffd != o:
        diffs.append(('frame.o7ffd', m.o7ffd, o))
    return diffs


def replay_memory(cls):
    def rp(vals, kind):
        import random
        o = vals.get('o7ffd', vals.get('out7ffd', 0)) & 255
        index = vals.get('index', 0) & 0xFFFF
        value = vals.get('value', 0) & 255
        if 'value' in vals and 'index' not in vals:
            # out7ffd(value)
            d = concrete_memory(cls, value, 0xC000, 1)
            return {'case': {'o7ffd': value}, 'diffs': d}
        d = concrete_memory(cls, o, index, value)
        rnd = random.Random(1)
        k = 0
        while not d and k < 200:
            k += 1
            value = rnd.randrange(256)
            d = concrete_memory(cls, o, index, value, seed=k)
        return {'case': {'o7ffd': o, 'index': index, 'value': value}, 'diffs': d}
    return rp


def concrete_write_port(fn, via, cls, is128, port, value, o, outfffd, seed=0):
    """Run the real decoder on a hand-built tracer object; check the contract."""
    import random
    from skoolkit.pagingtracer import Memory
    rnd = random.Random(seed)
    calls = []

    class RecMemory(Memory):
        def __init__(self):
            self.o7ffd = o
        def out7ffd(self, v):
            calls.append(v)
            self.o7ffd = v
    mem = RecMemory() if is128 else [0] * 65536
    t = object.__new__(cls)
    ay0 = [rnd.randrange(256) for _ in range(16)]
    t.out7ffd = o
    t.outfffd = outfffd
    t.outfe = 0
    t.ay = list(ay0)
    t.frame_duration = 69888
    t.spkr = None
    t.audio_log = []
    t.border = [] if ('border_list' in fn.__qualname__ or cls.__module__ in ('skoolkit.rzxplay', 'skoolkit.trace')) else 0
    if via == 'simulator':
        class S:
            pass
        t.simulator = S()
        t.simulator.memory = mem
    else:
        t.memory = mem
    regs = [0] * 30
    fn(t, regs, port, value, 12)
    diffs = []
    decoded = (port & 0x8002) == 0 and (o & 32) == 0 and is128
    if decoded:
        if calls != [value]:
            diffs.append(('post.paged_value', calls, [value]))
        if t.out7ffd != value:
            diffs.append(('post.out7ffd_recorded', t.out7ffd, value))
    else:
        if calls:
            diffs.append(('post.no_page_when_not_decoded_or_locked', calls, []))
        if t.out7ffd != o:
            diffs.append(('post.out7ffd_unchanged', t.out7ffd, o))
    exp_ay = list(ay0)
    if (port & 0xC002) == 0x8000 and outfffd < 16:
        exp_ay[outfffd] = value
    if t.ay != exp_ay:
        diffs.append(('post.ay', t.ay, exp_ay))
    e = value if (port & 0xC002) == 0xC000 else outfffd
    if t.outfffd != e:
        diffs.append(('post.outfffd', t.outfffd, e))
    return diffs


def replay_write_port(fn, via, cls, is128):
    def rp(vals, kind):
        port = vals.get('port', 0) & 0xFFFF
        value = vals.get('value', 0) & 255
        o = vals.get('tracer_out7ffd', 0) & 255
        outfffd = vals.get('outfffd', 0) & 255
        d = concrete_write_port(fn, via, cls, is128, port, value, o, outfffd)
        if not d:
            # the solver leaves variables the failing obligation does not mention at 0: try other written values too
            for value in ((o ^ 0x10) & 255, 0x17, 0xFF, 0):
                d = concrete_write_port(fn, via, cls, is128, port, value, o, outfffd)
                if d:
                    break
        return {'case': {'port': port, 'value': value, 'out7ffd': o, 'outfffd': outfffd, 'is128': is128}, 'diffs': d}
    return rp


# ---------------------------------------------------------------------------------------------------------------------
# skoolutils.Memory.copy (used by #SIM, #PUSHS/#POPS and the ASM writer's snapshot stack)
def check_memory_copy(rep, prop):
    """E over the finite space the method can distinguish: every value of port 0x7FFD (256) x the content-equality
    pattern of the banks and ROMs (all different; all RAM banks identical; the paged bank identical to bank 0 only;
    the two ROMs identical) - copy() looks at contents only through list equality, so these patterns cover it.
    Contract: the copy satisfies the representation invariant of the class for the same o7ffd (memory[3] is its own
    banks[o7ffd % 8], memory[0] is its own roms[(o7ffd % 32) // 16], banks 5 and 2 at 0x4000 / 0x8000), holds the same
    bytes everywhere, shares no list with the original, and the original is untouched."""
    import time
    import skoolkit.skoolutils as su
    t0 = time.time()
    name = 'skoolkit.skoolutils.Memory.copy'
    n = 0
    bad = []
    for pattern in ('distinct', 'all_equal', 'paged_equals_bank0', 'roms_equal'):
        for o in range(256):
            n += 1
            page, romid = o % 8, (o % 32) // 16
            if pattern == 'distinct' or pattern == 'roms_equal':
                banks = [[i + 1] * 0x4000 for i in range(8)]
            elif pattern == 'all_equal':
                banks = [[0] * 0x4000 for i in range(8)]
            else:
                banks = [[i + 1] * 0x4000 for i in range(8)]
                banks[page] = list(banks[0])
            roms = ([7] * 0x4000, [7] * 0x4000) if pattern == 'roms_equal' else ([8] * 0x4000, [9] * 0x4000)
            m = su.Memory(banks=banks, roms=roms)
            m.out7ffd(o)
            before = ([list(b) for b in m.banks], [list(r) for r in m.roms])
            try:
                c = m.copy()
            except Exception as ex:
                bad.append((pattern, o, 'exception %r' % (ex,)))
                continue
            why = None
            if c.o7ffd != o:
                why = 'o7ffd is %r' % (c.o7ffd,)
            elif c.memory[3] is not c.banks[page]:
                why = 'memory[3] (0xC000) is bank %s of the copy, not bank %d' % ([i for i, b in enumerate(c.banks) if b is c.memory[3]], page)
            elif c.memory[0] is not c.roms[romid]:
                why = 'memory[0] is ROM %s of the copy, not ROM %d' % ([i for i, r in enumerate(c.roms) if r is c.memory[0]], romid)
            elif c.memory[1] is not c.banks[5] or c.memory[2] is not c.banks[2]:
                why = 'banks 5 / 2 are not the ones at 0x4000 / 0x8000'
            elif [list(b) for b in c.banks] != before[0] or [list(r) for r in c.roms] != before[1]:
                why = 'contents differ'
            elif any(x is y for x in list(c.banks) + list(c.roms) for y in list(m.banks) + list(m.roms)):
                why = 'the copy shares a bank with the original'
            elif ([list(b) for b in m.banks], [list(r) for r in m.roms]) != before or m.memory[3] is not m.banks[page]:
                why = 'the original was modified'
            if why:
                bad.append((pattern, o, why))
    rep.add_bulk(n - len(bad), 'exhaustive', time.time() - t0, name, n=n)
    rep.exhaustive.append({'domain': 'skoolutils.Memory.copy: o7ffd 0..255 x 4 content-equality patterns of banks / ROMs', 'size': n, 'visited': n, 'complete': True})
    seen = set()
    for pattern, o, why in bad:
        key = '%s/%s/%s' % (prop, name, pattern)
        if key in seen:
            continue
        seen.add(key)
        rep.violation(key, 'Memory.copy() with o7ffd=%d, banks %s: %s' % (o, pattern, why), {'case': {'memory_copy': pattern, 'o7ffd': o}, 'observed': why})


def check_memory_bank(rep, prop):
    """skoolutils.Memory.bank(page[, data]) - the @bank directive. E over (initial o7ffd 0..31 as left by out7ffd or by
    a fresh 48K memory) x page 0..7 x {select, load data}: afterwards the representation invariant holds (banks 5 and
    2 at 0x4000 / 0x8000, memory[3] is banks[o7ffd % 8]), `bank(page)` selects the page (low three bits of o7ffd),
    `bank(page, data)` puts the data in that bank and it is visible through every address the bank is mapped at."""
    import time
    import skoolkit.skoolutils as su
    t0 = time.time()
    name = 'skoolkit.skoolutils.Memory.bank'
    n = 0
    bad = []
    roms = ([8] * 0x4000, [9] * 0x4000)
    for fresh in (True, False):
        for o in (range(1) if fresh else range(32)):
            for page in range(8):
                for load in (False, True):
                    n += 1
                    if fresh:
                        m = su.Memory(roms=roms)        # 48K until the first @bank
                    else:
                        m = su.Memory(banks=[[i + 1] * 0x4000 for i in range(8)], roms=roms)
                        m.out7ffd(o)
                    data = [0x50 + page] * 0x4000
                    try:
                        if load:
                            m.bank(page, data)
                        else:
                            m.bank(page)
                    except Exception as ex:
                        bad.append((fresh, o, page, load, 'exception %r' % (ex,)))
                        continue
                    why = None
                    sel = m.o7ffd % 8
                    if not all(m.banks):
                        why = 'not every bank exists afterwards'
                    elif m.memory[1] is not m.banks[5] or m.memory[2] is not m.banks[2]:
                        why = 'banks 5 / 2 are not the lists mapped at 0x4000 / 0x8000'
                    elif m.memory[3] is not m.banks[sel]:
                        why = 'memory[3] (0xC000) is not bank %d, which o7ffd = %d names' % (sel, m.o7ffd)
                    elif not load and sel != page:
                        why = 'bank(%d) left page %d selected' % (page, sel)
                    elif load and list(m.banks[page]) != data:
                        why = 'bank %d does not hold the data' % page
                    elif load:
                        # visible wherever the bank is mapped
                        for slot, b in ((1, 5), (2, 2), (3, sel)):
                            if b == page and m[slot * 0x4000] != data[0]:
                                why = 'the data is in bank %d but address %d still reads %d' % (page, slot * 0x4000, m[slot * 0x4000])
                                break
                    if why:
                        bad.append((fresh, o, page, load, why))
    rep.add_bulk(n - len(bad), 'exhaustive', time.time() - t0, name, n=n)
    rep.exhaustive.append({'domain': 'skoolutils.Memory.bank: {fresh 48K memory, 128K memory with o7ffd 0..31} x page 0..7 x {select, load data}', 'size': n, 'visited': n, 'complete': True})
    seen = set()
    for fresh, o, page, load, why in bad:
        key = '%s/%s/%s' % (prop, name, 'load' if load else 'select')
        if key in seen:
            continue
        seen.add(key)
        rep.violation(key, 'Memory.bank(%d%s) on a %s: %s' % (page, ', data' if load else '', 'fresh 48K memory' if fresh else '128K memory with o7ffd=%d' % o, why),
                      {'case': {'memory_bank': [fresh, o, page, load]}, 'observed': why})


def replay_memory_copy():
    from props import common
    rep = common.SubReport('C08')
    check_memory_copy(rep, 'C08')
    check_memory_bank(rep, 'C08')
    return rep.pending
