"""C14 - sna2ctl always emits a complete, ordered, non-overlapping control file.

The tiling statement reduces to the *key discipline* of the ctls dictionary:
`start` and `end` are keys, every key lies in [start, end]; write_ctl prints
sorted(ctls).  P: site obligations at every insertion / deletion of
_find_terminal_instruction (all three calling modes) and at the block-start
appends of _generate_ctls_without_code_map's decode loop and at every store /
deletion of its three dictionary phases (props/c14dict.py), with ghost values for
the requested range; loops by havoc + invariant; decode() and the text scanners
(props/c14text.py) by their proved contracts.
B: the whole generator + write_ctl on generated images and code maps, with the
caller-side preconditions of _find_terminal_instruction checked at run time.
"""
import ast
import contextlib
import io
import os
import random
import shutil
import tempfile
import time
from multiprocessing import Pool

import z3

from props import common
from props.funcvc import FuncVC
from pyvc import poly
from pyvc.poly import SV, SB, ite, and_, or_, not_, sv, cmpop, truth
from pyvc.engine import Engine, TrackedDict, CallModel, UNK, Unknown, SymList, _Unbound, PathEnd, _Break, _Continue, func_ast
from pyvc.loops import havoc_loop, assigned_names, BIG


def loop_ordinals(fn):
    node, _ = func_ast(fn)
    loops = [n for n in ast.walk(node) if isinstance(n, (ast.While, ast.For))]
    loops.sort(key=lambda n: (n.lineno, n.col_offset))
    return node, loops


def check_find_terminal(rep):
    import skoolkit.snactl as S
    import skoolkit.opcodes as O
    W = poly.W
    fn = S._find_terminal_instruction
    node, loops = loop_ordinals(fn)
    q = fn.__qualname__
    wh = [i for i, l in enumerate(loops) if isinstance(l, ast.While)]
    fo = [i for i, l in enumerate(loops) if isinstance(l, ast.For)]

    for mode in (None, 'c', 'U'):
        def start(eng, mode=mode):
            p = eng.path
            p.gstart = SV(z3.BitVec('gstart', W), 0, 65535)
            p.gend = SV(z3.BitVec('gend', W), 1, 65536)
            p.start = SV(z3.BitVec('start', W), 0, 65536)
            p.end = SV(z3.BitVec('end', W), 0, 65536)
            # start == 65536 only together with start >= end (a block that ends at the top of memory: the call does nothing)
            pre = [p.gstart.t >= 0, p.gstart.t < p.gend.t, p.gend.t <= 65536, p.start.t >= p.gstart.t, z3.Or(p.start.t <= 65535, p.start.t >= p.end.t), p.start.t <= 65536,
                   p.end.t <= p.gend.t, p.end.t >= 0, p.start.t >= 0]
            if mode is None:
                pre.append(p.start.t > p.gstart.t)
            p.facts.extend(pre)

            def on_insert(e, key, v, n):
                e.oblige('key_in_range', and_(cmpop('>=', key, p.gstart), cmpop('<=', key, p.gend)), n)

            def on_delete(e, key, n):
                e.oblige('keep_endpoints', and_(cmpop('!=', key, p.gstart), cmpop('!=', key, p.gend)), n)
            ctls = TrackedDict('ctls', on_insert, on_delete)
            if mode is None:
                ctls.members.append(p.start)      # the caller passes a block boundary: a key of ctls
            p.ctls = ctls

            def decode_model(e, args, kwargs, n):
                a = args[1]
                size = e.fresh('size', 1, 4)
                opid = e.fresh('op_id', 0, 1 << 32)
                mc = e.fresh('max_count', 0, 255)
                return iter([(a, size, mc, opid, UNK, None)])
            eng.call_models[id(O.decode)] = decode_model
            eng.call_models[id(S.decode)] = decode_model
            eng.loop_invariants = {
                (q, wh[0]): havoc_loop(invariant=lambda e, loc: and_(cmpop('>=', loc['address'], p.start), or_(cmpop('<=', loc['address'], p.end), cmpop('>=', p.start, p.end))), peel=1,
                                       int_names=('address', 'i_addr', 'size', 'max_count', 'op_id', 'a'), on_havoc=lambda e: ctls.forget(), int_range=(0, 1 << 20)),
                (q, fo[0]): havoc_loop(peel=1, int_names=('a',), on_havoc=lambda e: ctls.forget(), int_range=(0, 1 << 20)),
            }
            p.ret = eng.call_function(fn, [UNK, ctls, p.start, p.end, None, mode])

        def post(p, prove, mode=mode):
            prove('post.result_ge_start', cmpop('>=', p.ret, p.start))
            prove('post.result_le_end_or_start', or_(cmpop('<=', p.ret, p.end), cmpop('>=', p.start, p.end)))
        eng = Engine(inline_ok=lambda f: False, unknown_ok=True)
        vc = FuncVC(rep, 'C14', fn, 'skoolkit.snactl._find_terminal_instruction[ctl=%r]' % (mode,), eng)
        vc.run(start, post, replay_find_terminal(mode))


def replay_find_terminal(mode):
    def rp(vals, kind):
        """Concrete witness: an instruction that straddles `end`."""
        import skoolkit.snactl as S
        gstart, gend = vals.get('gstart', 32768), vals.get('gend', 32772)
        start, end = vals.get('start', gstart + 1), vals.get('end', gend)
        size = max(1, min(4, vals.get('size!1', 3)))
        snap = [0] * 65536
        # a terminal instruction of the model's size at `start` (JP nn = 3 bytes, RET = 1, JR = 2, LD (nn),SP... = 4 not terminal -> use DD E9 + pad)
        seq = {1: [0xC9], 2: [0x18, 0x00], 3: [0xC3, 0x00, 0x80], 4: [0xC3, 0x00, 0x80]}[size]
        if start + len(seq) > 65536:
            return {'case': vals, 'diffs': []}
        for k, b in enumerate(seq):
            snap[start + k] = b
        ctls = {gstart: 'U', gend: 'i'}
        if mode is None:
            ctls[start] = 'U'
        before = dict(ctls)
        try:
            r = S._find_terminal_instruction(snap, ctls, start, end, None, mode)
        except Exception as ex:
            return {'case': {'gstart': gstart, 'gend': gend, 'start': start, 'end': end, 'bytes': seq}, 'diffs': [('exception', repr(ex))]}
        diffs = []
        if gstart not in ctls or gend not in ctls:
            diffs.append(('endpoint deleted', sorted(before), sorted(ctls)))
        if any(not gstart <= k <= gend for k in ctls):
            diffs.append(('key outside the requested range', sorted(ctls), (gstart, gend)))
        return {'case': {'gstart': gstart, 'gend': gend, 'start': start, 'end': end, 'bytes': seq, 'ctl': mode}, 'diffs': diffs}
    return rp


def check_without_code_map(rep):
    """Block-start sites of the decode loop in _generate_ctls_without_code_map."""
    import skoolkit.snactl as S
    import skoolkit.opcodes as O
    W = poly.W
    fn = S._generate_ctls_without_code_map
    node, loops = loop_ordinals(fn)
    q = fn.__qualname__
    first_for = next(i for i, l in enumerate(loops) if isinstance(l, ast.For))
    # the slice: everything up to and including `ctls.append((end, 'i'))` (before `ctls = dict(ctls)`)
    stmts = []
    for s in node.body:
        if isinstance(s, ast.Assign) and ast.unparse(s.value).startswith('dict('):
            break
        stmts.append(s)

    class Seq:
        """list of (address, ctl) pairs: contents unknown, appends are sites."""

    def start(eng):
        p = eng.path
        p.start = SV(z3.BitVec('start', W), 0, 65535)
        p.end = SV(z3.BitVec('end', W), 1, 65536)
        p.facts.extend([p.start.t >= 0, p.start.t < p.end.t, p.end.t <= 65536])
        p.appended = []

        def append_model(e, args, kwargs, n):
            item = args[0]
            key = item[0] if isinstance(item, tuple) else UNK
            if isinstance(key, Unknown):
                e.oblige('key_in_range', False, n, info='unknown key')
            else:
                e.oblige('key_in_range', and_(cmpop('>=', key, p.start), cmpop('<=', key, p.end)), n)
            return None
        seq = TrackedSeq(append_model)

        def gen_loop(e, node_):
            """for addr, size, ... in decode(snapshot, start, end): havoc + one arbitrary iteration."""
            fr = e.frames[-1]
            inv = lambda: and_(cmpop('>=', fr.loc['ctl_addr'], p.start), cmpop('<=', fr.loc['ctl_addr'], p.end))
            e.oblige('inv.establish', inv(), node_)
            for nm in assigned_names(node_.body):
                cur = fr.loc.get(nm)
                if nm in ('ctl_addr', 'count', 'prev_max_count'):
                    fr.loc[nm] = e.fresh('h_' + nm, 0, 1 << 20)
                elif nm in fr.loc:
                    fr.loc[nm] = UNK
            e.assume(inv())
            e.fresh_n += 1
            more = SB(z3.Bool('more!%d' % e.fresh_n))
            if e.decide(more):
                addr = e.fresh('addr', 0, 65535)
                size = e.fresh('size', 1, 4)
                # contract of decode(snapshot, start, end): start <= addr < end, size >= 1
                e.assume(and_(cmpop('>=', addr, p.start), cmpop('<', addr, p.end)))
                # instructions are yielded in address order: a pending block start never lies beyond the current instruction
                e.assume(cmpop('<=', fr.loc['ctl_addr'], addr))
                e.assign(node_.target, (addr, size, e.fresh('max_count', 0, 255), e.fresh('op_id', 0, 1 << 32), UNK, None))
                try:
                    e.exec_block(node_.body)
                except _Continue:
                    pass
                e.oblige('inv.preserve', inv(), node_)
                raise PathEnd()
        eng.loop_invariants = {(q, first_for): gen_loop}
        eng.call_models[id(S.decode)] = lambda e, a, k, n: UNK
        locs = {'snapshot': UNK, 'start': p.start, 'end': p.end, 'config': UNK, 'rst_handler': None}
        # `ctls = []` is executed by the slice itself; intercept the list it creates
        eng.list_factory = lambda: seq
        eng.run_stmts(fn, stmts, locs)

    eng = SeqEngine(inline_ok=lambda f: f.__module__ == 'skoolkit.snactl' and f.__name__ == '_catch_data', unknown_ok=True)
    FuncVC(rep, 'C14', fn, 'skoolkit.snactl._generate_ctls_without_code_map[decode loop]', eng).run(start, None, replay_without_map)


class TrackedSeq:
    def __init__(self, on_append):
        self.on_append = on_append


class SeqEngine(Engine):
    list_factory = None

    def ev(self, e):
        if isinstance(e, ast.List) and not e.elts and self.list_factory is not None:
            return self.list_factory()
        return super().ev(e)

    def getattr(self, obj, attr, node):
        if isinstance(obj, TrackedSeq):
            if attr == 'append':
                return CallModel(obj.on_append, 'append')
            raise poly.Refuse('sequence method ' + attr)
        return super().getattr(obj, attr, node)

    def getitem(self, base, idx, node):
        if isinstance(base, TrackedSeq):
            return UNK
        return super().getitem(base, idx, node)

    def as_cond(self, v):
        if isinstance(v, TrackedSeq):
            return super().as_cond(UNK)
        return super().as_cond(v)

    def ev_boolop(self, e):
        return super().ev_boolop(e)


def replay_without_map(vals, kind):
    """The obligations of the decode loop speak about an instruction that straddles `end`; plant one
    (a terminal 3-byte JP, then a non-terminal 3-byte LD) at end-1 for the model's range and a few others."""
    import skoolkit.snactl as S
    start0 = vals.get('start', 32768)
    end0 = vals.get('end', start0 + 3)
    cands = [(start0, end0), (32768, 32771), (16384, 16390), (65000, 65530), (0, 5)]
    first = None
    for start, end in cands:
        if not (0 <= start < end <= 65536) or end + 2 > 65536:
            continue
        # (the last three: a terminal instruction whose operand bytes are text, ending exactly at `end`, for the text pass
        #  with a low TextMinLengthCode)
        for seq in ([0xC3, 0x00, 0x80], [0x21, 0x00, 0x80], [0xC9], [0x18, 0x00], [0xC3, 0x30, 0x30], [0x18, 0x41], [0x3E, 0x41, 0xC3, 0x42, 0x43]):
            snap = [0] * 65536
            textual = seq in ([0xC3, 0x30, 0x30], [0x18, 0x41], [0x3E, 0x41, 0xC3, 0x42, 0x43])
            at = end - len(seq) if textual else end - 1
            if at < start:
                continue
            snap[at:at + len(seq)] = seq
            cfg = _Cfg()
            if textual:
                cfg.text_min_length_code = 1 if len(seq) == 2 else 2
            try:
                ctls = S._generate_ctls_without_code_map(snap, start, end, cfg, None)
            except Exception as ex:
                return {'case': {'start': start, 'end': end, 'bytes at end-1': seq}, 'diffs': [('exception', repr(ex)[:200], 'none')]}
            diffs = []
            if any(not start <= k <= end for k in ctls):
                diffs.append(('key outside the requested range', sorted(ctls), (start, end)))
            if ctls.get(end) != 'i' and end < 65536:
                diffs.append(('no terminator at end', sorted(ctls.items())))
            if min(ctls) != start:
                diffs.append(('first directive not at start', sorted(ctls)[:2], start))
            case = {'start': start, 'end': end, 'bytes at end-1': seq}
            if diffs:
                return {'case': case, 'diffs': diffs}
            first = first or case
    return {'case': first, 'diffs': []}


class _Cfg:
    handle_rst = False
    text_chars = ''.join(chr(c) for c in range(32, 127))
    text_min_length_code = 12
    text_min_length_data = 3
    words = ()


# ------------------------------------------------------------------ B
def tiling_errors(ctls, start, end):
    keys = sorted(ctls)
    errs = []
    if not keys or keys[0] != start:
        errs.append('first directive at %s, not at start %d' % (keys[:1], start))
    if any(k > end or k < start for k in keys):
        errs.append('directive outside [start,end]: %s' % [k for k in keys if k > end or k < start][:4])
    if end < 65536 and ctls.get(end) != 'i':
        errs.append('no terminating i directive at end %d (last: %s)' % (end, [(k, ctls[k]) for k in keys[-2:]]))
    if any(ctls[k] not in 'bcgistuw' for k in keys):
        errs.append('unknown block type')
    return errs


def gen_image(rnd, start, end):
    snap = [0] * 65536
    a = max(0, start - 8)
    stop = min(65536, end + 8)
    while a < stop:
        kind = rnd.random()
        if kind < 0.35:
            # code-like: a few instructions ending in RET/JP/JR
            for _ in range(rnd.randrange(1, 8)):
                seq = rnd.choice(([0x3E, rnd.randrange(256)], [0x21, rnd.randrange(256), rnd.randrange(256)], [0xCD, rnd.randrange(256), rnd.randrange(128, 256)],
                                  [0x00], [0xDD, 0x7E, rnd.randrange(256)], [0xED, 0xB0], [0xDD, 0xCB, 1, 0x46], [0x20, rnd.randrange(256)], [0xDD], [0xED, 0x00]))
                for b in seq:
                    if a < stop:
                        snap[a] = b
                        a += 1
            seq = rnd.choice(([0xC9], [0xC3, rnd.randrange(256), rnd.randrange(128, 256)], [0x18, rnd.randrange(256)], [0xE9]))
            for b in seq:
                if a < stop:
                    snap[a] = b
                    a += 1
        elif kind < 0.5:
            for ch in rnd.choice((b'HELLO WORLD', b'Press any key', b'abc', b'(c) 1984 Somebody')):
                if a < stop:
                    snap[a] = ch
                    a += 1
        elif kind < 0.7:
            a += rnd.randrange(1, 12)
        else:
            for _ in range(rnd.randrange(1, 10)):
                if a < stop:
                    snap[a] = rnd.randrange(256)
                    a += 1
    return snap


def bounded_case(args):
    seed, k = args
    import skoolkit.snactl as S
    rnd = random.Random('%s/%s' % (seed, k))
    L = rnd.choice((1, 2, 3, 5, 20, rnd.randrange(1, 120)))
    start = rnd.choice((32768, 65536 - L, 0, rnd.randrange(0, 65536 - L)))
    end = start + L
    snap = gen_image(rnd, start, end)
    # make "ending mid-instruction at END" likely
    if rnd.random() < 0.5 and end >= start + 1 and end + 2 <= 65536:
        a = end - rnd.choice((1, 2))
        if a >= start:
            for i, b in enumerate(rnd.choice(([0xC3, 0x00, 0x80], [0x18, 0x05], [0xCD, 0x00, 0x80], [0xDD, 0x36, 1, 2], [0x21, 1, 2]))):
                if a + i < 65536:
                    snap[a + i] = b
    use_map = rnd.random() < 0.5
    tmp = None
    cfg = _Cfg()
    if rnd.random() < 0.35:
        # the TextMinLength* options of the property's quantifier
        cfg.text_min_length_code = rnd.choice((1, 2, 3, 12))
        cfg.text_min_length_data = rnd.choice((1, 2, 3))
    pre_viol = []
    orig = S._find_terminal_instruction

    def guarded(snapshot, ctls, s, e, rst_handler, ctl=None):
        # caller-side preconditions of the contract proved for _find_terminal_instruction
        if not (start <= s and e <= end):
            pre_viol.append('range (%d,%d) outside (%d,%d)' % (s, e, start, end))
        if ctl is None and s < e and s not in ctls:
            pre_viol.append('start %d is not a key of ctls (ctl=None)' % s)
        return orig(snapshot, ctls, s, e, rst_handler, ctl)
    try:
        code_map = None
        desc = 'image seed=%s/%s start=%d end=%d' % (seed, k, start, end)
        if use_map:
            tmp = tempfile.mkdtemp(prefix='c14_')
            code_map = os.path.join(tmp, 'map.log')
            addrs = sorted(set(rnd.randrange(start, end) for _ in range(rnd.randrange(1, max(2, L // 3 + 1)))))
            if L >= 10 and rnd.random() < 0.4:
                # a real execution trace through overlapping code: a relative jump over one byte that, decoded linearly,
                # is the opcode of a longer instruction swallowing the jump target
                g = rnd.randrange(start, end - 9)
                hide = rnd.choice((0xC3, 0x21, 0xCD, 0x01, 0x11, 0x3E, 0x06, 0xDD, 0x36))
                body = []
                trace = [g, g + 3]
                for _ in range(rnd.randrange(1, 3)):
                    ins = rnd.choice(([0x3E, 0x00], [0x00], [0xAF], [0x06, 0x07], [0x23]))
                    body += ins
                    trace.append(g + 3 + len(body))
                body += [0xC9]
                gadget = [rnd.choice((0x18, 0x28, 0x20, 0x38)), 0x01, hide] + body
                if g + len(gadget) <= end:
                    for i, b in enumerate(gadget):
                        snap[g + i] = b
                    addrs = sorted(set(trace))
            with open(code_map, 'w') as f:
                for a in addrs:
                    f.write('$%04X\n' % a)
            desc += ' map=%s' % ['$%04X' % a for a in addrs]
        S._find_terminal_instruction = guarded
        err = io.StringIO()
        t0 = time.time()
        try:
            with contextlib.redirect_stderr(err):
                ctls = S.generate_ctls(snap, start, end, code_map, cfg)
        except Exception as ex:
            return ('exception', desc, repr(ex), snap[max(0, start - 2):end + 4])
        errs = tiling_errors(ctls, start, end)
        if use_map:
            keys = sorted(ctls)
            for a in addrs:
                blk = max(kk for kk in keys if kk <= a) if any(kk <= a for kk in keys) else None
                if blk is None or ctls[blk] != 'c':
                    errs.append('code map address %d not in a c block (%s)' % (a, (blk, ctls.get(blk))))
                    break
        if errs:
            return ('tiling', desc, errs, snap[max(0, start - 2):end + 4])
        if pre_viol:
            return ('precondition-note', desc, pre_viol[:3], snap[max(0, start - 2):end + 4])
        return None
    finally:
        S._find_terminal_instruction = orig
        if tmp:
            shutil.rmtree(tmp, ignore_errors=True)


def comments_case(args):
    """sna2ctl -C (and -r) on a generated image through the real tool: it terminates without an exception, the block
    directives tile the range, and every sub-block directive the comment generator adds lies inside its block, in
    increasing order."""
    seed, k = args
    from skoolkit import sna2ctl
    rnd = random.Random('%s/comments/%s' % (seed, k))
    L = rnd.choice((3, 5, 20, rnd.randrange(1, 120)))
    start = rnd.choice((32768, 65536 - L, rnd.randrange(16384, 65536 - L)))
    end = start + L
    snap = gen_image(rnd, start, end)
    # lone prefixes and prefix chains before an opcode they do not affect
    for _ in range(rnd.randrange(0, 3)):
        a = rnd.randrange(start, end)
        for i, b in enumerate(rnd.choice(([0xDD, 0x00], [0xFD, 0x3E, 0x01], [0xDD, 0xDD, 0x21], [0xFD, 0xC9], [0xDD, 0xED, 0xB0]))):
            if a + i < end:
                snap[a + i] = b
    tmp = tempfile.mkdtemp(prefix='c14c_')
    try:
        binf = os.path.join(tmp, 'x.bin')
        with open(binf, 'wb') as f:
            f.write(bytes(snap[start:end]))
        opts = ['-o', str(start), '-C'] + (['-r'] if rnd.random() < 0.3 else []) + (['-h'] if rnd.random() < 0.3 else [])
        desc = 'sna2ctl %s on %d bytes at %d: %s' % (' '.join(opts[2:]), L, start, snap[start:end][:24])
        out, err = io.StringIO(), io.StringIO()
        try:
            with contextlib.redirect_stdout(out), contextlib.redirect_stderr(err):
                sna2ctl.main(opts + [binf])
        except SystemExit as ex:
            if ex.code not in (0, None):
                return ('comments/exit', desc, 'exit %r: %s' % (ex.code, err.getvalue()[-150:]))
        except Exception as ex:
            return ('comments/exception', desc, repr(ex)[:160])
        blocks = []
        prev_sub = None
        for line in out.getvalue().split('\n'):
            parts = line.split()
            if len(parts) < 2 or parts[0] == '@':
                continue
            try:
                addr = int(parts[1].split(',')[0].replace('$', '0x'), 0) if parts[1].startswith('$') else int(parts[1].split(',')[0])
            except ValueError:
                continue
            if parts[0] in 'bcgistuw' and len(parts[0]) == 1:
                blocks.append(addr)
                prev_sub = None
            elif parts[0] in 'BCSTW' and len(parts[0]) == 1:
                if not blocks or addr < blocks[-1] or addr >= end or (prev_sub is not None and addr <= prev_sub):
                    return ('comments/sub-block', desc, 'directive `%s` outside its block / out of order (block at %s, previous sub-block %s)' % (line[:40], blocks[-1:] or None, prev_sub))
                prev_sub = addr
        if not blocks or blocks[0] != start or blocks != sorted(set(blocks)) or (end < 65536 and blocks[-1] != end):
            return ('comments/tiling', desc, 'block directives at %s for [%d, %d)' % (blocks[:8], start, end))
        return None
    finally:
        shutil.rmtree(tmp, ignore_errors=True)


def run(tier):
    rep = common.Report('C14', tier, 'other', './check C14 --tier %s' % tier)
    rep.trust('pyvc (havoc/invariant loops, unknown-value abstraction), z3; CPython for the bounded generator runs')
    rep.assume('decode() contract (first address == start, 1 <= size <= 4, consecutive addresses, all in [start, end)) is proved here for rst_handler=None (props/decodevc.py); RST-argument handling is not under VC')
    rep.assume('Disassembly returns addresses within the requested range: assumed here, observed in the bounded runs (_get_text_blocks: proved, props/c14text.py; read_map block building: proved, props/c14map.py)')
    rep.assume('termination of the fix-point loops of both generators is only observed')
    from props import decodevc
    decodevc.check_decode(rep, 'C14')
    check_find_terminal(rep)
    check_without_code_map(rep)
    # E: the instruction lengths sna2ctl works with (opcodes.decode) are the lengths sna2skool's disassembler uses - so block
    # boundaries and sub-block directives fall on the instruction boundaries sna2skool sees (same enumeration as C07)
    from props import c07
    with Pool(2) as p7:
        res7 = p7.map(c07.enumerate_set, ['', 'ALL'])
    seen7 = set()
    for opc, n7, fails7 in res7:
        f7 = [f for f in fails7 if f[0] in ('size.decode', 'no_raise')]
        rep.add_bulk(n7 - len({(k, h) for _, k, h, _ in f7}), 'exhaustive', 0, 'skoolkit.opcodes.decode vs Disassembler (instruction lengths), Opcodes=%s' % (opc or "''"), n=n7)
        for kind, key, hexseq, detail in f7:
            k2 = 'C14/%s/%s' % (kind, key.split('@')[0])
            if k2 in seen7 or len(seen7) >= 8:
                continue
            seen7.add(k2)
            rep.violation(k2, 'sna2ctl and sna2skool disagree on the length of bytes %s (%s): %s' % (hexseq, key, detail), {'case': {'size_enumeration': key}, 'detail': str(detail)})
    rep.exhaustive.append({'domain': 'instruction length per opcode path: opcodes.decode vs Disassembler, 5 addresses x 5 operand bytes x 2 additional-opcode settings', 'size': sum(r[1] for r in res7), 'visited': sum(r[1] for r in res7), 'complete': True})
    from props import c14text, c14dict, c14map
    nc = 160 if tier == 'quick' else 3000
    with Pool(common.NCPU) as pc:
        resc = pc.map(comments_case, [(common.seed(), k) for k in range(nc)], chunksize=4)
    rep.bounded.append({'function': 'skoolkit.sna2ctl.main -C [-r] [-h] (write_ctl / _generate_subctls / the comment generator)', 'contract': 'terminates without an exception; block directives tile the range; sub-block directives inside their block, increasing',
                        'bound': '%d generated images (lone prefixes and prefix chains planted)' % nc, 'evaluations': nc})
    seenc = set()
    for b in [r for r in resc if r]:
        if b[0] in seenc:
            continue
        seenc.add(b[0])
        rep.violation('C14/%s' % b[0], '%s: %s' % (b[1], b[2]), {'case': {'comments_case': b[1], 'seed': common.seed()}, 'observed': b[2]})
    rm = c14map.replay_read_map({}, '')        # B: the three map formats through read_map (out-of-range entries, extra flag bits)
    rep.bounded.append({'function': 'skoolkit.snactl.read_map (rzxplay text, Z80 bit map, SpecEmu byte map)', 'contract': 'blocks increasing and disjoint, every map address inside [start, end) in a block, no block from an address outside the range or not executed',
                        'bound': '300 generated maps (100 per format)', 'evaluations': 300})
    if rm.get('diffs'):
        rep.violation('C14/read_map/%s' % rm['case'].get('map_format', 'map'), 'read_map on a %s map: %s' % (rm['case'].get('map_format'), rm['diffs'][:2]), {'case': rm['case'], 'observed_vs_expected': [list(map(str, d)) for d in rm['diffs'][:3]]})
    c14map.check_read_map(rep, 'C14')             # code-map blocks: increasing, disjoint, every map address inside a block
    c14text.check_text_scanners(rep, 'C14')       # _check_text / _get_text_blocks: blocks inside the requested range
    c14dict.check_dict_phases(rep, 'C14')         # zero-block / join / text phases keep {start, end} and the 'i' at end
    c14dict.check_code_map_steps(rep, 'C14')      # steps (1), (2), (4), (6), (7) of the code-map generator: same discipline + call-site preconditions
    c14dict.check_get_blocks(rep, 'C14')
    quick = tier == 'quick'
    n = 400 if quick else 12000
    with Pool(common.NCPU) as p:
        res = p.map(bounded_case, [(common.seed(), k) for k in range(n)], chunksize=8)
    notes = [r for r in res if r and r[0] == 'precondition-note']
    bad = [r for r in res if r and r[0] != 'precondition-note']
    if notes:
        # a caller broke a precondition of the contract proved for _find_terminal_instruction without a visible
        # effect on the output: the proof does not cover that execution (reported, not a violation of the property)
        rep.notes.append('call-site precondition of _find_terminal_instruction not established in %d of %d runs, e.g. %s: %s' % (len(notes), n, notes[0][1], notes[0][2]))
    rep.bounded.append({'function': 'skoolkit.snactl.generate_ctls (+ runtime preconditions of _find_terminal_instruction)', 'contract': 'keys tile [start,end]: first == start, all within range, i at end; code-map addresses inside c blocks; no exception',
                        'bound': '%d generated images (code-like/text/zero runs/random, ending mid-instruction) x {no map, arbitrary-address rzxplay-format map}' % n, 'evaluations': n})
    seen = set()
    for b in bad:
        key = 'C14/generate_ctls/%s' % b[0]
        if key in seen:
            continue
        seen.add(key)
        rep.violation(key, 'sna2ctl %s: %s' % (b[1], b[2]), {'case': {'desc': b[1], 'bytes_from_start_minus_2': b[3]}, 'observed': b[2]})
    rep.extra['explanation'] = ('P: key-discipline site obligations of the ctls dictionary in _find_terminal_instruction (3 modes), the decode loop and the three dictionary '
                                'phases of _generate_ctls_without_code_map; the text scanners against their range contract; decode() against its contract. B: whole generator')
    return rep.finish()


def replay(path):
    import json
    with open(path) as f:
        doc = json.load(f)
    print('replaying', doc.get('key'))
    case = doc.get('case') or {}
    if 'gstart' in case:
        r = replay_find_terminal(case.get('ctl'))({'gstart': case['gstart'], 'gend': case['gend'], 'start': case['start'], 'end': case['end'], 'size!1': len(case['bytes'])}, '')
        print(r['diffs'])
        if r['diffs']:
            print('VIOLATION property=C14 replay=%s' % path)
            return 1
        return 0
    if 'bytes at end-1' in case:
        r = replay_without_map({'start': case['start'], 'end': case['end']}, '')
        print(r['diffs'])
        if r['diffs']:
            print('VIOLATION property=C14 replay=%s' % path)
            return 1
        return 0
    if 'size_enumeration' in case:
        from props import c07
        bad = [f for opc in ('', 'ALL') for f in c07.enumerate_set(opc)[2] if f[0] in ('size.decode', 'no_raise')]
        print(bad[:3])
        if bad:
            print('VIOLATION property=C14 replay=%s' % path)
            return 1
        return 0
    if 'comments_case' in case:
        with Pool(common.NCPU) as pc:
            resc = [r for r in pc.map(comments_case, [(case.get('seed', common.seed()), k) for k in range(3000)], chunksize=8) if r]
        print(resc[:2])
        if resc:
            print('VIOLATION property=C14 replay=%s' % path)
            return 1
        return 0
    if 'map_addresses' in case:
        from props import c14map
        r = c14map.replay_read_map({}, '')
        print(r['diffs'])
        if r['diffs']:
            print('VIOLATION property=C14 replay=%s' % path)
            return 1
        return 0
    if 'bytes' in case and 'start' in case and 'end' in case:
        # an image for _generate_ctls_without_code_map (dict phases)
        import skoolkit.snactl as S
        snap = [0] * 65536
        snap[case['start']:case['start'] + len(case['bytes'])] = case['bytes']
        try:
            ctls = S._generate_ctls_without_code_map(snap, case['start'], case['end'], _Cfg(), None)
            errs = tiling_errors(ctls, case['start'], case['end'])
        except Exception as ex:
            errs = [repr(ex)]
        print(errs)
        if errs:
            print('VIOLATION property=C14 replay=%s' % path)
            return 1
        return 0
    if 'data' in case and 'start' in case:
        from props import c14text
        r = c14text.replay_text_blocks({'start': case['start']}, '')
        print(r['diffs'])
        if r['diffs']:
            print('VIOLATION property=C14 replay=%s' % path)
            return 1
        return 0
    print(doc.get('what'))
    if doc.get('no_failing_input_found'):
        print('VIOLATION property=C14 replay=%s no-failing-input-found' % path)
    return 1
