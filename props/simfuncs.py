"""Contracts on the simulator functions that are not dispatch slots:
accept_interrupt (both classes), djnz_fast, ldir_fast, run()'s dispatch."""
import random

import z3

from pyvc import poly
from pyvc.poly import SV, SB, ite, and_, or_, not_, sv, cmpop, truth
from pyvc.engine import Engine, SymList, SymMem, ObjModel
from props.funcvc import FuncVC
from props import simvc
from contracts import z80spec as Z


def check_accept_interrupt(rep, prop, safety_only=False):
    for clsname in ('Simulator', 'CMIOSimulator'):
        for machine in (48, 128):
            _accept_interrupt(rep, prop, clsname, machine, safety_only)


def _accept_interrupt(rep, prop, clsname, machine, safety_only):
    mach = simvc.get_machine(clsname, machine)
    sim = mach.sim
    fn = type(sim).accept_interrupt
    name = 'skoolkit.%s.%s.accept_interrupt[%dK]' % ('cmiosimulator' if mach.cmio else 'simulator', clsname, machine)

    def start(eng):
        p = eng.path
        regs = simvc.initial_regs()
        p.regs0 = list(regs)
        p.reglist = SymList(regs, 'registers')
        p.mem = SymMem('mem')
        p.prev_pc = SV(z3.BitVec('prev_pc', poly.W), 0, 0xFFFF)
        eng.objmap = dict(mach.tabreg)
        p.ret = eng.call_function(getattr(sim, 'accept_interrupt'), [p.reglist, p.mem, p.prev_pc])

    def post(p, prove):
        regs = p.reglist.items
        for i in range(30):
            if regs[i] is p.regs0[i]:
                continue
            lo, hi = simvc.reg_interval(i)
            if i == Z.T:
                prove('t_mono', cmpop('>=', regs[i], p.regs0[i]))
            else:
                prove('reg_range.' + Z.REGNAMES[i], and_(cmpop('>=', regs[i], lo), cmpop('<=', regs[i], hi)))
        if safety_only:
            return
        cfg = Z.Cfg(machine=machine, cmio=mach.cmio)
        smem = simvc.SpecSymMem(p.mem.arr0, poly._facts)
        acc, exp = Z.accept_interrupt(p.regs0, smem, p.prev_pc, cfg)
        prove('post.accepted', SB(poly.bterm(p.ret) == poly.bterm(acc)))
        for i in range(30):
            if regs[i] is exp[i]:
                prove('post.' + Z.REGNAMES[i], True)
            else:
                prove('post.' + Z.REGNAMES[i], cmpop('==', regs[i], exp[i]))
        prove('post.mem', SB(p.mem.arr == smem.arr))

    class E(simvc.SimEngine):
        pass
    eng = E(inline_ok=lambda f: f.__module__ in ('skoolkit.simulator', 'skoolkit.cmiosimulator'))
    _enable_super(eng)

    def replayer(vals, kind):
        regs = [vals.get('r%d' % i, 0) for i in range(30)]
        prev_pc = vals.get('prev_pc', 0) & 0xFFFF
        rnd = random.Random(0)
        for k in range(200):
            cells = {prev_pc: rnd.choice((0xFB, 0xDD, 0xFD, 0, rnd.randrange(256)))} if k else {}
            d = concrete_accept_interrupt(clsname, machine, regs, prev_pc, cells, rnd)
            if d:
                return {'case': {'regs': regs, 'prev_pc': prev_pc}, 'diffs': d}
        return {'case': {'regs': regs, 'prev_pc': prev_pc}, 'diffs': []}

    FuncVC(rep, prop, fn, name, eng, pre=lambda p: simvc.wf_pre(p.regs0)).run(start, post, replayer)


def _enable_super(eng):
    """zero-argument super() inside an inlined method: resolve on the real object."""
    orig_call = eng.call

    def call(f, args, kwargs, node):
        if f is super and not args:
            fr = eng.frames[-1]
            cls = fr.cells.get('__class__')
            if cls is None or fr.selfobj is None:
                raise poly.Refuse('super() outside a method of a real object')
            return super(cls, fr.selfobj)
        return orig_call(f, args, kwargs, node)
    eng.call = call


def concrete_accept_interrupt(clsname, machine, regs, prev_pc, cells, rnd):
    mach = simvc.get_machine(clsname, machine)
    sim = mach.new_sim()
    mem = sim.memory
    base = [rnd.randrange(256) for _ in range(65536)]
    for a, v in cells.items():
        base[a] = v
    if machine == 128:
        for a in range(65536):
            mem.memory[a // 0x4000][a % 0x4000] = base[a]
    else:
        mem[:] = base
    sim.registers[:] = regs
    ret = sim.accept_interrupt(sim.registers, mem, prev_pc)
    flat = [mem[a] for a in range(65536)] if machine == 128 else list(mem)
    im = Z.IntMem(base)
    acc, exp = Z.accept_interrupt(regs, im, prev_pc, Z.Cfg(machine=machine, cmio=mach.cmio))
    diffs = []
    if bool(ret) != bool(acc):
        diffs.append(('post.accepted', ret, acc))
    for i in range(30):
        if sim.registers[i] != exp[i]:
            diffs.append(('post.' + Z.REGNAMES[i], sim.registers[i], exp[i]))
    e = list(base)
    for a, v in im.w.items():
        e[a] = v
    if e != flat:
        diffs.append(('post.mem', [(a, flat[a], e[a]) for a in range(65536) if flat[a] != e[a]][:4]))
    return diffs


def report_failures(rep, prop):
    pass


# ------------------------------------------------------------ fast paths
def _mk_fast_sim(kind, inc=1):
    from skoolkit.simulator import Simulator
    mem = [0] * 65536
    return Simulator(mem, config={'fast_djnz': True, 'fast_ldir': True})


def concrete_fast(kind, rnd):
    """One random case: fast closure vs stepping the plain simulator. Returns diffs."""
    from skoolkit.simulator import Simulator
    regs = [rnd.choice((0, 1, 2, 0x7F, 0x80, 0xFF, rnd.randrange(256))) for _ in range(30)]
    for i in (Z.SP, Z.PC, Z.MEMPTR):
        regs[i] = rnd.choice(simvc.ADDRS + (rnd.randrange(65536),))
    regs[Z.T] = rnd.randrange(3 * 69888)
    regs[Z.IFF] = rnd.choice((0, 0, 0, 1))
    regs[Z.IM] = rnd.randrange(3)
    regs[Z.HALT] = 0
    regs[Z.SP2] = 0
    base = [rnd.randrange(256) for _ in range(65536)]
    pc = regs[Z.PC]
    if kind == 'djnz':
        base[pc] = 0x10
        base[(pc + 1) & 0xFFFF] = rnd.choice((0xFE, 0xFE, 0xFE, 0xFD, 0x00, rnd.randrange(256)))
        seq = ('opcodes', 0x10)
    else:
        op = 0xB0 if kind == 'ldir' else 0xB8
        base[pc] = 0xED
        base[(pc + 1) & 0xFFFF] = op
        # short copies near interesting places (over the instruction itself, ROM boundary, wrap)
        bc = rnd.choice((0, 1, 2, 3, 5, 17, rnd.randrange(1, 40)))
        regs[Z.B], regs[Z.C] = bc >> 8, bc & 255
        for hi, lo in ((Z.H, Z.L), (Z.D, Z.E)):
            a = rnd.choice((pc, (pc + 1) & 0xFFFF, (pc - 3) & 0xFFFF, (pc + 4) & 0xFFFF, 0x3FFE, 0x4000, 0xFFFE, 0, rnd.randrange(65536)))
            regs[hi], regs[lo] = a >> 8, a & 255
        seq = ('after_ED', op)
    m1 = list(base)
    s1 = Simulator(m1, config={'fast_djnz': True, 'fast_ldir': True})
    s1.registers[:] = regs
    getattr(s1, seq[0])[seq[1]]()
    m2 = list(base)
    s2 = Simulator(m2)
    s2.registers[:] = regs
    # contract: the fast closure performs k >= 1 iterations of the plain instruction (it may hand back to the
    # run loop early, e.g. when the copy reaches the instruction's own bytes); with IFF set it performs exactly one
    def differences():
        out = []
        for i in range(30):
            if s1.registers[i] != s2.registers[i]:
                g, e = s1.registers[i], s2.registers[i]
                if i == Z.F and kind != 'djnz':
                    g &= 0xD7
                    e &= 0xD7
                    if g == e:
                        continue
                out.append(('post.' + Z.REGNAMES[i], g, e))
        if not out and m1 != m2:       # memory is compared only when the registers already agree (cost)
            out.append(('post.mem', [(a, m1[a], m2[a]) for a in range(65536) if m1[a] != m2[a]][:4]))
        return out
    n = 0
    first = None
    diffs = None
    while n < 70000:
        getattr(s2, seq[0])[seq[1]]()
        n += 1
        d = differences()
        if first is None:
            first = d
        if not d:
            diffs = []
            break
        if s2.registers[Z.PC] != pc or regs[Z.IFF]:
            break
        if m2[pc] != base[pc] or m2[(pc + 1) & 0xFFFF] != base[(pc + 1) & 0xFFFF]:
            break
    if diffs is None:
        diffs = first or [('no iteration count matches',)]
    if diffs:
        diffs.append(('case', kind, regs, base[pc:pc + 2]))
    return diffs


def check_fast_paths(rep, prop, tier):
    """djnz_fast / ldir_fast: relational contract 'equal to iterating the plain
    closure'. P: djnz_fast by induction on the iteration count, ldir_fast by an
    inductive loop invariant (the local state is the ISA state after `count`
    iterations). The concrete differential below is kept as a cross-check of the
    contracts themselves (bounded, not counted)."""
    n = 100 if tier == "quick" else 1500
    rnd = random.Random('fast/%d' % __import__('props.common', fromlist=['x']).seed())
    check_djnz_fast(rep, prop)
    check_ldir_fast(rep, prop)
    for kind, fname in (('ldir', 'skoolkit.simulator.Simulator.ldir_fast[inc=1]'),
                        ('lddr', 'skoolkit.simulator.Simulator.ldir_fast[inc=-1]')):
        bad = None
        for k in range(n):
            d = concrete_fast(kind, rnd)
            if d:
                bad = d
                break
        rep.bounded.append({'function': fname, 'contract': 'post-state == iterating the plain closure until PC leaves the instruction',
                            'bound': '%d boundary-biased random states (copies of up to 40 bytes)' % n, 'evaluations': n if not bad else k + 1})
        if bad:
            rep.violation('%s/%s/bounded' % (prop, fname), 'fast path differs from stepping: %s' % (bad[:3],),
                          {'function': fname, 'observed_vs_expected': bad})


# ------------------------------------------------------------ who establishes wf(state)
def check_wf_establishment(rep, prop):
    """simutils.get_registers establishes wf(registers) for every input the
    callers can produce (documented register names; values as the snapshot
    readers deliver them); the readers deliver IFF in {0,1} and IM in 0..255."""
    import ast
    import skoolkit.simutils as SU
    import skoolkit.snapshot as SN
    from pyvc.engine import func_ast
    from props.c09 import tail_assigns, find_block, byte
    W = poly.W
    names16 = ('BC', 'DE', 'HL', 'IX', 'IY', 'SP', 'PC', '^BC', '^DE', '^HL', 'MEMPTR')
    names8 = ('A', 'F', 'I', 'R', '^A', '^F', 'B', 'C', 'D', 'E', 'H', 'L', 'IXh', 'IXl', 'IYh', 'IYl', '^B', '^C', '^D', '^E', '^H', '^L')

    def start(eng):
        p = eng.path
        cfg = {}
        for nm in names16:
            v = SV(z3.BitVec('in_' + nm.replace('^', 'x'), W), 0, 65535)
            p.facts.append(z3.And(v.t >= 0, v.t <= 65535))
            cfg[nm] = v
        for nm in names8:
            v = SV(z3.BitVec('in_' + nm.replace('^', 'x'), W), 0, 255)
            p.facts.append(z3.And(v.t >= 0, v.t <= 255))
            cfg[nm] = v
        st = {'im': SV(z3.BitVec('in_im', W), 0, 255), 'iff': SV(z3.BitVec('in_iff', W), 0, 1), 'tstates': SV(z3.BitVec('in_t', W), 0, (1 << 38) - 1)}
        p.facts.extend([st['im'].t >= 0, st['im'].t <= 255, st['iff'].t >= 0, st['iff'].t <= 1, st['tstates'].t >= 0, st['tstates'].t < (1 << 38)])
        p.ret = eng.call_function(SU.get_registers, [cfg, st, False])

    def post(p, prove):
        regs = p.ret.items if isinstance(p.ret, SymList) else None
        prove('post.length', regs is not None and len(regs) == 30)
        if regs is None or len(regs) != 30:
            return
        for i in range(30):
            lo, hi = simvc.reg_interval(i)
            prove('post.wf.' + Z.REGNAMES[i], and_(cmpop('>=', regs[i], lo), cmpop('<=', regs[i], hi)))
    FuncVC(rep, prop, SU.get_registers, 'skoolkit.simutils.get_registers', Engine(inline_ok=lambda f: False)).run(start, post, None)

    # what the snapshot readers hand over as iff / im
    def start_z80(eng):
        p = eng.path
        hdr = [byte('h%d' % i) for i in range(86)]
        me = ObjModel(None, name='Z80', cls=SN.Z80)
        me.attrs['header'] = SymList(hdr, 'header')
        p.me = me
        eng.run_stmts(SN.Z80._read, tail_assigns(SN.Z80._read, ('iff1', 'im')), {'self': me}, None)

    def post_rd(p, prove):
        prove('post.iff_range', and_(cmpop('>=', p.me.attrs.get('iff1'), 0), cmpop('<=', p.me.attrs.get('iff1'), 1)))
        prove('post.im_range', and_(cmpop('>=', p.me.attrs.get('im'), 0), cmpop('<=', p.me.attrs.get('im'), 255)))
    FuncVC(rep, prop, SN.Z80._read, 'skoolkit.snapshot.Z80._read[iff]', Engine(inline_ok=lambda f: False)).run(start_z80, post_rd, replay_iff)

    def start_szx(eng):
        p = eng.path
        blk = [byte('z%d' % i) for i in range(37)]
        me = ObjModel(None, name='SZX', cls=SN.SZX)
        p.me = me
        body = find_block(SN.SZX._read, lambda t: "b'Z80R'" in t)
        eng.run_stmts(SN.SZX._read, body, {'self': me, 'block': SymList(blk, 'block')}, None)
    FuncVC(rep, prop, SN.SZX._read, 'skoolkit.snapshot.SZX._read[iff]', Engine(inline_ok=lambda f: f.__module__ == 'skoolkit')).run(start_szx, post_rd, None)


def replay_iff(vals, kind):
    """A .z80 file whose IFF byte is the model's value: run LD A,I on the simulator built from it."""
    import io
    from skoolkit.snapshot import Z80
    from skoolkit.simulator import Simulator
    from skoolkit import simutils
    v = vals.get('h27', 255) & 255
    z = Z80(ram=[0] * 49152)
    z.header[27] = z.header[28] = v
    z.header[32] = 0
    z.header[33] = 0x80
    z2 = Z80(bytes(z.data()))
    ram = z2.ram(-1) if False else z2.ram()
    sim = simutils.from_snapshot(Simulator, z2)
    sim.memory[0x8000] = 0xED
    sim.memory[0x8001] = 0x57
    sim.run(0x8000)
    f = sim.registers[1]
    iff = sim.registers[26]
    d = []
    if not 0 <= iff <= 1:
        d.append(('IFF entered the register array as', iff))
    if not 0 <= f <= 255:
        d.append(('F after LD A,I', f))
    return {'case': {'z80 header byte 27': v}, 'diffs': d}


# ------------------------------------------------------------ djnz_fast (P, by induction)
def check_djnz_fast(rep, prop):
    """djnz_fast == iterating the plain DJNZ closure: for IFF == 0 and offset 0xFE
    (DJNZ to itself) the closed form after n = ((B-1) & 255) + 1 iterations;
    otherwise exactly the plain step."""
    import time
    from skoolkit.simulator import Simulator
    from pyvc.solve import check_sat
    W = poly.W
    name = 'skoolkit.simulator.Simulator.djnz_fast'
    sim = Simulator([0] * 65536, config={'fast_djnz': True})
    func = sim.opcodes[0x10]
    tabreg = simvc.get_machine('Simulator', 48).tabreg

    def closed(regs, n):
        r = list(regs)
        r[Z.B] = 0
        r[Z.R] = (regs[Z.R] & 0x80) | ((regs[Z.R] + n) & 0x7F)
        r[Z.T] = regs[Z.T] + 13 * (n - 1) + 8
        r[Z.PC] = (regs[Z.PC] + 2) & 0xFFFF
        return r

    # --- induction over the ISA contract of DJNZ (spec level)
    facts, defs = [], []
    old = poly.set_collectors(facts, defs)
    try:
        regs = simvc.initial_regs()
        pre = simvc.wf_pre(regs)
        arr = z3.Array('mem', z3.BitVecSort(W), z3.BitVecSort(W))
        pc = regs[Z.PC]
        facts.append(z3.Select(arr, sv((pc + 1) & 0xFFFF).t) == 0xFE)
        n = ((regs[Z.B] - 1) & 255) + 1
        k = SV(z3.BitVec('k', W), 0, 255)
        facts.append(z3.And(k.t >= 0, k.t < sv(n).t))

        def state_k(kk):
            s = list(regs)
            s[Z.B] = (regs[Z.B] - kk) & 255
            s[Z.R] = (regs[Z.R] & 0x80) | ((regs[Z.R] + kk) & 0x7F)
            s[Z.T] = regs[Z.T] + 13 * kk
            return s
        m1 = simvc.SpecSymMem(arr, facts)
        s1 = Z.Step('', 0x10, state_k(k), m1, Z.Cfg(machine=48))
        last = cmpop('==', k + 1, n)
        nxt = state_k(k + 1)
        cf = closed(regs, n)
        step_ok = and_(*[cmpop('==', s1.r[i], nxt[i]) for i in range(30)], SB(m1.arr == arr))
        final_ok = and_(*[cmpop('==', s1.r[i], cf[i]) for i in range(30)], SB(m1.arr == arr))
        for oname, cond in (('step', or_(last, step_ok)), ('final', or_(not_(last), final_ok))):
            ts = time.time()
            r, backend, model = check_sat(pre + facts + [z3.Not(poly.bterm(cond))])
            rep.add('%s/lemma.djnz_iterated/%s' % (prop, oname), 'proved' if r == 'unsat' else ('failed' if r == 'sat' else 'unknown'), backend, time.time() - ts, name)
            if r == 'sat':
                rep.errors.append('djnz induction %s fails: closed form of the contract is wrong' % oname)
    finally:
        poly.set_collectors(*old)

    # --- the real closure against the closed form / the plain step
    def start(eng):
        p = eng.path
        regs = simvc.initial_regs()
        p.regs0 = list(regs)
        p.reglist = SymList(regs, 'registers')
        p.mem = SymMem('mem')
        eng.objmap = dict(tabreg)
        eng.objmap[id(sim.registers)] = p.reglist
        eng.objmap[id(sim.memory)] = p.mem
        eng.call_function(func, [])

    def post(p, prove):
        regs = p.reglist.items
        r0 = p.regs0
        smem = simvc.SpecSymMem(p.mem.arr0, poly._facts)
        hit = and_(r0[Z.IFF] == 0, smem.rd((r0[Z.PC] + 1) & 0xFFFF) == 0xFE)
        n = ((r0[Z.B] - 1) & 255) + 1
        cf = closed(r0, n)
        plain = Z.Step('', 0x10, r0, simvc.SpecSymMem(p.mem.arr0, poly._facts), Z.Cfg(machine=48))
        for i in range(30):
            prove('post.' + Z.REGNAMES[i], cmpop('==', regs[i], ite(hit, cf[i], plain.r[i])))
        prove('post.mem', p.mem.arr.eq(p.mem.arr0))
        prove('t_mono', cmpop('>=', regs[Z.T], r0[Z.T]))
    eng = simvc.SimEngine(inline_ok=lambda f: f.__module__ == 'skoolkit.simulator')

    def replayer(vals, kind):
        rnd = random.Random(0)
        regs = [vals.get('r%d' % i, 0) for i in range(30)]
        for k in range(50):
            d = concrete_fast('djnz', rnd)
            if d:
                return {'case': {'regs': regs}, 'diffs': d}
        return {'case': {'regs': regs}, 'diffs': []}
    FuncVC(rep, prop, Simulator.djnz_fast, name, eng, pre=lambda p: simvc.wf_pre(p.regs0)).run(start, post, replayer)


# ------------------------------------------------------------ ldir_fast (P, loop invariant)
def check_ldir_fast(rep, prop):
    """ldir_fast (inc = +1 / -1) == `count` >= 1 iterations of the plain LDIR/LDDR
    step, where count is whatever the loop performed.  Inductive invariant: at the
    loop head the local state (memory, bc, de, hl, count) *is* the ISA state after
    `count` iterations (registers that the loop does not touch are functions of
    count: R = r_inc(R0, 2 count), T = T0 + 21 count, F = flags of a repeating
    iteration), and the two instruction bytes at PC are intact."""
    import ast
    from skoolkit.simulator import Simulator
    from pyvc.engine import func_ast, PathEnd, _Break
    from pyvc.loops import assigned_names
    W = poly.W
    for inc, op in ((1, 0xB0), (-1, 0xB8)):
        name = 'skoolkit.simulator.Simulator.ldir_fast[inc=%d]' % inc
        sim = Simulator([0] * 65536, config={'fast_ldir': True})
        func = sim.after_ED[op]
        tabreg = simvc.get_machine('Simulator', 48).tabreg
        node, _ = func_ast(func)
        loops = [n for n in ast.walk(node) if isinstance(n, ast.While)]
        q = func.__qualname__

        def spec_regs(r0, bc, de, hl, count, f):
            r = list(r0)
            r[Z.B], r[Z.C] = bc >> 8, bc & 255
            r[Z.D], r[Z.E] = de >> 8, de & 255
            r[Z.H], r[Z.L] = hl >> 8, hl & 255
            r[Z.R] = (r0[Z.R] & 0x80) | ((r0[Z.R] + 2 * count) & 0x7F)
            r[Z.T] = r0[Z.T] + 21 * count
            r[Z.F] = f
            return r

        def start(eng, inc=inc, op=op):
            p = eng.path
            regs = simvc.initial_regs()
            p.regs0 = list(regs)
            p.reglist = SymList(regs, 'registers')
            p.mem = SymMem('mem')
            eng.objmap = dict(tabreg)
            eng.objmap[id(sim.registers)] = p.reglist
            eng.objmap[id(sim.memory)] = p.mem
            r0 = p.regs0
            pc = r0[Z.PC]
            p.hit = r0[Z.IFF] == 0

            def loop(e, node_):
                fr = e.frames[-1]
                # --- establish: count == 0, locals are the pre-state
                bc0 = r0[Z.C] + 256 * r0[Z.B]
                de0 = r0[Z.E] + 256 * r0[Z.D]
                hl0 = r0[Z.L] + 256 * r0[Z.H]
                e.oblige('inv.establish', and_(cmpop('==', fr.loc['count'], 0), cmpop('==', fr.loc['bc'], bc0), cmpop('==', fr.loc['de'], de0),
                                              cmpop('==', fr.loc['hl'], hl0), p.mem.arr.eq(p.mem.arr0)), node_)
                # --- havoc: arbitrary state after `count` iterations
                bc = e.fresh('bc', 0, 65535)
                de = e.fresh('de', 0, 65535)
                hl = e.fresh('hl', 0, 65535)
                count = e.fresh('count', 0, 65536)
                fk = e.fresh('Fk', 0, 255)
                arr = z3.Array('mem_k', z3.BitVecSort(W), z3.BitVecSort(W))
                p.mem.arr = arr
                fr.loc.update({'bc': bc, 'de': de, 'hl': hl, 'count': count, 'repeat': True})
                # F after count >= 1 repeating iterations keeps S, Z, C of the original F
                e.assume(cmpop('==', fk & 0xC1, r0[Z.F] & 0xC1))
                e.fresh_n += 1
                more = SB(z3.Bool('iterate!%d' % e.fresh_n))
                if e.decide(more):
                    e.exec_block(node_.body)
                    # one ISA step from the ghost state
                    sk = spec_regs(r0, bc, de, hl, count, fk)
                    smem = simvc.SpecSymMem(arr, e.path.facts)
                    st = Z.Step('ED', op, sk, smem, Z.Cfg(machine=48))
                    bc2, de2, hl2, c2 = fr.loc['bc'], fr.loc['de'], fr.loc['hl'], fr.loc['count']
                    e.oblige('inv.preserve.count', cmpop('==', c2, count + 1), node_)
                    e.oblige('inv.preserve.bc', cmpop('==', bc2, st.r[Z.C] + 256 * st.r[Z.B]), node_)
                    e.oblige('inv.preserve.de', cmpop('==', de2, st.r[Z.E] + 256 * st.r[Z.D]), node_)
                    e.oblige('inv.preserve.hl', cmpop('==', hl2, st.r[Z.L] + 256 * st.r[Z.H]), node_)
                    e.oblige('inv.preserve.mem', SB(p.mem.arr == smem.arr), node_)
                    rep_again = truth(fr.loc['repeat'])
                    # the code goes on iterating only while the ISA step repeats (PC stays) and the instruction bytes are intact
                    e.oblige('inv.preserve.repeat_implies_isa_repeats', or_(not_(rep_again), cmpop('==', st.r[Z.PC], pc)), node_)
                    wrote_op = and_(cmpop('>', de, 0x3FFF), or_(cmpop('==', de, pc), cmpop('==', de, (pc + 1) & 0xFFFF)))
                    e.oblige('inv.preserve.opcode_intact_or_stop', or_(not_(rep_again), not_(wrote_op)), node_)
                    raise PathEnd()
                # --- exit: the state after the last performed iteration: count >= 1, and the last iteration either
                #     exhausted BC or wrote over the instruction
                e.assume(cmpop('>=', count, 1))
                p.ghost = (bc, de, hl, count, fk, arr)
            eng.loop_invariants = {(q, 0): loop}
            eng.call_function(func, [])

        def post(p, prove, inc=inc, op=op):
            regs = p.reglist.items
            r0 = p.regs0
            if not hasattr(p, 'ghost'):
                # IFF set: exactly the plain step
                plain = Z.Step('ED', op, r0, simvc.SpecSymMem(p.mem.arr0, poly._facts), Z.Cfg(machine=48))
                for i in range(30):
                    g, e_ = regs[i], plain.r[i]
                    if i == Z.F:
                        g, e_ = g & 0xD7, e_ & 0xD7
                    prove('post.plain.' + Z.REGNAMES[i], cmpop('==', g, e_))
                return
            bc, de, hl, count, fk, arr = p.ghost
            # final registers == ISA state after `count` iterations, the last of which is described by (bc == 0)
            done = cmpop('==', bc, 0)
            exp = spec_regs(r0, bc, de, hl, count, 0)
            exp[Z.T] = r0[Z.T] + 21 * count - ite(done, 5, 0)
            exp[Z.PC] = ite(done, (r0[Z.PC] + 2) & 0xFFFF, r0[Z.PC])
            for i in range(30):
                if i == Z.F:
                    prove('post.F', cmpop('==', regs[i] & 0xD7, (r0[Z.F] & 0xC1) | ite(done, 0, 4)))
                else:
                    prove('post.' + Z.REGNAMES[i], cmpop('==', regs[i], exp[i]))
            prove('post.mem', SB(p.mem.arr == arr))
        eng = simvc.SimEngine(inline_ok=lambda f: f.__module__ == 'skoolkit.simulator')

        def replayer(vals, kind, inc=inc):
            rnd = random.Random(1)
            for k in range(400):
                d = concrete_fast('ldir' if inc == 1 else 'lddr', rnd)
                if d:
                    return {'case': {'kind': 'ldir' if inc == 1 else 'lddr'}, 'diffs': d}
            return {'case': {}, 'diffs': []}
        FuncVC(rep, prop, Simulator.ldir_fast, name, eng, pre=lambda p: simvc.wf_pre(p.regs0)).run(start, post, replayer)
