"""C02 - Assembler and disassembler are mutual inverses.

P: integer kernels of the assembler/disassembler under contract
   (_parse_expr, _address_offset, _parse_offset, jr_arg, index_offset) and the
   round-trip lemmas over those contracts, for all addresses / word values.
E: the finite operand space: number formatting for every value x base x
   case/base config; every opcode path x operand bytes x base letters x config,
   both directions.
B: DEFB/DEFM/DEFS/DEFW sequences and assembler-only operand spellings.
"""
import itertools
import random
import time
from multiprocessing import Pool

import z3

from props import common
from props.funcvc import FuncVC
from pyvc import poly
from pyvc.poly import SV, SB, ite, and_, or_, not_, sv, cmpop, implies
from pyvc.engine import Engine, CallModel, ObjModel, _Raise

PATHS = ((), (0xCB,), (0xED,), (0xDD,), (0xFD,), (0xDD, 0xCB), (0xFD, 0xCB))
BASES = ('n', 'b', 'c', 'd', 'h', 'm', 'dh', 'mb', 'cm', 'hc')
QUICK_BYTES = sorted(set([0, 1, 2, 7, 8, 9, 10, 15, 16, 31, 32, 33, 34, 35, 36, 37, 39, 47, 48, 57, 58, 64, 65, 90, 91, 92, 93, 94, 95, 96, 97, 122,
                          123, 126, 127, 128, 129, 130, 160, 161, 162, 163, 200, 220, 221, 222, 254, 255]))


def _mkcfg(opc, wrap, hexa, lower):
    from props.c07 import _mkcfg as mk
    return mk(opc, wrap, hexa, lower)


# ------------------------------------------------------------------ E: numbers
def numbers_chunk(args):
    """eval_int(_num_str(v, nb, base)) is congruent to v and inside the range the
    consuming parser accepts, for every v in [lo, hi)."""
    hexa, lower, nb, lo, hi = args
    from skoolkit.disassembler import OperandFormatter
    from skoolkit.z80 import eval_int

    class C:
        pass
    c = C()
    c.asm_hex = hexa
    c.asm_lower = lower
    f = OperandFormatter(c)
    limit = 256 if nb == 1 else 65536
    bad = []
    n = 0
    for base in 'nbcdhm':
        for v in range(lo, hi):
            n += 1
            s = f._num_str(v, nb, base)
            try:
                e = eval_int(s)
            except Exception as ex:
                bad.append((hexa, lower, nb, base, v, s, repr(ex)))
                continue
            if e % limit != v or abs(e) >= limit:
                bad.append((hexa, lower, nb, base, v, s, e))
    return n, bad


# ------------------------------------------------------------------ E: opcodes
def opcodes_chunk(args):
    """disassemble -> assemble (and back) for one (config, path) over operand values."""
    hexa, lower, path, values, addrs = args
    from skoolkit.disassembler import Disassembler
    from skoolkit.z80 import Assembler
    asm = Assembler()
    mem = [0] * 65536
    d = Disassembler(mem, _mkcfg('ALL', True, hexa, lower))
    bad = []
    n = 0
    for op in range(256):
        for v in values:
            if len(path) == 2:
                seq = [path[0], 0xCB, v, op]
            else:
                seq = list(path) + [op, v, (v * 7 + 3) & 255, v]
            for addr in addrs:
                for k, b in enumerate(seq):
                    mem[(addr + k) & 0xFFFF] = b
                for base in BASES:
                    ins = d.disassemble(addr, addr + 1, base)[0]
                    n += 1
                    data = list(ins.bytes)
                    try:
                        got = list(asm.assemble(ins.operation, ins.address))
                    except Exception as ex:
                        got = repr(ex)
                    if got != data and not ins.variant:
                        bad.append(('dis->asm', hexa, lower, addr, base, ''.join('%02X' % b for b in seq), ins.operation, data, got))
                        continue
                    if isinstance(got, list) and got and got == data:
                        # converse: disassemble what the assembler produced, assemble again
                        a2 = 0x6000
                        for k, b in enumerate(got):
                            mem[a2 + k] = b
                        i2 = d.disassemble(a2, a2 + 1, base)[0]
                        op2 = i2.operation
                        if not i2.operation.upper().startswith(('JR ', 'DJNZ ', 'DEFB')):
                            try:
                                g2 = list(asm.assemble(op2, a2))
                            except Exception as ex:
                                g2 = repr(ex)
                            if g2 != got and not i2.variant:
                                bad.append(('asm->dis->asm', hexa, lower, addr, base, ''.join('%02X' % b for b in got), op2, got, g2))
                        for k in range(len(got)):
                            mem[a2 + k] = 0
                for k in range(len(seq)):
                    mem[(addr + k) & 0xFFFF] = 0
    return n, bad


# ------------------------------------------------------------------ P kernels
def check_kernels(rep):
    from skoolkit.z80 import Assembler
    from skoolkit.disassembler import Disassembler
    asm = Assembler()
    W = poly.W
    BIG = 1 << 36

    # ---- _parse_expr: integer part (text handling abstracted by the evaluator's contract: any integer)
    for limit, non_neg in ((256, False), (256, True), (65536, False), (8, True), (3, True), (57, True)):
        def start(eng, limit=limit, non_neg=non_neg):
            p = eng.path
            p.value = SV(z3.BitVec('value', W), -BIG, BIG)
            p.facts.append(z3.And(p.value.t >= -BIG, p.value.t <= BIG))
            ev = ObjModel(None, name='op_evaluator')
            ev.attrs['eval_int'] = CallModel(lambda e, a, k, n: p.value, 'eval_int')
            me = ObjModel(asm, name='assembler')
            me.attrs['op_evaluator'] = ev
            p.ret = eng.call_function(Assembler._parse_expr, [me, 'NUM', limit, False, non_neg, None])

        def post(p, prove, limit=limit, non_neg=non_neg):
            ok = and_(p.value > -limit, p.value < limit, or_(not non_neg, p.value >= 0))
            if p.raised is not None:
                prove('post.raises_iff_out_of_range', not_(ok))
                prove('post.raises_ValueError', p.raised is ValueError or isinstance(p.raised, ValueError))
            else:
                prove('post.returns_iff_in_range', ok)
                prove('post.range', and_(p.ret >= 0, p.ret < limit))
                prove('post.congruent', cmpop('==', p.ret, ite(p.value < 0, p.value + limit, p.value)))
        FuncVC(rep, 'C02', Assembler._parse_expr, 'skoolkit.z80.Assembler._parse_expr[limit=%d,non_neg=%s]' % (limit, non_neg),
               Engine(inline_ok=lambda f: False)).run(start, post, replay_parse_expr(limit, non_neg))

    # ---- _address_offset(address, op) under parse_word's contract (0 <= target < 65536)
    def start_ao(eng):
        p = eng.path
        p.address = SV(z3.BitVec('address', W), 0, 65535)
        p.target = SV(z3.BitVec('target', W), 0, 65535)
        p.facts.append(z3.And(p.address.t >= 0, p.address.t <= 65535, p.target.t >= 0, p.target.t <= 65535))
        me = ObjModel(asm, name='assembler')
        me.attrs['parse_word'] = CallModel(lambda e, a, k, n: p.target, 'parse_word')
        p.ret = eng.call_function(Assembler._address_offset, [me, p.address, 'NUM'])

    def post_ao(p, prove):
        o = (p.target - p.address - 2) & 0xFFFF       # the unique 16-bit displacement
        reachable = or_(o < 128, o >= 65408)          # signed(o) in -128..127 through the 64K wrap
        if p.raised is not None:
            prove('post.raises_iff_unreachable', not_(reachable))
        else:
            prove('post.returns_iff_reachable', reachable)
            prove('post.offset', cmpop('==', p.ret, o & 255))
            prove('post.byte', and_(p.ret >= 0, p.ret <= 255))
    FuncVC(rep, 'C02', Assembler._address_offset, 'skoolkit.z80.Assembler._address_offset',
           Engine(inline_ok=lambda f: False)).run(start_ao, post_ao, replay_address_offset)

    # ---- _parse_offset('(IX+d)' / '(IX-d)') under parse_byte's contract
    for sign in '+-':
        def start_po(eng, sign=sign):
            p = eng.path
            p.d = SV(z3.BitVec('d', W), 0, 255)
            p.facts.append(z3.And(p.d.t >= 0, p.d.t <= 255))
            me = ObjModel(asm, name='assembler')
            me.attrs['parse_byte'] = CallModel(lambda e, a, k, n: p.d, 'parse_byte')
            p.ret = eng.call_function(Assembler._parse_offset, [me, '(IX%sNUM)' % sign])

        def post_po(p, prove, sign=sign):
            if p.raised is not None:
                prove('post.no_raise', False)
                return
            prove('post.byte', and_(p.ret >= 0, p.ret <= 255))
            exp = p.d if sign == '+' else ((0 - p.d) & 255)
            prove('post.value', cmpop('==', p.ret, exp))
        FuncVC(rep, 'C02', Assembler._parse_offset, 'skoolkit.z80.Assembler._parse_offset[(IX%sd)]' % sign,
               Engine(inline_ok=lambda f: False)).run(start_po, post_po, replay_parse_offset(sign))

    # ---- Disassembler.jr_arg / index_offset: what value is handed to the formatter
    check_disassembler_kernels(rep)

    # ---- round-trip lemma over the two contracts, for ALL (address, offset byte) pairs
    t0 = time.time()
    a = z3.BitVec('a', W)
    o = z3.BitVec('o', W)
    so = z3.If(o > 127, o - 256, o)
    t = a + 2 + so
    emitted = z3.And(t >= 0, t < 65536)
    disp = (t - a - 2) & 0xFFFF
    reachable = z3.Or(disp < 128, disp >= 65408)
    from pyvc.solve import check_sat
    r, backend, model = check_sat([a >= 0, a < 65536, o >= 0, o < 256, emitted, z3.Not(z3.And(reachable, (disp & 255) == o))])
    rep.add('C02/lemma.jr_roundtrip', 'proved' if r == 'unsat' else ('failed' if r == 'sat' else 'unknown'), backend, time.time() - t0,
            'lemma: jr_arg contract o _address_offset contract')
    if r == 'sat':
        rep.errors.append('lemma jr_roundtrip is false under the stated contracts')


def check_disassembler_kernels(rep):
    from skoolkit.disassembler import Disassembler
    W = poly.W
    mem = [0] * 65536
    dis = Disassembler(mem, _mkcfg('ALL', True, False, False))

    def start_jr(eng):
        p = eng.path
        p.a = SV(z3.BitVec('a', W), 0, 65535)
        p.o = SV(z3.BitVec('o', W), 0, 255)
        p.facts.append(z3.And(p.a.t >= 0, p.a.t <= 65535, p.o.t >= 0, p.o.t <= 255))
        p.fmt = []
        p.defb = []
        me = ObjModel(dis, name='disassembler')

        class Snap:
            pass
        snap = ObjModel(None, name='snapshot')
        p.snap_idx = []

        def getitem_model(e, args, k, n):
            p.snap_idx.append(args[0])
            return p.o
        fm = ObjModel(None, name='op_formatter')
        fm.attrs['format_word'] = CallModel(lambda e, args, k, n: (p.fmt.append(args[0]), 'NUM')[1], 'format_word')
        me.attrs['op_formatter'] = fm
        me.attrs['snapshot'] = SnapshotModel(p)
        me.attrs['_defb'] = CallModel(lambda e, args, k, n: (p.defb.append(args), ('DEFB', 2))[1], '_defb')
        p.ret = eng.call_function(Disassembler.jr_arg, [me, 'JR {}', p.a, 'n'])

    def post_jr(p, prove):
        so = ite(p.o > 127, p.o - 256, p.o)
        t = p.a + 2 + so
        inrange = and_(t >= 0, t < 65536)
        prove('post.operand_address', and_(*[cmpop('==', i, (p.a + 1) & 0xFFFF) for i in p.snap_idx]) if p.snap_idx else False)
        if p.fmt:
            prove('post.emits_iff_in_range', inrange)
            prove('post.target', cmpop('==', p.fmt[0], t))
            prove('post.size', p.ret[1] == 2)
        else:
            prove('post.defb_iff_out_of_range', not_(inrange))
            prove('post.defb_args', len(p.defb) == 1 and p.defb[0][1] == 2 and p.defb[0][0] is p.a)

    eng = SnapEngine(inline_ok=lambda f: False)
    FuncVC(rep, 'C02', Disassembler.jr_arg, 'skoolkit.disassembler.Disassembler.jr_arg', eng).run(start_jr, post_jr, replay_jr_arg)

    def start_io(eng):
        p = eng.path
        p.a = SV(z3.BitVec('a', W), 0, 65535)
        p.o = SV(z3.BitVec('o', W), 0, 255)
        p.facts.append(z3.And(p.a.t >= 0, p.a.t <= 65535, p.o.t >= 0, p.o.t <= 255))
        p.fmt = []
        p.snap_idx = []
        me = ObjModel(dis, name='disassembler')
        fm = ObjModel(None, name='op_formatter')
        fm.attrs['format_byte'] = CallModel(lambda e, args, k, n: (p.fmt.append(args[0]), 'NUM')[1], 'format_byte')
        me.attrs['op_formatter'] = fm
        me.attrs['snapshot'] = SnapshotModel(p)
        p.ret = eng.call_function(Disassembler.index_offset, [me, p.a, 'n'])

    def post_io(p, prove):
        prove('post.operand_address', and_(*[cmpop('==', i, (p.a + 1) & 0xFFFF) for i in p.snap_idx]) if p.snap_idx else False)
        neg = p.ret.startswith('-')
        prove('post.sign', (p.o >= 128) if neg else (p.o < 128))
        prove('post.magnitude', cmpop('==', p.fmt[0], (256 - p.o) if neg else p.o) if len(p.fmt) == 1 else False)
        # round trip with _parse_offset's contract: '+d' -> d ; '-d' -> (0 - d) & 255
        back = ((0 - p.fmt[0]) & 255) if neg else p.fmt[0]
        prove('lemma.index_roundtrip', cmpop('==', back, p.o) if len(p.fmt) == 1 else False)
    FuncVC(rep, 'C02', Disassembler.index_offset, 'skoolkit.disassembler.Disassembler.index_offset',
           SnapEngine(inline_ok=lambda f: False)).run(start_io, post_io, None)


class SnapshotModel:
    """snapshot[...] with a symbolic index: records the index, yields the operand byte."""

    def __init__(self, p):
        self.p = p


class SnapEngine(Engine):
    def getitem(self, base, idx, node):
        if isinstance(base, SnapshotModel):
            base.p.snap_idx.append(idx)
            return base.p.o
        return super().getitem(base, idx, node)


# ------------------------------------------------------------------ replayers
def replay_parse_expr(limit, non_neg):
    def rp(vals, kind):
        from skoolkit.z80 import Assembler
        v = vals.get('value', 0)
        asm = Assembler()
        try:
            r = asm._parse_expr(str(v), limit, False, non_neg, None)
        except ValueError:
            r = 'ValueError'
        ok = abs(v) < limit and not (non_neg and v < 0)
        e = (v % limit) if ok else 'ValueError'
        return {'case': {'text': str(v), 'limit': limit, 'non_neg': non_neg}, 'diffs': [] if r == e else [('result', r, e)]}
    return rp


def replay_address_offset(vals, kind):
    from skoolkit.z80 import Assembler
    a, t = vals.get('address', 0) & 0xFFFF, vals.get('target', 0) & 0xFFFF
    asm = Assembler()
    try:
        r = asm._address_offset(a, str(t))
    except ValueError:
        r = 'ValueError'
    o = (t - a - 2) % 65536
    e = (o % 256) if (o < 128 or o >= 65408) else 'ValueError'
    return {'case': {'address': a, 'target': t}, 'diffs': [] if r == e else [('result', r, e)]}


def replay_parse_offset(sign):
    def rp(vals, kind):
        from skoolkit.z80 import Assembler
        d = vals.get('d', 0) & 255
        asm = Assembler()
        op = '(IX%s%d)' % (sign, d)
        try:
            r = asm._parse_offset(op)
        except ValueError:
            r = 'ValueError'
        e = d if sign == '+' else (-d) % 256
        out = {'case': {'op': op, 'demo': "Assembler().assemble('LD A,%s', 0)" % op}, 'diffs': [] if r == e else [('result', r, e)]}
        return out
    return rp


def replay_jr_arg(vals, kind):
    from skoolkit.disassembler import Disassembler
    a, o = vals.get('a', 0) & 0xFFFF, vals.get('o', 0) & 255
    mem = [0] * 65536
    mem[a] = 0x18
    mem[(a + 1) & 0xFFFF] = o
    d = Disassembler(mem, _mkcfg('ALL', True, False, False))
    op, size = d.jr_arg('JR {}', a, 'n')
    t = a + 2 + (o - 256 if o > 127 else o)
    e = 'JR %d' % t if 0 <= t < 65536 else None
    diffs = []
    if e is not None and op != e:
        diffs.append(('operation', op, e))
    if e is None and not op.startswith('DEFB'):
        diffs.append(('operation', op, 'DEFB ...'))
    return {'case': {'a': a, 'o': o}, 'diffs': diffs}


# ------------------------------------------------------------------ B: DEF* statements, spellings
def defs_bounded(seed, n):
    """DEFB/DEFM/DEFW/DEFS statements produced by the disassembler assemble back;
    assembler-only spellings: asm -> dis -> asm is a fixed point."""
    from skoolkit.disassembler import Disassembler
    from skoolkit.z80 import Assembler
    rnd = random.Random(seed)
    asm = Assembler()
    bad = []
    alphabet = [0, 1, 31, 32, 34, 92, 65, 94, 96, 126, 127, 128, 160, 162, 220, 255]
    evals = 0
    mem = [0] * 65536
    for hexa, lower in itertools.product((False, True), repeat=2):
        cfg = _mkcfg('ALL', True, hexa, lower)
        cfg.defb_size = 4
        cfg.defm_size = 4
        cfg.defw_size = 2
        d = Disassembler(mem, cfg)
        # every single byte, every base
        for v in range(256):
            mem[0x8000] = v
            for base in 'nbcdhm':
                for f in (d.defb_range, d.defm_range):
                    for ins in f(0x8000, 0x8001, ((1, base),)):
                        evals += 1
                        got = list(asm.assemble(ins.operation, ins.address))
                        if got != list(ins.bytes):
                            bad.append(('DEF1', hexa, lower, base, ins.operation, list(ins.bytes), got))
        # all sequences up to length 3 over the covering alphabet (quick) as DEFB/DEFM with 'c' and 'n'
        for L in (2, 3):
            for seq in itertools.product(alphabet, repeat=L):
                for k, b in enumerate(seq):
                    mem[0x8000 + k] = b
                for base, f in (('c', d.defm_range), ('c', d.defb_range), ('n', d.defb_range)):
                    cur = 0x8000
                    for ins in f(0x8000, 0x8000 + L, ((0, base),)):
                        evals += 1
                        got = list(asm.assemble(ins.operation, ins.address))
                        if got != list(ins.bytes) or ins.address != cur:
                            bad.append(('DEFSEQ', hexa, lower, base, ins.operation, list(ins.bytes), got))
                        cur += len(ins.bytes)
                    if cur != 0x8000 + L:
                        bad.append(('DEFSEQ-END', hexa, lower, base, seq, cur))
            if len(bad) > 20:
                break
        # random longer statements: DEFW, DEFS, mixed sublengths
        for t in range(n):
            L = rnd.randrange(1, 24)
            start = rnd.choice((0x8000, 65536 - L, rnd.randrange(0, 65536 - L)))
            kind = rnd.choice('bmws')
            if kind == 'w' and L % 2:
                L += 1
                start = min(start, 65536 - L)
            if kind == 's':
                v = rnd.choice(alphabet)
                for a in range(start, start + L):
                    mem[a] = v
            else:
                for a in range(start, start + L):
                    mem[a] = rnd.choice(alphabet + [rnd.randrange(256)])
            base = rnd.choice('nbdhmc' if kind in 'bm' else 'nbdh')
            if kind == 's':
                subs = ((0, base),) if rnd.random() < 0.5 else ((L, base), (1, rnd.choice('nbdh')))
            elif rnd.random() < 0.5:
                subs = ((0, base),)
            else:
                subs = []
                rem = L
                while rem > 0:
                    k = rnd.randrange(1, rem + 1)
                    if kind == 'w':
                        k = max(2, k - k % 2)
                        k = min(k, rem)
                    subs.append((k, rnd.choice('nbdhc' if kind in 'bm' else 'nbdh')))
                    rem -= k
                subs = tuple(subs)
            f = {'b': d.defb_range, 'm': d.defm_range, 'w': d.defw_range, 's': d.defs_range}[kind]
            try:
                inss = f(start, start + L, subs)
            except Exception as ex:
                bad.append(('DEF-EXC', kind, start, L, subs, repr(ex)))
                continue
            cur = start
            for ins in inss:
                evals += 1
                data = list(ins.bytes)
                if ins.address != cur or data != mem[cur:cur + len(data)]:
                    bad.append(('DEF-TILE', kind, start, L, subs, ins.address, cur))
                    break
                got = list(asm.assemble(ins.operation, ins.address))
                if got != data:
                    bad.append(('DEF-ASM', kind, hexa, lower, subs, ins.operation, data, got))
                    break
                cur += len(data)
            else:
                if cur != start + L:
                    bad.append(('DEF-END', kind, start, L, subs, cur))
            for a in range(start, start + L):
                mem[a] = 0
    # assembler-only spellings
    spell = []
    for v in (0, 1, 9, 10, 34, 65, 92, 127, 128, 200, 255):
        spell += ['LD A,%d' % v, 'ld a, $%02x' % v, 'LD  A , %%%s' % bin(v)[2:], 'LD A,%d+0' % v, 'LD A,(%d)*1' % v if False else 'LD A,%d*1' % v,
                  'LD (IX+%d),%d' % (v & 127, v), 'ld (iy-%d),$%02X' % ((v & 127) or 1, v), 'OUT (%d),A' % v, 'IN A,($%02X)' % v, 'RST %d' % (v & 0x38),
                  'BIT %d,(IX+%d)' % (v & 7, v & 127), 'SET %d,(IY-%d),B' % (v & 7, (v & 127) or 1), 'AND "%s"' % chr(v) if 32 <= v < 127 and v not in (34, 92, 94, 96) else 'AND %d' % v,
                  'LD BC,%d' % (v * 257), 'LD HL,($%04x)' % (v * 257), 'LD ( %d ),A' % (v * 257), 'JP NZ,%d' % (v * 257), 'CALL %d-1+1' % (v * 257),
                  'JR %d' % (0x8000 + (v & 127)), 'DJNZ $%04X' % (0x8002 - (v & 127)), 'LD A,-%d' % ((v & 127) or 1), 'LD (IX-0),A' if v == 0 else 'LD (IX+0),A']
    dd = Disassembler(mem, _mkcfg('ALL', True, False, False))
    for s in spell:
        evals += 1
        try:
            b = asm.assemble(s, 0x8000)
        except Exception as ex:
            bad.append(('SPELL-EXC', s, repr(ex)))
            continue
        if not b:
            continue   # the assembler does not accept it: outside the quantifier
        b = list(b)
        if any(not (isinstance(x, int) and 0 <= x <= 255) for x in b):
            bad.append(('SPELL-BYTE', s, b))
            continue
        for k, x in enumerate(b):
            mem[0x8000 + k] = x
        i2 = dd.disassemble(0x8000, 0x8001, 'n')[0]
        g2 = list(asm.assemble(i2.operation, 0x8000))
        if g2 != b and not i2.variant:
            bad.append(('SPELL-RT', s, b, i2.operation, g2))
        for k in range(len(b)):
            mem[0x8000 + k] = 0
    return evals, bad


def classify(b):
    """Key of a failure for reporting / known findings."""
    if b[0] in ('dis->asm', 'asm->dis->asm'):
        return 'C02/%s/%s/base=%s' % (b[0], b[6].split()[0] if b[6] else '?', b[4])
    return 'C02/%s' % (b[0],)


def run(tier):
    rep = common.Report('C02', tier, 'proof', './check C02 --tier %s' % tier)
    rep.trust('pyvc (VC generation), z3/cvc5; CPython evaluation of the real functions on every element of the finite domains')
    rep.assume('P kernels: the operand evaluator is abstracted by its contract (eval_int returns some integer / raises ValueError); parse_byte/parse_word by the contract proved for _parse_expr')
    rep.assume('the address parameter reaches only _address_offset / jr_arg and the 64K-wrap byte fetches (checked on the AST, obligation C02/frame.address)')
    rep.assume('base m (negative) is meaningful only for signed operands: RST arguments and IN/OUT port numbers are excluded from the m round trip')
    t0 = time.time()
    check_kernels(rep)
    check_address_frame(rep)
    quick = tier == 'quick'
    with Pool(common.NCPU) as p:
        # (g) numbers
        tasks = []
        for hexa, lower in itertools.product((False, True), repeat=2):
            tasks.append((hexa, lower, 1, 0, 256))
            for lo in range(0, 65536, 8192):
                tasks.append((hexa, lower, 2, lo, lo + 8192))
        res = p.map(numbers_chunk, tasks)
        n = sum(r[0] for r in res)
        bad = [b for r in res for b in r[1]]
        rep.add_bulk(n - len(bad), 'exhaustive', 0, 'skoolkit.disassembler.OperandFormatter._num_str / skoolkit.z80.eval_int', n=n)
        rep.exhaustive.append({'domain': 'number formatting: values 0..255 (1 byte) and 0..65535 (2 bytes) x bases n,b,c,d,h,m x {hex,dec} x {upper,lower}', 'size': n, 'visited': n, 'complete': True})
        seen = set()
        for b in bad:
            hexa, lower, nb, base, v, s, e = b
            key = 'C02/number/base=%s/nb=%d/value=%d' % (base, nb, v)
            if key in seen or len(seen) >= 12:
                continue
            seen.add(key)
            rep.violation(key, '_num_str(%d, %d, %r) = %r evaluates to %r: not a %d-byte operand the assembler accepts' % (v, nb, base, s, e, nb),
                          {'value': v, 'num_bytes': nb, 'base': base, 'text': s, 'eval': e, 'asm_hex': hexa, 'asm_lower': lower})
        # (h) opcodes
        values = QUICK_BYTES if quick else list(range(256))
        addrs = (0x8000, 65534)
        tasks = [(hexa, lower, path, values, addrs) for hexa, lower in itertools.product((False, True), repeat=2) for path in PATHS]
        res = p.map(opcodes_chunk, tasks, chunksize=1)
        n = sum(r[0] for r in res)
        bad = [b for r in res for b in r[1]]
        # unsigned-only operands (RST n, IN A,(n), OUT (n),A) in the negative base are outside the quantifier
        # ("negative where a signed operand is meaningful"): not obligations (F15 is the finding about them under C01)
        excluded = [b for b in bad if b[4] and 'm' in b[4] and b[6].split()[0].upper() in ('RST', 'IN', 'OUT')]
        bad = [b for b in bad if b not in excluded]
        n -= len(excluded)
        dom = {'domain': 'all opcode paths x %d operand byte values x %d base indicators x 4 base/case configs x addresses %s, Opcodes=ALL, both directions' % (len(values), len(BASES), list(addrs)),
               'size': n, 'visited': n, 'complete': not quick}
        if quick:
            rep.bounded.append({'function': 'Disassembler.disassemble o Assembler.assemble (operand byte values)', 'contract': 'assemble(disassemble(bytes)) == bytes',
                                'bound': '%d of 256 operand byte values covering every text shape (thorough tier: all 256)' % len(values), 'evaluations': n})
            rep.add_bulk(0, 'exhaustive', 0, None, n=0)
        else:
            rep.exhaustive.append(dom)
            rep.add_bulk(n - len(bad), 'exhaustive', 0, 'skoolkit.z80.Assembler.assemble / skoolkit.disassembler.Disassembler.disassemble', n=n)
        seen = set()
        for b in bad:
            if b[4] and 'm' in b[4] and b[6].split()[0].upper() in ('RST', 'IN', 'OUT'):
                continue     # unsigned-only operands: outside "negative where a signed operand is meaningful"
            key = classify(b)
            if key in seen:
                continue
            seen.add(key)
            rep.violation(key, '%s: %s at %d (base %s, hex=%s lower=%s): bytes %s, reassembled %s' % (b[0], b[6], b[3], b[4], b[1], b[2], b[7], b[8]),
                          {'direction': b[0], 'operation': b[6], 'address': b[3], 'base': b[4], 'asm_hex': b[1], 'asm_lower': b[2], 'bytes': b[7], 'got': b[8],
                           'demo': "Assembler().assemble(%r, %d)" % (b[6], b[3])})
    # B
    n_def = 150 if quick else 3000
    ev, bad = defs_bounded(common.seed(), n_def)
    rep.bounded.append({'function': 'Disassembler.defb_range/defm_range/defw_range/defs_range o Assembler.assemble; assembler-only operand spellings',
                        'contract': 'statements tile the range, carry the bytes, and assemble back; asm->dis->asm fixed point',
                        'bound': 'every single byte x base; all sequences of length 2..3 over a 16-symbol covering alphabet; %d random statements per config; 240 spellings' % n_def,
                        'evaluations': ev})
    seen = set()
    for b in bad:
        key = 'C02/%s/%s' % (b[0], str(b[1])[:30])
        if key in seen:
            continue
        seen.add(key)
        rep.violation(key, 'DEF*/spelling round trip fails: %s' % (b,), {'case': b})
    rep.extra['explanation'] = 'P kernels + lemmas over their contracts; E enumerations of the finite operand space; DEF* sequences bounded'
    rep.sample({'operation': 'LD A,(IX-$7F)', 'checked': 'assemble == DD 7E 81; disassemble(DD 7E 81, base h) == same text'})
    return rep.finish()


def check_address_frame(rep):
    """The `address` parameter of the encoders flows only into _address_offset
    (dataflow on the AST of every Assembler._assemble_* / helper)."""
    import ast
    import inspect
    import textwrap
    from skoolkit.z80 import Assembler
    bad = []
    n = 0
    for name, fn in inspect.getmembers(Assembler, inspect.isfunction):
        params = list(inspect.signature(fn).parameters)
        if 'address' not in params or name in ('_address_offset', 'assemble', 'get_size', '_assemble'):
            continue
        n += 1
        tree = ast.parse(textwrap.dedent(inspect.getsource(fn)))
        for node in ast.walk(tree):
            if isinstance(node, ast.Name) and node.id == 'address' and isinstance(node.ctx, ast.Load):
                # allowed: passed positionally to self._address_offset / self._arithmetic_a (which ignores it)
                ok = False
                for call in ast.walk(tree):
                    if isinstance(call, ast.Call) and node in call.args and isinstance(call.func, ast.Attribute) and call.func.attr in ('_address_offset', '_arithmetic_a'):
                        ok = True
                if not ok:
                    bad.append((name, node.lineno))
    rep.add('C02/frame.address', 'proved' if not bad else 'failed', 'ast-dataflow', 0, 'skoolkit.z80.Assembler._assemble_*')
    if bad:
        rep.violation('C02/frame.address', 'address parameter used outside _address_offset in %s' % bad, {'sites': bad}, no_input=True)


def replay(path):
    import json
    with open(path) as f:
        doc = json.load(f)
    print('replaying', doc.get('key'))
    if 'operation' in doc and 'bytes' in doc:
        from skoolkit.z80 import Assembler
        got = list(Assembler().assemble(doc['operation'], doc['address']) or ())
        print('assemble(%r, %d) = %s, disassembled from %s' % (doc['operation'], doc['address'], got, doc['bytes']))
        if got != doc['bytes']:
            print('VIOLATION property=C02 replay=%s' % path)
            return 1
        return 0
    if 'text' in doc:
        from skoolkit.z80 import eval_int
        try:
            e = eval_int(doc['text'])
        except Exception as ex:
            e = repr(ex)
        limit = 256 if doc['num_bytes'] == 1 else 65536
        print('eval_int(%r) = %r' % (doc['text'], e))
        if not isinstance(e, int) or abs(e) >= limit or e % limit != doc['value']:
            print('VIOLATION property=C02 replay=%s' % path)
            return 1
        return 0
    case = doc.get('case') or {}
    if 'demo' in case:
        from skoolkit.z80 import Assembler
        r = eval(case['demo'], {'Assembler': Assembler})
        print(case['demo'], '=', r)
        if any(not 0 <= b <= 255 for b in r):
            print('VIOLATION property=C02 replay=%s' % path)
            return 1
        return 0
    print(doc.get('what'))
    return 1
