"""Shared plumbing of the checks: obligation bookkeeping, evidence files, known
findings, VIOLATION lines, exit codes.

Exit codes: 0 held / 1 violation / 2 undecided / 3 checker error.
"""
import json
import os
import sys
import time
import collections

ROOT = os.path.dirname(os.path.dirname(os.path.abspath(__file__)))
EVIDENCE_DIR = os.environ.get('VERIF_EVIDENCE_DIR') or os.path.join(ROOT, 'evidence')     # selftest runs write elsewhere
REPLAY_DIR = os.environ.get('VERIF_REPLAY_DIR') or os.path.join(ROOT, 'replays')
KNOWN_FINDINGS = os.path.join(ROOT, 'known_findings.json')
NCPU = min(16, os.cpu_count() or 1)


def seed():
    try:
        return int(os.environ.get('VERIF_SEED', '0'))
    except ValueError:
        return 0


def load_known():
    try:
        with open(KNOWN_FINDINGS) as f:
            return json.load(f)
    except FileNotFoundError:
        return []


class Report:
    """Collects what one run of one property's check did."""

    def __init__(self, prop, tier, level, checker_cmd):
        self.prop = prop
        self.tier = tier
        self.level = level
        self.checker_cmd = checker_cmd
        self.t0 = time.time()
        self.obligations = 0
        self.discharged = 0
        self.by_backend = collections.Counter()
        self.solver_s = collections.Counter()
        self.functions = collections.OrderedDict()   # function -> count of obligations
        self.exhaustive = []        # dicts: domain, size, complete
        self.bounded = []           # dicts: function, contract, bound, evaluations
        self.undecided = []         # obligation ids
        self.downgraded = []
        self.assumptions = []
        self.trusted = []
        self.samples = []
        self.violations = []        # (key, what, replay_path)
        self.known_hits = []
        self.vacuity = {}
        self.notes = []
        self.errors = []
        self.extra = {}
        self.known = [k for k in load_known() if k.get('property') == prop]

    # -- obligations
    def add(self, oid, status, backend, seconds=0.0, function=None):
        """status: proved / failed / unknown"""
        self.obligations += 1
        if function:
            self.functions[function] = self.functions.get(function, 0) + 1
        self.by_backend[backend] += 1
        self.solver_s[backend] += seconds
        if status == 'proved':
            self.discharged += 1
        elif status == 'unknown':
            self.undecided.append(oid)

    def add_bulk(self, n_proved, backend, seconds=0.0, function=None, n=None):
        n = n_proved if n is None else n
        self.obligations += n
        self.discharged += n_proved
        self.by_backend[backend] += n
        self.solver_s[backend] += seconds
        if function:
            self.functions[function] = self.functions.get(function, 0) + n

    def sample(self, s):
        if len(self.samples) < 12:
            self.samples.append(s)

    def assume(self, text):
        if text not in self.assumptions:
            self.assumptions.append(text)

    def trust(self, text):
        if text not in self.trusted:
            self.trusted.append(text)

    # -- violations
    def violation(self, key, what, replay=None, no_input=False):
        """key identifies the failing obligation + normalised input (matched
        against known_findings.json)."""
        for k in self.known:
            if k.get('status') == 'finding' and k.get('key') == key:
                if key not in [h[0] for h in self.known_hits]:
                    self.known_hits.append((key, k.get('what', what)))
                    print('KNOWN-FINDING: property=%s %s' % (self.prop, k.get('what', what)), flush=True)
                return False
        os.makedirs(REPLAY_DIR, exist_ok=True)
        path = os.path.join(REPLAY_DIR, '%s_%03d.json' % (self.prop, len(self.violations)))
        doc = {'property': self.prop, 'key': key, 'what': what, 'no_failing_input_found': bool(no_input)}
        if isinstance(replay, dict):
            doc.update(replay)
        with open(path, 'w') as f:
            json.dump(doc, f, indent=1, default=str)
        self.violations.append((key, what, path))
        line = 'VIOLATION property=%s replay=%s' % (self.prop, path)
        if no_input:
            line += ' no-failing-input-found'
        print('  failing obligation: %s :: %s' % (key, str(what)[:300]), flush=True)
        print(line, flush=True)
        return True

    # -- parallel parts
    def merge(self, part):
        """Fold in what a SubReport collected in a worker process (dict from SubReport.export())."""
        self.obligations += part['obligations']
        self.discharged += part['discharged']
        for k, v in part['by_backend'].items():
            self.by_backend[k] += v
        for k, v in part['solver_s'].items():
            self.solver_s[k] += v
        for k, v in part['functions']:
            self.functions[k] = self.functions.get(k, 0) + v
        self.undecided.extend(part['undecided'])
        self.downgraded.extend(part['downgraded'])
        self.errors.extend(part['errors'])
        self.bounded.extend(part['bounded'])
        self.notes.extend(part['notes'])
        for a in part['assumptions']:
            self.assume(a)
        for t in part['trusted']:
            self.trust(t)
        for smp in part['samples']:
            self.sample(smp)
        for k, v in part['vacuity'].items():
            self.vacuity[k] = self.vacuity.get(k, 0) + v
        for k, v in part['extra'].items():
            if isinstance(v, dict):
                self.extra.setdefault(k, {}).update(v)
            else:
                self.extra[k] = v
        for key, what, replay, no_input in part['violations']:
            self.violation(key, what, replay, no_input)

    # -- output
    def write(self):
        os.makedirs(EVIDENCE_DIR, exist_ok=True)
        cov = {
            'obligations': self.obligations,
            'discharged': self.discharged,
            'checker_cmd': self.checker_cmd,
            'trusted_base': self.trusted,
            'explanation': self.extra.pop('explanation', ''),
            'functions_under_contract': [{'function': k, 'obligations': v} for k, v in self.functions.items()],
            'by_backend': {k: {'obligations': v, 'solver_s': round(self.solver_s[k], 2)} for k, v in self.by_backend.items()},
            'exhaustive_domains': self.exhaustive,
            'exhaustive': bool(self.exhaustive) and all(e.get('complete') for e in self.exhaustive),
            'bounded': self.bounded,
            'undecided': self.undecided[:50],
            'undecided_count': len(self.undecided),
            'downgraded_to_bounded': self.downgraded,
            'vacuity': self.vacuity,
            'samples': self.samples or ['(none)'],
            'known_findings_hit': [k for k, _ in self.known_hits],
            'notes': self.notes,
        }
        ev_b = sum(int(b.get('evaluations', 0)) for b in self.bounded)
        cov['evaluations'] = self.obligations + ev_b
        cov['distinct_nontrivial'] = max(2, self.obligations - self.by_backend.get('identical', 0)) if self.obligations else 0
        cov['rule'] = ('obligations = verification conditions generated from the current source (one per site and path) plus '
                       'finite-domain entries checked exhaustively; non-trivial = not discharged by object identity; '
                       'bounded evaluations are listed separately under "bounded" and never counted in "discharged"')
        cov.update(self.extra)
        doc = {
            'property_id': self.prop,
            'tier': self.tier,
            'seed': seed(),
            'level': self.level,
            'coverage': cov,
            'assumptions': self.assumptions,
            'wall_s': round(time.time() - self.t0, 2),
            'violations': len(self.violations),
        }
        path = os.path.join(EVIDENCE_DIR, '%s.json' % self.prop)
        tmp = path + '.tmp'
        with open(tmp, 'w') as f:
            json.dump(doc, f, indent=1, default=str)
        os.replace(tmp, path)
        return path

    def finish(self):
        """Write evidence, print a summary, return the exit code."""
        if self.obligations == 0 and not self.bounded:
            self.errors.append('zero obligations generated')
        path = self.write()
        print('%s tier=%s obligations=%d discharged=%d undecided=%d bounded_items=%d violations=%d known=%d wall=%.1fs evidence=%s' % (
            self.prop, self.tier, self.obligations, self.discharged, len(self.undecided), len(self.bounded),
            len(self.violations), len(self.known_hits), time.time() - self.t0, path), flush=True)
        if self.violations:
            return 1
        if self.errors:
            for e in self.errors:
                print('CHECKER-ERROR: %s' % e, flush=True)
            return 3
        if self.undecided:
            print('UNDECIDED: %d obligations (first: %s)' % (len(self.undecided), self.undecided[0]), flush=True)
            return 2
        if self.downgraded:
            # a function that is under contract on the unchanged tree could not be brought within the VC generator's reach on
            # this tree (slice anchor moved, construct outside the encoded subset): no verdict for it
            d = self.downgraded[0]
            print('UNDECIDED: %d function(s) out of reach of the VC generator on this tree (first: %s: %s)' % (len(self.downgraded), d.get('function'), str(d.get('reason'))[:200]), flush=True)
            return 2
        return 0


class SubReport(Report):
    """Report used inside a worker process: collects, never prints or writes; the parent merges export()."""

    def __init__(self, prop, tier='quick'):
        Report.__init__(self, prop, tier, 'other', '')
        self.pending = []

    def violation(self, key, what, replay=None, no_input=False):
        self.pending.append((key, what, replay, no_input))
        return True

    def export(self):
        return {'obligations': self.obligations, 'discharged': self.discharged, 'by_backend': dict(self.by_backend),
                'solver_s': dict(self.solver_s), 'functions': list(self.functions.items()), 'undecided': self.undecided,
                'downgraded': self.downgraded, 'errors': self.errors, 'bounded': self.bounded, 'notes': self.notes,
                'assumptions': self.assumptions, 'trusted': self.trusted, 'samples': self.samples, 'vacuity': self.vacuity,
                'extra': self.extra, 'violations': json.loads(json.dumps(self.pending, default=str))}
