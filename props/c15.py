"""C15 - Image macros and sna2img render pixel-exact PNGs.

E: the finite kernels completely: mask application for every (graphic byte,
   mask byte) pair and mask type, FLIP, the flash attribute swap, the CRC table.
P: Udg._rotate_tile on 8 symbolic bytes (both directions) against the
   90-degree rotation of the 8x8 bit matrix; four rotations == identity.
B: the statement itself: ImageWriter.write_image decoded by an independent PNG
   reader and compared pixel for pixel with a reference renderer written from
   the Spectrum display rules (scale, crop, masks, flash frame).
"""
import contextlib
import io
import os
import shutil
import tempfile
import random
import struct
import time
import zlib
from multiprocessing import Pool

import z3

from props import common
from props.funcvc import FuncVC
from pyvc import poly
from pyvc.poly import SV, SB, ite, and_, or_, not_, sv, cmpop
from pyvc.engine import Engine, SymList, ObjModel


def check_exhaustive(rep):
    from skoolkit.image import NoMask, OrAndMask, AndOrMask
    from skoolkit.graphics import FLIP, Udg, Frame
    from skoolkit.pngwriter import PngWriter
    PAPER, INK, TRANS = 'p', 'i', 't'
    bad = []
    n = 0
    t0 = time.time()
    for cls, rule in ((NoMask, 0), (OrAndMask, 1), (AndOrMask, 2)):
        m = cls()
        for g in range(256):
            for mk in [None] + list(range(256)):
                if rule == 0 and mk is not None and mk != 0:
                    continue
                u = Udg(0, [g] * 8, None if mk is None else [mk] * 8)
                px = m.apply(u, 3, PAPER, INK, TRANS)
                n += 1
                exp = []
                for i in range(8):
                    gb = (g >> (7 - i)) & 1
                    if rule == 0:
                        exp.append(INK if gb else PAPER)
                        continue
                    mb = gb if (mk is None or not u.mask) else (mk >> (7 - i)) & 1
                    if rule == 1:       # OR-AND: mask bit 0 -> paper; mask 1 & graphic 0 -> transparent; both 1 -> ink
                        exp.append(PAPER if not mb else (INK if gb else TRANS))
                    else:               # AND-OR: graphic 1 -> ink; else mask 1 -> transparent; else paper
                        exp.append(INK if gb else (TRANS if mb else PAPER))
                if px != exp:
                    bad.append(('mask', cls.__name__, g, mk, px, exp))
        if rule:
            pat = {PAPER: 'P', INK: 'I', TRANS: 'T'}
            got = m.colours(pat, PAPER, INK, TRANS)
            exp = ('P', 'T', 'P', 'I') if rule == 1 else ('P', 'T', 'I', 'I')
            n += 1
            if tuple(got) != exp:
                bad.append(('mask.colours', cls.__name__, got, exp))
    for b in range(256):
        n += 1
        e = int('{:08b}'.format(b)[::-1], 2)
        if FLIP[b] != e:
            bad.append(('FLIP', b, FLIP[b], e))
    if len(FLIP) != 256:
        bad.append(('FLIP.len', len(FLIP)))
    for attr in range(256):
        n += 1
        fr = Frame([[Udg(attr, [0] * 8)]])
        f2 = fr.swap_colours(0, 0, 8, 8)
        got = f2.udgs[0][0].attr
        e = attr if not attr & 128 else (attr & 0xC0) | ((attr & 7) << 3) | ((attr >> 3) & 7)
        if got != e:
            bad.append(('swap_colours', attr, got, e))
    w = PngWriter()
    for i in range(256):
        n += 1
        c = i
        for _ in range(8):
            c = (c >> 1) ^ (0xEDB88320 if c & 1 else 0)
        if w.crc_table[i] != c:
            bad.append(('crc_table', i, w.crc_table[i], c))
    rnd = random.Random(common.seed())
    for _ in range(300):
        n += 1
        data = [rnd.randrange(256) for _ in range(rnd.randrange(0, 200))]
        got = bytes(w._get_crc(data))
        if got != struct.pack('>I', zlib.crc32(bytes(data)) & 0xFFFFFFFF):
            bad.append(('_get_crc', data[:8]))
    rep.add_bulk(n - len(bad), 'exhaustive', time.time() - t0, 'skoolkit.image.NoMask/OrAndMask/AndOrMask.apply, graphics.FLIP, Frame.swap_colours, PngWriter.crc_table', n=n)
    rep.exhaustive.append({'domain': 'mask x graphic byte x (mask byte | none); FLIP[0..255]; flash swap of 256 attributes; 256 CRC table entries', 'size': n, 'visited': n, 'complete': True})
    seen = set()
    for b in bad:
        key = 'C15/%s' % b[0] + ('/' + str(b[1]) if b[0] == 'mask' else '')
        if key in seen:
            continue
        seen.add(key)
        rep.violation(key, 'image kernel differs from the display rule: %s' % (b,), {'case': b})


def check_rotate(rep):
    from skoolkit.graphics import Udg
    W = poly.W
    for backwards in (0, 2):
        def start(eng, backwards=backwards):
            p = eng.path
            p.data = [SV(z3.BitVec('d%d' % i, W), 0, 255) for i in range(8)]
            for d in p.data:
                p.facts.append(z3.And(d.t >= 0, d.t <= 255))
            u = ObjModel(None, name='udg', cls=Udg)
            p.ret = eng.call_function(Udg._rotate_tile, [u, list(p.data), backwards])

        def post(p, prove, backwards=backwards):
            out = p.ret.items if isinstance(p.ret, SymList) else list(p.ret)
            prove('post.length', len(out) == 8)
            if len(out) != 8:
                return
            for y2 in range(8):
                prove('post.byte%d' % y2, and_(out[y2] >= 0, out[y2] <= 255))
                for x2 in range(8):
                    # pixel (x, y) = bit (7 - x) of byte y
                    if not backwards:
                        sx, sy = y2, 7 - x2          # clockwise
                    else:
                        sx, sy = 7 - y2, x2          # anticlockwise
                    got = (out[y2] >> (7 - x2)) & 1
                    exp = (p.data[sy] >> (7 - sx)) & 1
                    prove('post.pixel', cmpop('==', got, exp))
        FuncVC(rep, 'C15', Udg._rotate_tile, 'skoolkit.graphics.Udg._rotate_tile[backwards=%d]' % backwards, Engine()).run(start, post, replay_rotate(backwards))

    def start4(eng):
        p = eng.path
        p.data = [SV(z3.BitVec('d%d' % i, W), 0, 255) for i in range(8)]
        for d in p.data:
            p.facts.append(z3.And(d.t >= 0, d.t <= 255))
        u = ObjModel(None, name='udg', cls=Udg)
        cur = list(p.data)
        for _ in range(4):
            cur = eng.call_function(Udg._rotate_tile, [u, cur, 0])
            cur = list(cur.items) if isinstance(cur, SymList) else list(cur)
        p.ret = cur
        back = eng.call_function(Udg._rotate_tile, [u, eng.call_function(Udg._rotate_tile, [u, list(p.data), 0]), 2])
        p.back = list(back.items) if isinstance(back, SymList) else list(back)

    def post4(p, prove):
        for i in range(8):
            prove('lemma.four_rotations_identity', cmpop('==', p.ret[i], p.data[i]))
            prove('lemma.back_inverts_forward', cmpop('==', p.back[i], p.data[i]))
    FuncVC(rep, 'C15', Udg._rotate_tile, 'skoolkit.graphics.Udg._rotate_tile[x4, inverse]', Engine()).run(start4, post4, None)


def replay_rotate(backwards):
    def rp(vals, kind):
        from skoolkit.graphics import Udg
        data = [vals.get('d%d' % i, 0) & 255 for i in range(8)]
        out = Udg(0, data)._rotate_tile(list(data), backwards)
        exp = []
        for y2 in range(8):
            b = 0
            for x2 in range(8):
                sx, sy = (y2, 7 - x2) if not backwards else (7 - y2, x2)
                b |= ((data[sy] >> (7 - sx)) & 1) << (7 - x2)
            exp.append(b)
        return {'case': {'data': data, 'backwards': backwards}, 'diffs': [] if list(out) == exp else [('rotated', list(out), exp)]}
    return rp


# ------------------------------------------------------------------ B
def decode_png(png):
    """Independent minimal PNG/APNG reader: signature, chunk CRCs, IHDR/PLTE/tRNS, inflate, filter 0, unpack."""
    assert png[:8] == b'\x89PNG\r\n\x1a\n', 'signature'
    i = 8
    chunks = []
    while i < len(png):
        n = struct.unpack('>I', png[i:i + 4])[0]
        typ = png[i + 4:i + 8]
        data = png[i + 8:i + 8 + n]
        crc = struct.unpack('>I', png[i + 8 + n:i + 12 + n])[0]
        assert zlib.crc32(typ + data) & 0xffffffff == crc, 'crc of %r' % typ
        chunks.append((typ, data))
        i += 12 + n
    assert chunks[0][0] == b'IHDR' and chunks[-1][0] == b'IEND', 'chunk order'
    w, h, bd, ct, cm, fm, im = struct.unpack('>IIBBBBB', chunks[0][1])
    assert ct == 3 and cm == 0 and fm == 0 and im == 0 and bd in (1, 2, 4, 8), 'IHDR fields'
    plte = [d for t, d in chunks if t == b'PLTE'][0]
    assert len(plte) % 3 == 0 and len(plte) // 3 <= 1 << bd, 'PLTE size'
    pal = [tuple(plte[k:k + 3]) for k in range(0, len(plte), 3)]
    trns = [d for t, d in chunks if t == b'tRNS']
    alpha = list(trns[0]) if trns else []
    assert len(alpha) <= len(pal), 'tRNS size'

    def unpack(raw, w_, h_):
        stride = (w_ * bd + 7) // 8 + 1
        assert len(raw) == stride * h_, 'image data size %d != %d' % (len(raw), stride * h_)
        rows = []
        for y in range(h_):
            line = raw[y * stride:(y + 1) * stride]
            assert line[0] == 0, 'filter type'
            px = []
            for x in range(w_):
                bit = x * bd
                byte = line[1 + bit // 8]
                sh = 8 - bd - (bit % 8)
                v = (byte >> sh) & ((1 << bd) - 1)
                assert v < len(pal), 'palette index'
                px.append((pal[v], alpha[v] if v < len(alpha) else 255))
            rows.append(px)
        return rows
    frames = []
    idat = b''.join(d for t, d in chunks if t == b'IDAT')
    frames.append(((0, 0, w, h), unpack(zlib.decompress(idat), w, h)))
    fctl = [d for t, d in chunks if t == b'fcTL']
    fdat = [d for t, d in chunks if t == b'fdAT']
    if fdat:
        fw, fh, fx, fy = struct.unpack('>IIII', fctl[-1][4:20])
        frames.append(((fx, fy, fw, fh), unpack(zlib.decompress(b''.join(d[4:] for d in fdat)), fw, fh)))
    return w, h, frames


def render(udgs, scale, mask, x, y, w, h, iw, flash=False):
    colours = [c[1] for c in iw.get_default_colours()] if hasattr(iw, 'get_default_colours') else None
    rows = []
    for yy in range(y, y + h):
        row = []
        for xx in range(x, x + w):
            sy, sx = yy // scale, xx // scale
            u = udgs[sy // 8][sx // 8]
            r = sy % 8
            bitn = 0x80 >> (sx % 8)
            attr = u.attr
            if flash and attr & 128:
                attr = (attr & 0xC0) | ((attr & 7) << 3) | ((attr >> 3) & 7)
            paper, ink = iw.attr_index[attr]
            g = 1 if u.data[r] & bitn else 0
            if mask and u.mask:
                m = 1 if u.mask[r] & bitn else 0
            elif mask:
                m = g
            else:
                m = None
            if mask == 0:
                c = ink if g else paper
            elif mask == 1:
                c = {(0, 0): paper, (0, 1): None, (1, 0): paper, (1, 1): ink}[(g, m)]
            else:
                c = {(0, 0): paper, (0, 1): None, (1, 0): ink, (1, 1): ink}[(g, m)]
            row.append(c)
        rows.append(row)
    return rows


def images_chunk(args):
    seed, k0, k1 = args
    from skoolkit.image import ImageWriter
    from skoolkit.graphics import Udg, Frame
    bad = []
    n = 0
    for k in range(k0, k1):
        rnd = random.Random('%s/img/%s' % (seed, k))
        anim = rnd.random() < 0.3
        # transparency: the frame's alpha (-1 = not given: the writer's PNGAlpha, 255 unless configured) is the alpha of
        # every pixel the mask makes transparent; every other pixel is opaque
        png_alpha = rnd.choice((None, None, 0, 1, 100, 255))
        f_alpha = rnd.choice((-1, -1, 0, 0, 1, 128, 254, 255))
        iw = ImageWriter(dict({'PNGEnableAnimation': 1 if anim else 0}, **({} if png_alpha is None else {'PNGAlpha': png_alpha})))
        exp_alpha = f_alpha if f_alpha >= 0 else (255 if png_alpha is None else png_alpha)
        cw = rnd.randrange(1, 5)
        ch = rnd.randrange(1, 4)
        scale = rnd.randrange(1, 5)
        mask = rnd.randrange(3)
        nattrs = rnd.choice((1, 1, 2, 3, 8))
        attrs = [rnd.choice((0, 7, 56, 63, 71, 120, rnd.randrange(128))) for _ in range(nattrs)]
        if rnd.random() < 0.3:
            attrs = [rnd.choice((0, 9, 18, 27, 36, 45, 54, 63))]
        if anim:
            attrs = [a | (128 if rnd.random() < 0.5 else 0) for a in attrs]
        udgs = [[Udg(rnd.choice(attrs), [rnd.choice((0, 255, rnd.randrange(256))) for _ in range(8)],
                     [rnd.choice((0, 255, rnd.randrange(256))) for _ in range(8)] if mask and rnd.random() < 0.7 else None) for _ in range(cw)] for _ in range(ch)]
        FW, FH = cw * 8 * scale, ch * 8 * scale
        if rnd.random() < 0.5:
            x = y = 0
            w, h = FW, FH
        else:
            x = rnd.randrange(FW)
            y = rnd.randrange(FH)
            w = rnd.randrange(1, FW - x + 1)
            h = rnd.randrange(1, FH - y + 1)
        fr = Frame(udgs, scale, mask, x, y, w, h, alpha=f_alpha)
        f = io.BytesIO()
        desc = dict(cw=cw, ch=ch, scale=scale, mask=mask, x=x, y=y, w=w, h=h, attrs=attrs, anim=anim, alpha=f_alpha, PNGAlpha=png_alpha)
        try:
            iw.write_image([fr], f)
            W_, H_, frames = decode_png(f.getvalue())
        except AssertionError as e:
            bad.append(('invalid PNG: %s' % e, desc))
            continue
        except Exception as e:
            bad.append(('exception %r' % (e,), desc))
            continue
        n += 1
        colours = [c[1] for c in iw.get_default_colours()]

        def rgbrows(rows):
            return [[tuple(colours[0] if c is None else colours[c]) for c in row] for row in rows]
        exp_idx = render(udgs, scale, mask, x, y, w, h, iw)
        exp = rgbrows(exp_idx)
        got = [[tuple(px[0]) for px in row] for row in frames[0][1]]
        if (W_, H_) != (w, h):
            bad.append(('size %s != %s' % ((W_, H_), (w, h)), desc))
            continue
        if got != exp:
            yy = next(i for i in range(h) if got[i] != exp[i])
            xx = next(i for i in range(w) if got[yy][i] != exp[yy][i])
            bad.append(('pixel (%d,%d) is %s, display rules give %s' % (xx, yy, got[yy][xx], exp[yy][xx]), desc))
            continue
        got_a = [[px[1] for px in row] for row in frames[0][1]]
        exp_a = [[exp_alpha if c is None else 255 for c in row] for row in exp_idx]
        if got_a != exp_a:
            yy = next(i for i in range(h) if got_a[i] != exp_a[i])
            xx = next(i for i in range(w) if got_a[yy][i] != exp_a[yy][i])
            bad.append(('pixel (%d,%d) has alpha %s, the mask and the alpha parameter (frame %s, PNGAlpha %s) give %s' % (xx, yy, got_a[yy][xx], f_alpha, png_alpha, exp_a[yy][xx]), desc))
            continue
        if len(frames) > 1:
            (fx, fy, fw, fh), rows2 = frames[1]
            exp2 = rgbrows(render(udgs, scale, mask, x + fx, y + fy, fw, fh, iw, flash=True))
            got2 = [[tuple(px[0]) for px in row] for row in rows2]
            if got2 != exp2:
                bad.append(('flash frame differs inside its rectangle %s' % ((fx, fy, fw, fh),), desc))
                continue
            # outside the reported rectangle flashing must change no visible pixel
            full2 = rgbrows(render(udgs, scale, mask, x, y, w, h, iw, flash=True))
            out_diff = [(xx, yy) for yy in range(h) for xx in range(w)
                        if not (fx <= xx < fx + fw and fy <= yy < fy + fh) and full2[yy][xx] != exp[yy][xx]]
            if out_diff:
                bad.append(('pixel %s flashes but lies outside the second frame rectangle %s' % (out_diff[0], (fx, fy, fw, fh)), desc))
                continue
        elif anim and any(u.attr & 128 for row in udgs for u in row):
            # no second frame although something flashes: legal only if flashing changes no visible pixel
            exp2 = rgbrows(render(udgs, scale, mask, x, y, w, h, iw, flash=True))
            if exp2 != exp:
                bad.append(('flashing cells but a single frame', desc))
        if len(bad) > 4:
            break
    return n, bad


def run(tier):
    rep = common.Report('C15', tier, 'other', './check C15 --tier %s' % tier)
    rep.trust('pyvc, z3 for the rotation VCs; CPython for the exhaustive kernels; zlib (inflate, crc32) as the reference for the bounded part')
    rep.assume('the seven specialised row encoders and the zlib stream are outside the VC generator (strings/bytes building): checked only through decoded pixels, bounded')
    rep.assume('pixel comparison is up to the configured palette: a display colour index must always map to the same RGB value, distinct indexes to distinct entries')
    check_exhaustive(rep)
    check_rotate(rep)
    check_udg_methods(rep)          # Udg.rotate / Udg.flip: graphic and mask transformed alike, for every parameter value
    check_writer_state(rep)         # the image writers keep no state between images
    nr, badr = writer_reuse_bounded(common.seed(), 40)
    rep.bounded.append({'function': 'skoolkit.image.ImageWriter.write_image (one writer, several images)', 'contract': 'each image is byte-identical to the one a fresh writer produces',
                        'bound': '40 writers x 4 images (masks, explicit and default alpha)', 'evaluations': nr})
    for b in badr[:2]:
        rep.violation('C15/writer_reuse', 'image %d written by a reused ImageWriter%s differs from the one a fresh writer produces (alpha=%s, mask=%s)' % (b[1] + 1, b[2], b[3], b[4]), {'case': {'writer_reuse': list(map(str, b))}})
    na, bada = arrays_small_scope()
    rep.bounded.append({'function': 'skoolkit.graphics.flip_udgs / rotate_udgs', 'contract': 'pixel and mask grids of the array == reference flip / rotation of the original grids',
                        'bound': 'array shapes 1x1..3x3, 3 random fillings each, flip 0..3, rotate 0..4', 'evaluations': na})
    for b in bada[:3]:
        rep.violation('C15/arrays/%s=%s/%s' % (b[0], b[1], b[3]), '%s_udgs(udgs, %d) on a %dx%d array: %s grid differs from the reference transformation' % (b[0], b[1], b[2][0], b[2][1], b[3]), {'case': {'array_op': b[0], 'arg': b[1], 'shape': list(b[2])}})
    nfm, badf = frames_macro(common.seed(), 200 if tier == 'quick' else 3000)
    rep.bounded.append({'function': 'skoolkit.skoolmacro.parse_frames (#FRAMES) -> ImageWriter.write_image (multi-frame APNG)',
                        'contract': 'one frame per specification with the delay and offsets the documentation gives (delay carried over, offsets default (0,0)); fcTL/fdAT sequence numbers, acTL count; each frame decodes to the display rules',
                        'bound': '%d sequences of 1-5 frames, every parameter form; a sixth of them name an earlier frame again with other delays/offsets' % nfm, 'evaluations': nfm})
    seenf = set()
    for b in badf:
        key = 'C15/frames/%s' % b[2]
        if key in seenf:
            continue
        seenf.add(key)
        rep.violation(key, b[0], {'case': {'frames_macro': b[1], 'seed': common.seed()}, 'observed': b[0]})
    nt = 160 if tier == 'quick' else 3000
    pert = max(1, nt // (common.NCPU * 2))
    with Pool(common.NCPU) as p:
        rest = p.map(sna2img_tool_chunk, [(common.seed(), k, min(nt, k + pert)) for k in range(0, nt, pert)])
    rep.bounded.append({'function': 'skoolkit.sna2img.main (run: crop by cells, -i, -f, -r, -s, -n, -p, -m on a SCR file)',
                        'contract': 'the PNG decodes to the display rules applied to the requested cells after moves/pokes, inversion of flashing cells (graphic inverted, FLASH off, nothing else), flip, rotation and scale; a second frame only with animation',
                        'bound': '%d generated (screen, options) pairs' % nt, 'evaluations': sum(r[0] for r in rest)})
    seent = set()
    for b in [b for r in rest for b in r[1]]:
        key = 'C15/sna2img/%s' % b[0].split(' is ')[0].split(' (')[0][:40]
        if key in seent or len(seent) >= 4:
            continue
        seent.add(key)
        rep.violation(key, 'sna2img %s: %s' % (b[1], b[0]), {'case': {'sna2img_options': b[1], 'seed': common.seed()}, 'observed': b[0]})
    check_encoders(rep, tier)       # the clause "every specialised encoder agrees with the generic one", exhaustively on 1-2 tile frames
    nm, badm = macro_layer(common.seed(), 600 if tier == 'quick' else 6000)
    rep.bounded.append({'function': 'skoolkit.sna2img MACROS (skoolmacro.parse_udg / parse_udgarray / parse_font / parse_scr, graphics.build_udg / adjust_udgs / font_udgs / scr_udgs)',
                        'contract': 'the frame holds exactly the tiles, mask bytes, attributes, flip/rotation, scale, mask type, crop, tindex and alpha that the macro parameters name (parameter defaults as documented)',
                        'bound': '%d macros: 48 enumerating which step parameters are present x mask type, the rest random (1-3 x 1-2 tiles, all address range forms)' % nm, 'evaluations': nm})
    seenm = set()
    for b in badm:
        key = 'C15/macro/%s/%s' % (b[0], b[2])
        if key in seenm:
            continue
        seenm.add(key)
        rep.violation(key, '#%s%s: %s' % (b[0], b[1], b[3]), {'case': {'macro': b[0], 'text': b[1], 'seed': common.seed()}, 'observed': b[3]})
    quick = tier == 'quick'
    n = 300 if quick else 6000
    per = max(1, n // (common.NCPU * 2))
    with Pool(common.NCPU) as p:
        res = p.map(images_chunk, [(common.seed(), k, min(n, k + per)) for k in range(0, n, per)])
    ev = sum(r[0] for r in res)
    bad = [b for r in res for b in r[1]]
    rep.bounded.append({'function': 'skoolkit.image.ImageWriter.write_image -> PngWriter', 'contract': 'valid PNG/APNG (signature, CRCs, IHDR/PLTE/tRNS, zlib, sizes); decoded pixels == display rules (ink/paper/transparent, scale, crop, flash frame)',
                        'bound': '%d generated frames (1-4 x 1-3 tiles, scale 1-4, crop, masks 0-2, 1-8 attributes, flash)' % n, 'evaluations': ev})
    seen = set()
    for b in bad:
        key = 'C15/image/%s' % b[0][:40]
        if key in seen or len(seen) >= 5:
            continue
        seen.add(key)
        rep.violation(key, 'rendered image: %s for %s' % b, {'case': b[1], 'observed': b[0]})
    rep.extra['explanation'] = 'E finite kernels, P rotation of the bit matrix, B decoded PNG against a reference renderer'
    return rep.finish()


def replay(path):
    import json
    with open(path) as f:
        doc = json.load(f)
    print('replaying', doc.get('key'), doc.get('case'))
    case = doc.get('case')
    if isinstance(case, dict) and ('writer_reuse' in case or 'writer_state' in case):
        n, bad = writer_reuse_bounded(common.seed(), 40)
        print(bad[:2])
        if bad:
            print('VIOLATION property=C15 replay=%s' % path)
            return 1
        if doc.get('no_failing_input_found'):
            print(doc.get('what'))
            print('VIOLATION property=C15 replay=%s no-failing-input-found' % path)
            return 1
        return 0
    if isinstance(case, dict) and 'frames_macro' in case:
        n, bad = frames_macro(case.get('seed', common.seed()), 3000)
        print(bad[:2])
        if bad:
            print('VIOLATION property=C15 replay=%s' % path)
            return 1
        return 0
    if isinstance(case, dict) and 'sna2img_options' in case:
        n, bad = sna2img_tool_chunk((case.get('seed', common.seed()), 0, 3000))
        print(bad[:2])
        if bad:
            print('VIOLATION property=C15 replay=%s' % path)
            return 1
        return 0
    if isinstance(case, dict) and 'encoder' in case:
        enc = [e for e in ENCODERS if e[0] == case['encoder'] and bool(e[3]) == bool(case.get('mask_type'))][0]
        n, bad = encoders_chunk((enc[0], enc[1], enc[2], enc[3], case['graphic'], case['graphic'] + 1, (case['mask'],) if case.get('mask') is not None else (0,), (case['scale'],)))
        print(bad[:2])
        if bad:
            print('VIOLATION property=C15 replay=%s' % path)
            return 1
        return 0
    if isinstance(case, dict) and 'macro' in case:
        n, bad = macro_layer(case.get('seed', common.seed()), 6000)
        bad = [b for b in bad if b[0] == case['macro']] or bad
        print(bad[:2])
        if bad:
            print('VIOLATION property=C15 replay=%s' % path)
            return 1
        return 0
    if isinstance(case, dict) and 'udg_method' in case:
        r = replay_udg(case['udg_method'], case['arg'])({}, '')
        print(r['diffs'])
        if r['diffs']:
            print('VIOLATION property=C15 replay=%s' % path)
            return 1
        return 0
    if isinstance(case, dict) and 'array_op' in case:
        n, bad = arrays_small_scope()
        bad = [b for b in bad if b[0] == case['array_op'] and b[1] == case['arg']]
        print(bad[:3])
        if bad:
            print('VIOLATION property=C15 replay=%s' % path)
            return 1
        return 0
    if isinstance(case, dict) and 'data' in case:
        r = replay_rotate(case['backwards'])({'d%d' % i: v for i, v in enumerate(case['data'])}, '')
        print(r['diffs'])
        if r['diffs']:
            print('VIOLATION property=C15 replay=%s' % path)
            return 1
        return 0
    return 1


# ------------------------------------------------------------------ P: Udg.rotate / Udg.flip on graphic and mask together
def _bitrev(b):
    """FLIP[b] by its contract (proved entry by entry in check_exhaustive): bit i of b becomes bit 7 - i."""
    out = 0
    for i in range(8):
        out = out | (((b >> i) & 1) << (7 - i))
    return out


def _pix(rows, x, y):
    return (rows[y] >> (7 - x)) & 1


def _src_rotate(r, x, y):
    """Source pixel of (x, y) after r clockwise quarter turns."""
    for _ in range(r % 4):
        x, y = y, 7 - x
    return x, y


def check_udg_methods(rep):
    from skoolkit.graphics import Udg, FLIP
    from pyvc.engine import TabRef
    W = poly.W
    flip_tab = TabRef('FLIP', (256,), _bitrev, (), FLIP)

    def mk(eng):
        p = eng.path
        p.data = [SV(z3.BitVec('d%d' % i, W), 0, 255) for i in range(8)]
        p.mask = [SV(z3.BitVec('m%d' % i, W), 0, 255) for i in range(8)]
        for d in p.data + p.mask:
            p.facts.append(z3.And(d.t >= 0, d.t <= 255))
        u = ObjModel(None, name='udg', cls=Udg)
        u.attrs.update({'attr': 56, 'data': SymList(list(p.data), 'data'), 'mask': SymList(list(p.mask), 'mask')})
        p.u = u
        eng.objmap = {id(FLIP): flip_tab}
        return u

    def rows(v):
        return list(v.items) if isinstance(v, SymList) else list(v)

    for r in range(8):
        def start(eng, r=r):
            u = mk(eng)
            eng.call_function(Udg.rotate, [u, r])

        def post(p, prove, r=r):
            for what, orig in (('graphic', p.data), ('mask', p.mask)):
                out = rows(p.u.attrs['data' if what == 'graphic' else 'mask'])
                prove('post.%s.length' % what, len(out) == 8)
                if len(out) != 8:
                    continue
                for y in range(8):
                    prove('post.%s.byte_range' % what, and_(out[y] >= 0, out[y] <= 255))
                    for x in range(8):
                        sx, sy = _src_rotate(r, x, y)
                        prove('post.%s.pixel' % what, cmpop('==', _pix(out, x, y), _pix(orig, sx, sy)))
        FuncVC(rep, 'C15', Udg.rotate, 'skoolkit.graphics.Udg.rotate[rotate=%d]' % r, Engine(inline_ok=lambda f: f.__module__ == 'skoolkit.graphics')).run(start, post, replay_udg('rotate', r))

    for fl in range(4):
        def startf(eng, fl=fl):
            u = mk(eng)
            eng.call_function(Udg.flip, [u, fl])

        def postf(p, prove, fl=fl):
            for what, orig in (('graphic', p.data), ('mask', p.mask)):
                out = rows(p.u.attrs['data' if what == 'graphic' else 'mask'])
                prove('post.%s.length' % what, len(out) == 8)
                if len(out) != 8:
                    continue
                for y in range(8):
                    for x in range(8):
                        sx = 7 - x if fl & 1 else x
                        sy = 7 - y if fl & 2 else y
                        prove('post.%s.pixel' % what, cmpop('==', _pix(out, x, y), _pix(orig, sx, sy)))
        FuncVC(rep, 'C15', Udg.flip, 'skoolkit.graphics.Udg.flip[flip=%d]' % fl, Engine(inline_ok=lambda f: f.__module__ == 'skoolkit.graphics')).run(startf, postf, replay_udg('flip', fl))


def replay_udg(method, arg):
    def rp(vals, kind):
        from skoolkit.graphics import Udg
        import random
        rnd = random.Random(arg)
        for t in range(50):
            data = [vals.get('d%d' % i, 0) & 255 for i in range(8)] if t == 0 else [rnd.randrange(256) for _ in range(8)]
            mask = [vals.get('m%d' % i, 0) & 255 for i in range(8)] if t == 0 else [rnd.randrange(256) for _ in range(8)]
            u = Udg(56, list(data), list(mask))
            getattr(u, method)(arg)
            for what, orig, out in (('graphic', data, u.data), ('mask', mask, u.mask)):
                for y in range(8):
                    for x in range(8):
                        if method == 'rotate':
                            sx, sy = _src_rotate(arg, x, y)
                        else:
                            sx, sy = (7 - x if arg & 1 else x), (7 - y if arg & 2 else y)
                        if _pix(out, x, y) != _pix(orig, sx, sy):
                            return {'case': {'udg_method': method, 'arg': arg, 'data': data, 'mask': mask}, 'diffs': [('%s pixel (%d,%d)' % (what, x, y), _pix(out, x, y), _pix(orig, sx, sy))]}
        return {'case': {'udg_method': method, 'arg': arg}, 'diffs': []}
    return rp


def arrays_small_scope():
    """B (small scope): flip_udgs / rotate_udgs on every array shape up to 3 x 3 (distinct random tiles with masks):
    the composed pixel and mask grids equal the reference transformation of the original grids."""
    import random
    from skoolkit.graphics import Udg, flip_udgs, rotate_udgs
    rnd = random.Random(15)
    bad = []
    n = 0

    def grid(udgs, attr):
        g = []
        for row in udgs:
            for y in range(8):
                line = []
                for u in row:
                    src = getattr(u, attr)
                    line += [(src[y] >> (7 - x)) & 1 for x in range(8)]
                g.append(line)
        return g
    for h in range(1, 4):
        for w in range(1, 4):
            for trial in range(3):
                base = [[Udg(rnd.randrange(256), [rnd.randrange(256) for _ in range(8)], [rnd.randrange(256) for _ in range(8)]) for _ in range(w)] for _ in range(h)]
                for kind, arg in [('flip', f) for f in range(4)] + [('rotate', r) for r in range(5)]:
                    n += 1
                    udgs = [[u.copy() for u in row] for row in base]
                    (flip_udgs if kind == 'flip' else rotate_udgs)(udgs, arg)
                    for attr in ('data', 'mask'):
                        g0 = grid(base, attr)
                        H, Wd = len(g0), len(g0[0])
                        if kind == 'flip':
                            exp = [[g0[(H - 1 - y) if arg & 2 else y][(Wd - 1 - x) if arg & 1 else x] for x in range(Wd)] for y in range(H)]
                        else:
                            exp = g0
                            for _ in range(arg % 4):
                                hh, ww = len(exp), len(exp[0])
                                exp = [[exp[hh - 1 - x][y] for x in range(hh)] for y in range(ww)]
                        got = grid(udgs, attr)
                        if got != exp:
                            bad.append((kind, arg, (h, w), attr))
    return n, bad


# ------------------------------------------------------------------ B: the macro layer (#UDG, #UDGARRAY, #FONT, #SCR as sna2img -e runs them)
def _tile_grid(udgs):
    """Pixel grid of (graphic bit, mask bit or None, attribute) triples for an array of tiles."""
    g = []
    for row in udgs:
        for y in range(8):
            line = []
            for u in row:
                for x in range(8):
                    line.append(((u.data[y] >> (7 - x)) & 1, None if u.mask is None else (u.mask[y] >> (7 - x)) & 1, u.attr))
            g.append(line)
    return g


def _ref_flip_rotate(g, flip, rotate):
    H, W = len(g), len(g[0])
    g = [[g[(H - 1 - y) if flip & 2 else y][(W - 1 - x) if flip & 1 else x] for x in range(W)] for y in range(H)]
    for _ in range(rotate % 4):
        hh, ww = len(g), len(g[0])
        g = [[g[hh - 1 - x][y] for x in range(hh)] for y in range(ww)]
    return g


_FILL = []


def _fill_tile_literal():
    """(attr, data) of skoolmacro.FILL_UDG as written in the source (the object itself may have been modified)."""
    if not _FILL:
        import ast as _ast
        import inspect
        from skoolkit import skoolmacro
        for n in _ast.walk(_ast.parse(inspect.getsource(skoolmacro))):
            if isinstance(n, _ast.Assign) and any(isinstance(t, _ast.Name) and t.id == 'FILL_UDG' for t in n.targets):
                _FILL.extend(_ast.literal_eval(a) for a in n.value.args[:2])
        if len(_FILL) != 2:
            raise LookupError('FILL_UDG = Udg(<attr>, <data>) not found in skoolmacro.py')
    return _FILL[0], _FILL[1]


class _RefTile:
    def __init__(self, attr, data, mask=None):
        self.attr, self.data, self.mask = attr, data, mask


def macro_layer(seed, n):
    """Contract of the macro layer, from the macro documentation: the frame that sna2img's -e handlers build for a
    #UDG / #UDGARRAY / #FONT / #SCR macro holds exactly the tiles the parameters name (graphic bytes at addr + k*step
    plus inc, mask bytes at mask addr + k*mask step with the mask step defaulting to the tile's own step, attribute,
    flip then rotate) and the scale / mask type / crop rectangle / tindex / alpha given. The first cases enumerate which
    of the optional step parameters are present; the rest are random. Bounded."""
    import random
    from skoolkit import sna2img
    rnd = random.Random(seed * 7919 + 15)
    snap = [rnd.randrange(256) for _ in range(65536)]
    bad = []
    ev = 0

    def opt(name, val, present):
        return ',%s=%d' % (name, val) if present else ''

    def addr_form(rnd_, count, width):
        """-> (text, list of addresses): one of the documented address range forms."""
        a = rnd_.randrange(24000, 50000)
        k = rnd_.randrange(5) if count > 1 else rnd_.choice((0, 3))
        if count == 1 and k == 0:
            return str(a), [a]
        if k == 0:
            return '%d-%d' % (a, a + count - 1), [a + i for i in range(count)]
        if k == 1:
            h = rnd_.randrange(1, 20)
            return '%d-%d-%d' % (a, a + (count - 1) * h, h), [a + i * h for i in range(count)]
        if k == 2 and count % width == 0 and count // width > 1:
            h = rnd_.randrange(1, 9)
            v = rnd_.randrange((width - 1) * h + 1, (width - 1) * h + 300)
            rows = count // width
            last = a + (rows - 1) * v + (width - 1) * h
            return '%d-%d-%d-%d' % (a, last, h, v), [a + r * v + c * h for r in range(rows) for c in range(width)]
        if k == 3:
            return '%dx%d' % (a, count), [a] * count
        return '$%04X-$%04X' % (a, a + count - 1), [a + i for i in range(count)]

    for t in range(n):
        kind = ('UDGARRAY', 'UDG', 'UDGARRAY', 'FONT', 'UDGARRAY', 'SCR')[t % 6] if t >= 48 else ('UDGARRAY', 'UDG')[t % 2]
        ev += 1
        scale = rnd.randrange(1, 5)
        tindex, alpha = rnd.randrange(0, 3), rnd.choice((-1, 0, 128, 255))
        crop = rnd.random() < 0.4
        cx, cy, cw, ch = rnd.randrange(0, 9), rnd.randrange(0, 9), rnd.randrange(1, 20), rnd.randrange(1, 20)
        crop_txt = '{%d,%d,%d,%d}' % (cx, cy, cw, ch) if crop else ''
        exp_crop = (cx, cy, cw, ch) if crop else (0, 0, None, None)
        try:
            if kind in ('UDGARRAY', 'UDG'):
                # presence of the three step parameters: enumerated over the first 48 cases, random afterwards
                if t < 48:
                    bits = t // 2
                    p_step, p_ustep, p_mstep = bits & 1, (bits >> 1) & 1, (bits >> 2) & 1
                    mask = (1, 2, 0)[(bits >> 3) % 3]
                else:
                    p_step, p_ustep, p_mstep = (rnd.random() < 0.5 for _ in range(3))
                    mask = rnd.randrange(3)
                step, ustep, mstep = rnd.choice((2, 3, 256)), rnd.choice((4, 5, 128)), rnd.choice((6, 7, 64))
                attr, inc = rnd.randrange(256), rnd.choice((0, 0, 1, 200))
                flip, rotate = rnd.randrange(4), rnd.randrange(4)
                p_attr, p_inc = rnd.random() < 0.6, rnd.random() < 0.4
                eff_step = step if p_step else 1
            if kind == 'UDG':
                a, m = rnd.randrange(24000, 50000), rnd.randrange(24000, 50000)
                with_mask = t < 48 or rnd.random() < 0.7
                text = '%d%s%s%s%s%s%s%s%s%s' % (a, opt('attr', attr, p_attr), opt('scale', scale, True), opt('step', step, p_step), opt('inc', inc, p_inc),
                                                   opt('flip', flip, True), opt('rotate', rotate, True), opt('mask', mask, True), opt('tindex', tindex, True), opt('alpha', alpha, alpha >= 0))
                if with_mask:
                    text += ':%d' % m + (',%d' % mstep if p_mstep else '')
                text += crop_txt
                e_mstep = mstep if p_mstep else eff_step
                e_inc = inc if p_inc else 0
                tile = _RefTile(attr if p_attr else 56, [(snap[a + k * eff_step] + e_inc) % 256 for k in range(8)],
                                [snap[m + k * e_mstep] for k in range(8)] if with_mask and mask else None)
                exp_grid = _ref_flip_rotate(_tile_grid([[tile]]), flip, rotate)
                exp_mask = mask if with_mask else 0
            elif kind == 'UDGARRAY':
                width = rnd.randrange(1, 4)
                rows = rnd.randrange(1, 3)
                text = '%d%s%s%s%s%s%s%s%s%s(' % (width, opt('attr', attr, p_attr), opt('scale', scale, True), opt('step', step, p_step), opt('inc', inc, p_inc),
                                                    opt('flip', flip, True), opt('rotate', rotate, True), opt('mask', mask, True), opt('tindex', tindex, True), opt('alpha', alpha, alpha >= 0))
                total = width * rows
                nspecs = rnd.randrange(1, 3) if total > 1 else 1
                cut = rnd.randrange(1, total) if nspecs == 2 else total
                if nspecs == 2 and cut % width:
                    cut = width if total > width else total     # keep each spec a whole number of rows, so every address form is usable
                    nspecs = 2 if cut < total else 1
                counts = [cut, total - cut] if nspecs == 2 else [total]
                tiles = []
                specs = []
                any_mask = False
                for si, count in enumerate(counts):
                    atxt, addrs = addr_form(rnd, count, width)
                    s_ustep = p_ustep if si == 0 else rnd.random() < 0.5
                    s_attr = rnd.random() < 0.4
                    sattr = rnd.randrange(256)
                    spec = atxt
                    if s_ustep or s_attr:
                        spec += ',%s' % (sattr if s_attr else '')
                        if s_ustep:
                            spec += ',%d' % ustep
                    t_step = ustep if s_ustep else eff_step
                    with_mask = (t < 48 and si == 0) or rnd.random() < 0.6
                    maddrs = []
                    s_mstep = p_mstep if si == 0 else rnd.random() < 0.5
                    if with_mask:
                        mtxt, maddrs = addr_form(rnd, count, width)
                        spec += ':' + mtxt + (',%d' % mstep if s_mstep else '')
                        any_mask = any_mask or bool(mask)
                    t_mstep = mstep if s_mstep else t_step
                    e_inc = inc if p_inc else 0
                    for i, a in enumerate(addrs):
                        mk = None
                        if with_mask and mask and i < len(maddrs):
                            mk = [snap[maddrs[i] + k * t_mstep] for k in range(8)]
                        tiles.append(_RefTile(sattr if s_attr else (attr if p_attr else 56), [(snap[a + k * t_step] + e_inc) % 256 for k in range(8)], mk))
                    specs.append(spec)
                if width > 1 and rnd.random() < 0.3:
                    # an incomplete last row: skoolkit completes it with its fill tile (a cross, attribute 66), which takes
                    # part in this macro's flip/rotation like any other tile - and in no other macro's
                    extra = rnd.randrange(1, width)
                    a = rnd.randrange(24000, 50000)
                    specs.append('%dx%d' % (a, extra) if extra > 1 else str(a))
                    e_inc = inc if p_inc else 0
                    for _ in range(extra):
                        tiles.append(_RefTile(attr if p_attr else 56, [(snap[a + k * eff_step] + e_inc) % 256 for k in range(8)], None))
                    fa, fd = _fill_tile_literal()
                    for _ in range(width - extra):
                        tiles.append(_RefTile(fa, list(fd), None))
                text += ';'.join(specs) + ')'
                arr = [tiles[i:i + width] for i in range(0, len(tiles), width)]
                if rnd.random() < 0.3:
                    # attribute addresses override the attributes, row by row
                    ab = rnd.randrange(22528, 23000)
                    text += '[%d-%d]' % (ab, ab + total - 1)
                    for i, tl in enumerate(tiles[:total]):
                        tl.attr = snap[ab + i]
                text += crop_txt
                exp_grid = _ref_flip_rotate(_tile_grid(arr), flip, rotate)
                exp_mask = mask if any_mask else 0
            elif kind == 'FONT':
                a = rnd.randrange(15360, 40000)
                attr = rnd.randrange(256)
                if rnd.random() < 0.5:
                    chars = rnd.randrange(1, 6)
                    msg = ''.join(chr(32 + i) for i in range(chars))
                    text = '%d,%d,%d,%d,%d' % (a, chars, attr, scale, tindex) + (',%d' % alpha if alpha >= 0 else '')
                else:
                    msg = ''.join(rnd.choice('ABCxyz019 !~') for _ in range(rnd.randrange(1, 5)))
                    text = '%d,0,%d,%d,%d%s(%s)' % (a, attr, scale, tindex, ',%d' % alpha if alpha >= 0 else '', msg)
                text += crop_txt
                exp_grid = _tile_grid([[_RefTile(attr, [snap[a + 8 * (ord(c) - 32) + k] for k in range(8)]) for c in msg]])
                exp_mask = 0
            else:
                x, y = rnd.randrange(32), rnd.randrange(24)
                w, h = rnd.randrange(1, 4), rnd.randrange(1, 3)
                df, af = rnd.choice((16384, 32768, 40000)), rnd.choice((22528, 50000))
                text = '%d,%d,%d,%d,%d,%d,%d,%d' % (scale, x, y, w, h, df, af, tindex) + (',%d' % alpha if alpha >= 0 else '') + crop_txt
                arr = []
                for r in range(y, min(24, y + h)):
                    arr.append([_RefTile(snap[af + 32 * r + c], [snap[df + 2048 * (r // 8) + 32 * (r % 8) + c + 256 * k] for k in range(8)]) for c in range(x, min(32, x + w))])
                exp_grid = _tile_grid(arr)
                exp_mask = 0
            frame = sna2img.MACROS[kind](snap, text)
            first = _tile_grid(frame.udgs)
            again = sna2img.MACROS[kind](snap, text)
            if _tile_grid(again.udgs) != first or _tile_grid(frame.udgs) != first:
                bad.append((kind, text, 'repeatable', 'expanding the same macro a second time in the same process gives different tiles'))
                continue
            got = {'grid': _tile_grid(frame.udgs), 'scale': frame.scale, 'mask': frame.mask, 'crop': (frame._x, frame._y, frame._width, frame._height), 'tindex': frame.tindex, 'alpha': frame.alpha}
            exp = {'grid': exp_grid, 'scale': scale, 'mask': exp_mask, 'crop': exp_crop, 'tindex': tindex, 'alpha': alpha}
            if exp['mask'] == 0:
                # without a mask type the mask bytes are not used: compare graphic and attribute only
                strip = lambda g: [[(b, None, a_) for b, _, a_ in row] for row in g]
                got['grid'], exp['grid'] = strip(got['grid']), strip(exp['grid'])
            diffs = [k for k in exp if got[k] != exp[k]]
            if diffs:
                d = diffs[0]
                detail = ''
                if d == 'grid':
                    if len(got['grid']) != len(exp_grid) or len(got['grid'][0]) != len(exp_grid[0]):
                        detail = 'array is %dx%d pixels, expected %dx%d' % (len(got['grid'][0]), len(got['grid']), len(exp['grid'][0]), len(exp['grid']))
                    else:
                        yy, xx = next((yy, xx) for yy in range(len(exp['grid'])) for xx in range(len(exp['grid'][0])) if got['grid'][yy][xx] != exp['grid'][yy][xx])
                        detail = 'pixel (%d,%d): (bit, mask bit, attr) = %s, expected %s' % (xx, yy, got['grid'][yy][xx], exp['grid'][yy][xx])
                else:
                    detail = '%s = %s, expected %s' % (d, got[d], exp[d])
                bad.append((kind, text, d, detail))
        except Exception as ex:      # noqa: a macro built from the documented forms must parse
            bad.append((kind, locals().get('text', ''), 'exception', repr(ex)[:160]))
    return ev, bad


# ------------------------------------------------------------------ B: #FRAMES (multi-frame sequences with delays and offsets)
def decode_apng_frames(png):
    """Every frame of an APNG: [(x, y, w, h, delay_num, delay_den, rows of palette indexes)] (CRCs checked, filter 0 only)."""
    assert png[:8] == b'\x89PNG\r\n\x1a\n', 'signature'
    i = 8
    chunks = []
    while i < len(png):
        n = struct.unpack('>I', png[i:i + 4])[0]
        typ = png[i + 4:i + 8]
        data = png[i + 8:i + 8 + n]
        assert zlib.crc32(typ + data) & 0xffffffff == struct.unpack('>I', png[i + 8 + n:i + 12 + n])[0], 'crc of %r' % typ
        chunks.append((typ, data))
        i += 12 + n
    w, h, bd, ct = struct.unpack('>IIBB', chunks[0][1][:10])
    assert chunks[0][0] == b'IHDR' and ct == 3, 'IHDR'

    def unpack(raw, w_, h_):
        stride = (w_ * bd + 7) // 8 + 1
        assert len(raw) == stride * h_, 'image data size %d != %d' % (len(raw), stride * h_)
        rows = []
        for y in range(h_):
            line = raw[y * stride:(y + 1) * stride]
            assert line[0] == 0, 'filter type'
            rows.append([(line[1 + (x * bd) // 8] >> (8 - bd - (x * bd) % 8)) & ((1 << bd) - 1) for x in range(w_)])
        return rows
    plte = [d for t, d in chunks if t == b'PLTE'][0]
    pal = [tuple(plte[k:k + 3]) for k in range(0, len(plte), 3)]
    actl = [d for t, d in chunks if t == b'acTL']
    frames = []
    cur = None
    seq = 0
    for t, d in chunks:
        if t == b'fcTL':
            if cur is not None:
                frames.append(cur)
            sn, fw, fh, fx, fy, dn, dd = struct.unpack('>IIIIIHH', d[:24])
            assert sn == seq, 'fcTL sequence number %d != %d' % (sn, seq)
            seq += 1
            cur = [fx, fy, fw, fh, dn, dd, b'']
        elif t == b'IDAT':
            if cur is None:
                cur = [0, 0, w, h, 0, 100, b'']
            cur[6] += d
        elif t == b'fdAT':
            sn = struct.unpack('>I', d[:4])[0]
            assert sn == seq, 'fdAT sequence number %d != %d' % (sn, seq)
            seq += 1
            cur[6] += d[4:]
    if cur is not None:
        frames.append(cur)
    if actl:
        assert struct.unpack('>I', actl[0][:4])[0] == len(frames), 'acTL frame count %d != %d frames' % (struct.unpack('>I', actl[0][:4])[0], len(frames))
    out = []
    for fx, fy, fw, fh, dn, dd, raw in frames:
        assert fx + fw <= w and fy + fh <= h, 'frame outside the canvas'
        out.append((fx, fy, fw, fh, dn, dd, [[pal[v] for v in row] for row in unpack(zlib.decompress(raw), fw, fh)]))
    return w, h, out


def frames_macro(seed, n):
    """#FRAMES(name[,delay,x,y];...) as the HTML writer expands it (skoolmacro.parse_frames on a frame map, then
    ImageWriter.write_image): per the macro documentation every frame gets the delay given (a delay also becomes the
    default for the frames that follow; 32 at first) and the offsets given (default (0,0) for every frame); the APNG
    holds one frame per specification, with those delays and offsets, each decoding to the display rules."""
    from skoolkit import skoolmacro
    from skoolkit.graphics import Udg, Frame
    from skoolkit.image import ImageWriter
    rnd = random.Random(seed * 31 + 5)
    bad = []
    ev = 0
    for t in range(n):
        ev += 1
        nf = rnd.randrange(1, 6)
        scale = rnd.randrange(1, 3)
        fmap = {}
        tiles = {}
        for k in range(nf):
            cw, ch = (3, 2) if k == 0 else (rnd.randrange(1, 3), rnd.randrange(1, 3))
            udgs = [[Udg(rnd.choice((56, 7, 71, 120, 15)), [rnd.randrange(256) for _ in range(8)]) for _ in range(cw)] for _ in range(ch)]
            tiles['f%d' % k] = udgs
            fmap['f%d' % k] = Frame(udgs, scale)
        specs = []
        exp = []
        used = []
        delay = 32
        for k in range(nf):
            form = rnd.randrange(7) if t >= 14 else (t // 2 if k == nf - 1 else rnd.choice((3, 4)))
            # a third of the later cases name an earlier frame again (a;b;a): each use keeps the delay and offsets of its own specification
            src = rnd.randrange(k) if k and t >= 14 and t % 3 == 0 and rnd.randrange(2) else k
            used.append(src)
            # (offsets keep the frame inside the first frame's canvas, 3 x 2 tiles: APNG requires it and skoolkit leaves it to the author)
            fw_, fh_ = len(tiles['f%d' % src][0]), len(tiles['f%d' % src])
            d, x, y = rnd.randrange(1, 200), rnd.randrange(0, (3 - fw_) * 8 * scale + 1), rnd.randrange(0, (2 - fh_) * 8 * scale + 1)
            if k == 0:
                x = y = 0
            if form == 0:
                txt, e = '', (delay, 0, 0)
            elif form == 1:
                txt, e = ',%d' % d, (d, 0, 0)
            elif form == 2:
                txt, e = ',%d,%d' % (d, x), (d, x, 0)
            elif form == 3:
                txt, e = ',%d,%d,%d' % (d, x, y), (d, x, y)
            elif form == 4:
                txt, e = ',,%d,%d' % (x, y), (delay, x, y)
            elif form == 5:
                txt, e = ',(delay=%d)' % d, (d, 0, 0)
            else:
                txt, e = ',,%d' % x, (delay, x, 0)
            delay = e[0]
            specs.append('f%d%s' % (src, txt))
            exp.append(e)
        text = '(%s)(img)' % ';'.join(specs)
        try:
            end, fname, alt, frames = skoolmacro.parse_frames(text, 0, None, fmap)
            got = [(f.delay, f.x_offset, f.y_offset) for f in frames]
            if got != exp:
                k = next(i for i in range(len(exp)) if i >= len(got) or got[i] != exp[i])
                bad.append(('frame %d of #FRAMES%s gets (delay, x, y) = %s, the documentation gives %s' % (k + 1, text, got[k] if k < len(got) else None, exp[k]), text, 'spec'))
                continue
            iw = ImageWriter({'PNGEnableAnimation': 1})
            f = io.BytesIO()
            iw.write_image(frames, f)
            W_, H_, fr = decode_apng_frames(f.getvalue())
            colours = [c[1] for c in iw.get_default_colours()]
            if len(fr) != nf:
                bad.append(('%d frames in the image, %d specified' % (len(fr), nf), text, 'image'))
                continue
            for k, (fx, fy, fw, fh, dn, dd, rows) in enumerate(fr):
                e = exp[k]
                if nf > 1 and ((fx, fy) != (e[1], e[2]) or dn * 100 != e[0] * dd):
                    bad.append(('frame %d is placed at (%d,%d) with delay %d/%d, specified (%d,%d), %d/100' % (k + 1, fx, fy, dn, dd, e[1], e[2], e[0]), text, 'image'))
                    break
                udgs = tiles['f%d' % used[k]]
                want = [[tuple(colours[c]) for c in row] for row in render(udgs, scale, 0, 0, 0, len(udgs[0]) * 8 * scale, len(udgs) * 8 * scale, iw)]
                if [[tuple(px) for px in row] for row in rows] != want:
                    bad.append(('frame %d does not decode to the display rules' % (k + 1), text, 'image'))
                    break
        except AssertionError as ex:
            bad.append(('invalid APNG: %s' % ex, text, 'image'))
        except Exception as ex:
            bad.append(('exception %r' % (ex,), text, 'exception'))
        if len(bad) > 4:
            break
    return ev, bad


# ------------------------------------------------------------------ B: the sna2img tool (options -o -S -s -i -f -r -n -p -m on a SCR file)
def _tiles_from_grid(g):
    """Tile array (reference tiles) of a pixel grid of (bit, mask bit, attr) triples whose sides are multiples of 8."""
    out = []
    for ty in range(len(g) // 8):
        row = []
        for tx in range(len(g[0]) // 8):
            data = [sum(g[ty * 8 + k][tx * 8 + x][0] << (7 - x) for x in range(8)) for k in range(8)]
            row.append(_RefTile(g[ty * 8][tx * 8][2], data))
        out.append(row)
    return out


def sna2img_tool_chunk(args):
    """sna2img.main on a generated SCR file with generated options; the PNG is decoded with the independent reader and
    compared with the display rules applied to the screen after the moves and pokes, the crop to the requested cells,
    -i (flashing cells: graphic inverted, FLASH off, everything else kept), -f, -r and the scale."""
    seed, k0, k1 = args
    from skoolkit import sna2img
    from skoolkit.image import ImageWriter
    bad = []
    n = 0
    tmp = tempfile.mkdtemp(prefix='c15tool_')
    try:
        for k in range(k0, k1):
            rnd = random.Random('%s/sna2img/%s' % (seed, k))
            attrs_pool = [rnd.choice((0x47, 0xC7, 0x87, 0x38, 0xF8, 0x56, 0xD6, 0x07, rnd.randrange(256))) for _ in range(4)]
            scr = [rnd.choice((0, 255, 0x0F, rnd.randrange(256))) for _ in range(6144)] + [rnd.choice(attrs_pool) for _ in range(768)]
            mem = [0] * 16384 + scr + [0] * (65536 - 16384 - 6912)
            x, y = rnd.randrange(32), rnd.randrange(24)
            w, h = rnd.randrange(1, 5), rnd.randrange(1, 4)
            scale = rnd.randrange(1, 4)
            invert, anim = rnd.random() < 0.5, rnd.random() < 0.5
            flip, rot = rnd.randrange(4), rnd.randrange(4)
            opts = ['-o', '%d,%d' % (x, y), '-S', '%dx%d' % (w, h), '-s', str(scale)]
            if invert:
                opts.append('-i')
            if not anim:
                opts.append('-n')
            if flip:
                opts += ['-f', str(flip)]
            if rot:
                opts += ['-r', str(rot)]
            if rnd.random() < 0.3:
                src, size, dest = rnd.randrange(16384, 23000), rnd.randrange(1, 40), rnd.randrange(16384, 23000)
                opts += ['-m', '%d,%d,%d' % (src, size, dest)]
                mem[dest:dest + size] = mem[src:src + size]
            if rnd.random() < 0.3:
                # poke the attribute of the first cell shown
                a, v = 22528 + 32 * y + x, rnd.choice((0xC7, 0xF8, 0x47))
                opts += ['-p', '%d,%d' % (a, v)]
                mem[a] = v
            fn = os.path.join(tmp, 'x.scr')
            out = os.path.join(tmp, 'x.png')
            with open(fn, 'wb') as f:
                f.write(bytes(scr))
            desc = ' '.join(opts)
            try:
                with contextlib.redirect_stdout(io.StringIO()), contextlib.redirect_stderr(io.StringIO()):
                    sna2img.main(opts + [fn, out])
                with open(out, 'rb') as f:
                    W_, H_, frames = decode_png(f.read())
            except AssertionError as e:
                bad.append(('invalid PNG: %s' % e, desc))
                continue
            except (Exception, SystemExit) as e:
                bad.append(('exception %r' % (e,), desc))
                continue
            n += 1
            arr = []
            for r in range(y, min(24, y + h)):
                arr.append([_RefTile(mem[22528 + 32 * r + c], [mem[16384 + 2048 * (r // 8) + 32 * (r % 8) + c + 256 * j] for j in range(8)]) for c in range(x, min(32, x + w))])
            if invert:
                for row in arr:
                    for t in row:
                        if t.attr & 128:
                            t.data = [b ^ 255 for b in t.data]
                            t.attr &= 127
            tiles = _tiles_from_grid(_ref_flip_rotate(_tile_grid(arr), flip, rot))
            iw = ImageWriter({'PNGEnableAnimation': 1 if anim else 0})
            colours = [c[1] for c in iw.get_default_colours()] if hasattr(iw, 'get_default_colours') else None
            if colours is None:
                return n, bad
            EW, EH = len(tiles[0]) * 8 * scale, len(tiles) * 8 * scale
            rgb = lambda rows: [[tuple(colours[c]) for c in row] for row in rows]
            exp = rgb(render(tiles, scale, 0, 0, 0, EW, EH, iw))
            if (W_, H_) != (EW, EH):
                bad.append(('size %s != %s' % ((W_, H_), (EW, EH)), desc))
                continue
            got = [[tuple(px[0]) for px in row] for row in frames[0][1]]
            if got != exp:
                yy = next(i for i in range(EH) if got[i] != exp[i])
                xx = next(i for i in range(EW) if got[yy][i] != exp[yy][i])
                bad.append(('pixel (%d,%d) is %s, display rules give %s' % (xx, yy, got[yy][xx], exp[yy][xx]), desc))
                continue
            full2 = rgb(render(tiles, scale, 0, 0, 0, EW, EH, iw, flash=True))
            if len(frames) > 1:
                (fx, fy, fw, fh), rows2 = frames[1]
                got2 = [[tuple(px[0]) for px in row] for row in rows2]
                exp2 = [r_[fx:fx + fw] for r_ in full2[fy:fy + fh]]
                if not anim:
                    bad.append(('a second frame although -n was given', desc))
                elif got2 != exp2:
                    bad.append(('flash frame differs inside its rectangle %s' % ((fx, fy, fw, fh),), desc))
                elif any(full2[yy][xx] != exp[yy][xx] for yy in range(EH) for xx in range(EW) if not (fx <= xx < fx + fw and fy <= yy < fy + fh)):
                    bad.append(('a pixel flashes outside the second frame rectangle %s' % ((fx, fy, fw, fh),), desc))
            elif anim and full2 != exp:
                bad.append(('flashing cells but a single frame', desc))
            if len(bad) > 4:
                break
    finally:
        shutil.rmtree(tmp, ignore_errors=True)
    return n, bad


# ------------------------------------------------------------------ E (small scope): every specialised encoder against the generic one
ENCODERS = (
    # name, bit depth passed, palette indexes available, masked?
    ('_build_image_data_bd0', 1, 1, 0), ('_build_image_data_bd1_nt', 1, 2, 0), ('_build_image_data_bd2_nt', 2, 4, 0), ('_build_image_data_bd4_nt', 4, 16, 0),
    ('_build_image_data_bd1_at', 1, 2, 1), ('_build_image_data_bd2_at', 2, 4, 1), ('_build_image_data_bd0', 1, 1, 1),
)


def encoders_chunk(args):
    """One encoder, one slice of the graphic-byte range: frames of one and of two tiles (different attributes), every
    graphic byte in every pixel row, the given mask bytes, mask types, scales; the image data of the specialised
    encoder must inflate to the bytes the generic encoder's image data inflates to."""
    enc, bd, ncol, masked, b_lo, b_hi, mask_bytes, scales = args
    import zlib as _z
    from skoolkit.graphics import Udg, Frame
    from skoolkit.image import ImageWriter
    iw = ImageWriter()
    w = iw.writer
    special = getattr(w, enc)
    generic = w._build_image_data_bd_any
    n = 0
    bad = []
    # palette index pairs (paper, ink) for two attributes; with a mask, index 0 is the transparent colour
    if ncol == 1:
        maps = [{56: (0, 0), 7: (0, 0)}]
    elif ncol == 2:
        maps = [{56: (0, 1), 7: (1, 0)}, {56: (1, 1), 7: (0, 1)}]
    elif ncol == 4:
        maps = [{56: (1, 2), 7: (3, 0)}, {56: (2, 2), 7: (0, 3)}]
    else:
        maps = [{56: (1, 14), 7: (15, 0)}, {56: (9, 6), 7: (3, 12)}]
    for b in range(b_lo, b_hi):
        data = [(b + 37 * k) & 255 for k in range(8)]
        data2 = [(255 - b + 11 * k) & 255 for k in range(8)]
        for m in (mask_bytes if masked else (None,)):
            mk = None if m is None else [(m + 101 * k) & 255 for k in range(8)]
            for mtype in ((1, 2) if masked else (0,)):
                for amap in maps:
                    for shape in (1, 2):
                        for scale in scales:
                            udgs = [[Udg(56, list(data), None if mk is None else list(mk))] + ([Udg(7, list(data2), None)] if shape == 2 else [])]
                            frame = Frame(udgs, scale, mtype)
                            frame.attr_map = amap
                            frame.has_masks = 1 if masked else 0
                            mask = iw.masks[mtype]
                            n += 1
                            try:
                                got = _z.decompress(bytes(special(frame, mask, bd)))
                                exp = _z.decompress(bytes(generic(frame, mask, bd)))
                            except Exception as ex:
                                bad.append((enc, b, m, mtype, scale, shape, 'exception %r' % (ex,)))
                                continue
                            if got != exp:
                                k = next(i for i in range(min(len(got), len(exp))) if got[i] != exp[i]) if len(got) == len(exp) else -1
                                bad.append((enc, b, m, mtype, scale, shape, 'image data differs at byte %d (%d vs %d bytes)' % (k, len(got), len(exp))))
                            if len(bad) > 3:
                                return n, bad
    return n, bad


def check_encoders(rep, tier):
    quick = tier == 'quick'
    mask_bytes = tuple(range(0, 256, 17)) + (1, 2, 254, 127) if quick else tuple(range(256))
    scales = (1, 2, 3, 8) if quick else tuple(range(1, 9))
    tasks = []
    for enc, bd, ncol, masked in ENCODERS:
        step = 16 if masked else 64
        for lo in range(0, 256, step):
            tasks.append((enc, bd, ncol, masked, lo, lo + step, mask_bytes, scales))
    with Pool(common.NCPU) as p:
        res = p.map(encoders_chunk, tasks, chunksize=1)
    n = sum(r[0] for r in res)
    bad = [b for r in res for b in r[1]]
    rep.bounded.append({'function': 'skoolkit.pngwriter.PngWriter._build_image_data_bd0 / bd1_nt / bd1_at / bd2_nt / bd2_at / bd4_nt against _build_image_data_bd_any',
                        'contract': 'the specialised encoder the dispatch table selects produces image data that inflates to the same bytes as the generic encoder',
                        'bound': 'small scope, exhaustive inside it: frames of 1 and 2 tiles, all 256 graphic bytes (every pixel row sees every value), %d mask bytes, mask types 1-2, scales %s, 2 palette-index maps per depth' % (len(mask_bytes), list(scales)),
                        'evaluations': n})
    seen = set()
    for b in bad:
        key = 'C15/encoder/%s%s' % (b[0].replace('_build_image_data_', ''), '/masked' if b[3] else '')
        if key in seen:
            continue
        seen.add(key)
        rep.violation(key, '%s on a %d-tile frame (graphic byte %d, mask byte %s, mask type %d, scale %d): %s' % (b[0], b[5], b[1], b[2], b[3], b[4], b[6]),
                      {'case': {'encoder': b[0], 'graphic': b[1], 'mask': b[2], 'mask_type': b[3], 'scale': b[4], 'tiles': b[5]}, 'observed': b[6]})


# ------------------------------------------------------------------ frame condition: the writers are configuration, not state
def check_writer_state(rep):
    """AST dataflow obligation: after construction, no method of PngWriter / ImageWriter assigns (or deletes, or
    augments) an attribute of self - so what write_image emits is a function of the frames and the configuration only.
    Methods that are reachable only from __init__ may initialise attributes."""
    import ast
    import inspect
    import skoolkit.pngwriter as PW
    import skoolkit.image as IM
    for mod, cname in ((PW, 'PngWriter'), (IM, 'ImageWriter')):
        cls = getattr(mod, cname)
        tree = ast.parse(inspect.getsource(mod))
        cdef = next(n for n in tree.body if isinstance(n, ast.ClassDef) and n.name == cname)
        methods = {n.name: n for n in cdef.body if isinstance(n, ast.FunctionDef)}

        def callees(fn):
            return {c.func.attr for c in ast.walk(fn) if isinstance(c, ast.Call) and isinstance(c.func, ast.Attribute)
                    and isinstance(c.func.value, ast.Name) and c.func.value.id == 'self' and c.func.attr in methods}
        # methods reachable from __init__ ...
        init_reach = set()
        todo = ['__init__'] if '__init__' in methods else []
        while todo:
            m = todo.pop()
            if m in init_reach:
                continue
            init_reach.add(m)
            todo.extend(callees(methods[m]))
        # ... but not from any public method outside that set
        other_reach = set()
        todo = [m for m in methods if m not in init_reach]
        while todo:
            m = todo.pop()
            if m in other_reach:
                continue
            other_reach.add(m)
            todo.extend(callees(methods[m]))
        init_only = init_reach - other_reach
        for mname, fn in methods.items():
            if mname in init_only:
                continue
            stores = []
            for n in ast.walk(fn):
                targets = []
                if isinstance(n, ast.Assign):
                    targets = n.targets
                elif isinstance(n, (ast.AugAssign, ast.AnnAssign)):
                    targets = [n.target]
                elif isinstance(n, ast.Delete):
                    targets = n.targets
                for t in targets:
                    for sub in ast.walk(t):
                        if isinstance(sub, ast.Attribute) and isinstance(sub.value, ast.Name) and sub.value.id == 'self' and isinstance(sub.ctx, (ast.Store, ast.Del)):
                            stores.append((sub.attr, n.lineno))
                        if isinstance(sub, ast.Subscript) and isinstance(sub.value, ast.Attribute) and isinstance(sub.value.value, ast.Name) and sub.value.value.id == 'self' and isinstance(sub.ctx, (ast.Store, ast.Del)):
                            stores.append((sub.value.attr + '[...]', n.lineno))
            oid = 'C15/%s.%s.%s/frame.self_unchanged' % (mod.__name__, cname, mname)
            rep.add(oid, 'proved' if not stores else 'failed', 'ast-dataflow', 0, '%s.%s (frame condition)' % (mod.__name__, cname))
            if stores:
                rep.violation('C15/%s.%s/frame.self_unchanged' % (cname, mname), '%s.%s assigns self.%s (line %d of the class body): a later image written by the same writer depends on an earlier one' % (
                    cname, mname, stores[0][0], stores[0][1]), {'case': {'writer_state': cname, 'method': mname, 'attribute': stores[0][0]}}, no_input=True)


def writer_reuse_bounded(seed, n):
    """B: images written one after another by one ImageWriter are byte-identical to the same images written by fresh writers."""
    from skoolkit.image import ImageWriter
    from skoolkit.graphics import Udg, Frame
    rnd = random.Random('%s/reuse' % seed)
    bad = []
    for trial in range(n):
        opts = {'PNGAlpha': rnd.choice((0, 255, 100)), 'PNGEnableAnimation': rnd.randrange(2)}
        shared = ImageWriter(dict(opts))
        for k in range(4):
            mask = rnd.randrange(3)
            udgs = [[Udg(rnd.choice((56, 7, 184)), [rnd.randrange(256) for _ in range(8)], [rnd.randrange(256) for _ in range(8)] if mask else None)]]
            alpha = rnd.choice((-1, -1, 0, 255, 77))
            fr = Frame(udgs, rnd.randrange(1, 3), mask, alpha=alpha)
            f1, f2 = io.BytesIO(), io.BytesIO()
            shared.write_image([fr], f1)
            ImageWriter(dict(opts)).write_image([fr], f2)
            if f1.getvalue() != f2.getvalue():
                bad.append((trial, k, opts, alpha, mask))
                break
    return n * 4, bad
