"""C01 - Disassembly is lossless: sna2skool output reassembles to the original bytes.

P: tiling lemmas with a ghost cursor: every statement the Disassembler hands to
   `imaker` starts where the previous one ended and the returned list covers
   the requested range - Disassembler.disassemble (wrap on/off, decoders by
   their length contract), Disassembler._defb_lines (chunking), for all
   (start, end) and all memory.
   Per-instruction re-assembly is C02; the number formatter (every value, base,
   case, hex/decimal: E) and the data statements are re-checked here as well,
   because every DEFB/DEFM/DEFW/DEFS line of a disassembly depends on them.
B: composition through the text layers (CtlParser, SkoolWriter, skool2bin):
   skool2bin(sna2skool(mem, ctl, options)) == mem on every non-ignored address,
   on generated (memory, control file, options) triples.
"""
import ast
import contextlib
import io
import os
import random
import shutil
import tempfile
import time
from multiprocessing import Pool

import z3

from props import common
from props.funcvc import FuncVC
from pyvc import poly
from pyvc.poly import SV, SB, ite, and_, or_, not_, sv, cmpop, truth
from pyvc.engine import Engine, CallModel, ObjModel, SymList, UNK, Unknown, func_ast
from pyvc.loops import havoc_loop


class Span:
    """A slice of the snapshot (or a concatenation of slices): only its length is tracked."""

    def __init__(self, length):
        self.length = length


class SnapModel:
    pass


class DecodeResult:
    """What a decoder returns: (operation, length[, flags]) with 1 <= length <= 4."""

    def __init__(self, length):
        self.length = length


class CountList:
    """A list of which only the length is tracked."""

    def __init__(self, n=0):
        self.n = n


class TileEngine(Engine):
    def getitem(self, base, idx, node):
        if isinstance(base, SnapModel):
            if isinstance(idx, tuple) and idx and idx[0] == 'symslice':
                lo, hi = idx[1], idx[2]
                lo = 0 if lo is None else lo
                return Span(ite(cmpop('>', hi, lo), hi - lo, 0))
            if isinstance(idx, slice):
                lo = idx.start or 0
                return Span(max(0, idx.stop - lo))
            return UNK
        return super().getitem(base, idx, node)

    def binop(self, op, a, b, node=None):
        if isinstance(a, Span) and isinstance(b, Span) and op == '+':
            return Span(a.length + b.length)
        if isinstance(a, CountList) and isinstance(b, CountList) and op == '+':
            return CountList(a.n + b.n)
        return super().binop(op, a, b, node)

    def assign(self, t, v):
        if isinstance(v, DecodeResult) and isinstance(t, (ast.Tuple, ast.List)):
            vals = [UNK] * len(t.elts)
            vals[1] = v.length
            if len(vals) == 3:
                # (operation, length, flags): the flags the decoder hands back for this instruction (ghost: remembered on the path)
                vals[2] = self.fresh('decoder_flags', 0, 255)
                self.path.decoder_flags = vals[2]
            for a, b in zip(t.elts, vals):
                self.assign(a, b)
            return
        return super().assign(t, v)

    def unknown_call(self, f, args, kwargs, node):
        # a decoder looked up in self.ops: contract 1 <= length <= 4 (sizes are enumerated under C07)
        return DecodeResult(self.fresh('length', 1, 4))

    def getattr(self, obj, attr, node):
        if isinstance(obj, CountList):
            if attr == 'append':
                def app(e, args, kwargs, n, obj=obj):
                    obj.n = obj.n + 1
                    hook = getattr(e, 'append_hook', None)
                    if hook is not None:
                        hook(e, args[0] if args else None, n)
                    return None
                return CallModel(app, 'append')
            raise poly.Refuse('list method ' + attr)
        return super().getattr(obj, attr, node)

    def sym_builtin(self, f, name, args, kwargs, node):
        if name == 'len' and len(args) == 1:
            if isinstance(args[0], CountList):
                return args[0].n
            if isinstance(args[0], Span):
                return args[0].length
        return super().sym_builtin(f, name, args, kwargs, node)

    def as_cond(self, v):
        if isinstance(v, CountList):
            return cmpop('>', v.n, 0)
        return super().as_cond(v)

    def ev(self, e):
        if isinstance(e, ast.List) and not e.elts and getattr(self, 'count_lists', False):
            return CountList(0)
        return super().ev(e)

    def call(self, f, args, kwargs, node):
        # len() of model objects that the generic engine does not know
        if f is len and len(args) == 1 and isinstance(args[0], (CountList, Span)):
            return args[0].n if isinstance(args[0], CountList) else args[0].length
        return super().call(f, args, kwargs, node)


def check_disassemble(rep):
    from skoolkit.disassembler import Disassembler
    W = poly.W
    fn = Disassembler.disassemble
    node, _ = func_ast(fn)
    loops = sorted([n for n in ast.walk(node) if isinstance(n, (ast.While, ast.For))], key=lambda n: (n.lineno, n.col_offset))
    q = fn.__qualname__

    for wrap in (True, False):
        def start(eng, wrap=wrap):
            p = eng.path
            p.start = SV(z3.BitVec('start', W), 0, 65535)
            p.end = SV(z3.BitVec('end', W), 1, 65536)
            p.facts.extend([p.start.t >= 0, p.start.t < p.end.t, p.end.t <= 65536])
            p.cursor = p.start

            def emit(e, args, kwargs, n):
                address, data = args[0], args[-1] if len(args) == 3 else args[1]
                length = data.length if isinstance(data, Span) else None
                if length is None:
                    e.oblige('emit.bytes_known', False, n)
                    return ObjModel(None, name='instruction')
                e.oblige('emit.contiguous', cmpop('==', address, p.cursor), n)
                e.oblige('emit.nonempty', cmpop('>=', length, 1), n)
                p.cursor = p.cursor + length
                ins = ObjModel(None, name='instruction')
                ins.decoded = len(args) == 3        # imaker(address, operation, bytes): the decoder's operation; _defb_line(address, bytes): the DEFB fallback
                return ins
            me = ObjModel(None, name='disassembler', cls=Disassembler)
            me.attrs.update({'snapshot': SnapModel(), 'ops': UNK, 'imaker': CallModel(emit, 'imaker'), 'wrap': wrap, 'rst_handler': None,
                             '_defb_line': CallModel(emit, '_defb_line')})
            p.me = me
            p.decoder_flags = None
            from skoolkit.disassembler import VARIANT

            def on_append(e, ins, n):
                # an instruction made from the decoder's operation carries the decoder's variant flag (it is what makes
                # sna2skool write the @bytes directive that keeps a variant encoding through re-assembly)
                if isinstance(ins, ObjModel) and getattr(ins, 'decoded', False):
                    fl = e.path.decoder_flags if e.path.decoder_flags is not None else 0
                    v = ins.attrs.get('variant')
                    e.oblige('emit.variant_flag_from_the_decoder', False if v is None or not isinstance(v, (int, SV)) else cmpop('==', v, fl & VARIANT), n)
            eng.append_hook = on_append
            eng.count_lists = True

            def inv(e, loc):
                a = loc['address']
                return and_(cmpop('>=', a, p.start), cmpop('<=', a, 65539), cmpop('<=', p.cursor, 65536 + (3 if wrap else 0)),
                            or_(cmpop('==', a, p.cursor), and_(cmpop('==', p.cursor, 65536), cmpop('>=', a, 65536))))

            def on_havoc(e):
                p.cursor = e.fresh('cursor', 0, 1 << 20)
            eng.loop_invariants = {(q, 0): havoc_loop(invariant=inv, int_names=('address', 'length'), on_havoc=on_havoc, int_range=(0, 1 << 20))}
            p.ret = eng.call_function(fn, [me, p.start, p.end, 'n'])

        def post(p, prove, wrap=wrap):
            prove('post.covers_range', cmpop('>=', p.cursor, p.end))
            prove('post.within_memory', cmpop('<=', p.cursor, 65536) if not wrap else cmpop('<=', p.cursor, 65536 + 3))
        eng = TileEngine(inline_ok=lambda f: False, unknown_ok=True)
        FuncVC(rep, 'C01', fn, 'skoolkit.disassembler.Disassembler.disassemble[wrap=%s]' % wrap, eng).run(start, post, replay_disassemble(wrap))


def replay_disassemble(wrap):
    def rp(vals, kind):
        d = concrete_tiling(vals.get('start', 65533), vals.get('end', 65536), wrap, seed=vals.get('length!1', 0))
        return {'case': {'start': vals.get('start'), 'end': vals.get('end'), 'wrap': wrap}, 'diffs': d}
    return rp


def concrete_tiling(start, end, wrap, seed=0):
    from skoolkit.disassembler import Disassembler
    from props.c07 import _mkcfg
    rnd = random.Random(seed)
    mem = [rnd.choice((0, 0xDD, 0xCB, 0xED, 0x21, 0xC3, 0x18, rnd.randrange(256))) for _ in range(65536)]
    d = Disassembler(mem, _mkcfg('ALL', wrap, False, False))
    cur = start
    for ins in d.disassemble(start, end, 'n'):
        n = len(ins.bytes)
        if ins.address != cur or n < 1:
            return [('gap or empty statement', ins.address, cur, ins.operation)]
        exp = [mem[(cur + k) & 0xFFFF] for k in range(n)]
        if list(ins.bytes) != exp:
            return [('bytes differ from memory', ins.address, list(ins.bytes), exp)]
        cur += n
    if cur < end:
        return [('range not covered', cur, end)]
    # the variant flag: an instruction whose text does not assemble back to its bytes must be flagged (sna2skool then
    # writes @bytes); variant encodings planted at the top of memory (they wrap when `wrap` is on) and in the middle
    from skoolkit.z80 import Assembler
    asm = Assembler()
    for base_addr in (65535, 65534, 65533, 40000):
        for seq in ([0xED, 0x7C], [0xED, 0x63, 0x00, 0x03], [0xED, 0x4E], [0xED, 0x55], [0xDD, 0xCB, 0x05, 0x58]):
            mem2 = list(mem)
            for i, b in enumerate(seq):
                mem2[(base_addr + i) & 0xFFFF] = b
            if base_addr + len(seq) > 65536 and not wrap:
                continue
            d2 = Disassembler(mem2, _mkcfg('ALL', wrap, False, False))
            ins = d2.disassemble(base_addr, min(65536, base_addr + 1), 'n')[0]
            if list(ins.bytes) != seq:
                continue
            back = list(asm.assemble(ins.operation, ins.address) or ())
            if back != list(ins.bytes) and not ins.variant:
                return [('variant encoding not flagged', ins.address, ins.operation, 'bytes %s assemble back to %s' % (list(ins.bytes), back))]
    return []


def check_defb_lines(rep):
    from skoolkit.disassembler import Disassembler
    W = poly.W
    fn = Disassembler._defb_lines
    q = fn.__qualname__

    def start(eng):
        p = eng.path
        p.start = SV(z3.BitVec('start', W), 0, 65535)
        p.end = SV(z3.BitVec('end', W), 1, 65536)
        p.max_size = SV(z3.BitVec('max_size', W), 1, 65536)
        p.facts.extend([p.start.t >= 0, p.start.t < p.end.t, p.end.t <= 65536, p.max_size.t >= 1, p.max_size.t <= 65536])
        p.cursor = p.start
        eng.count_lists = True
        holder = {}

        def emit(e, args, kwargs, n):
            address, data = args[0], args[1]
            if isinstance(data, Span):
                length = data.length
            elif isinstance(data, CountList):
                length = data.n
            else:
                e.oblige('emit.bytes_known', False, n)
                return ObjModel(None, name='instruction')
            e.oblige('emit.contiguous', cmpop('==', address, p.cursor), n)
            e.oblige('emit.nonempty', cmpop('>=', length, 1), n)
            e.oblige('emit.max_size', or_(cmpop('<=', length, p.max_size), cmpop('!=', holder.get('sub0', 0), 0)), n)
            p.cursor = p.cursor + length
            return ObjModel(None, name='instruction')
        me = ObjModel(None, name='disassembler', cls=Disassembler)
        me.attrs.update({'snapshot': SnapModel(), 'defb_size': p.max_size, 'defm_size': p.max_size, '_defb_line': CallModel(emit, '_defb_line')})

        def inv(e, loc):
            data = loc['data']
            n = data.n if isinstance(data, CountList) else 0
            # the bytes gathered so far are exactly [cursor, i]: cursor + len(data) == i + 1 after the append of iteration i;
            # at the loop head (before iteration i): cursor + len(data) == i
            return and_(cmpop('>=', n, 0), cmpop('<', n, p.max_size))
        # the for loop over range(start, end): arbitrary iteration i with cursor + len(data) == i
        def loop(e, node_):
            fr = e.frames[-1]
            data = fr.loc['data']
            e.oblige('inv.establish', and_(cmpop('==', data.n, 0), cmpop('==', p.cursor, p.start)), node_)
            i = e.fresh('i', 0, 65535)
            n0 = e.fresh('len_data', 0, 65535)
            cur0 = e.fresh('cursor', 0, 65536)
            e.fresh_n += 1
            more = SB(z3.Bool('iterate!%d' % e.fresh_n))
            if e.decide(more):
                # arbitrary iteration: start <= i < end, invariant cursor + len(data) == i, len(data) < max_size
                e.assume(and_(cmpop('>=', i, p.start), cmpop('<', i, p.end), cmpop('==', cur0 + n0, i), cmpop('<', n0, p.max_size), cmpop('>=', cur0, p.start)))
                p.cursor = cur0
                fr.loc['data'] = CountList(n0)
                fr.loc['i'] = i
                e.exec_block(node_.body)
                d2 = fr.loc['data']
                e.oblige('inv.preserve', and_(cmpop('==', p.cursor + d2.n, i + 1), cmpop('<', d2.n, p.max_size)), node_)
                from pyvc.engine import PathEnd
                raise PathEnd()
            # after the loop: i == end - 1, cursor + len(data) == end
            e.assume(and_(cmpop('==', cur0 + n0, p.end), cmpop('<', n0, p.max_size), cmpop('>=', cur0, p.start)))
            p.cursor = cur0
            fr.loc['data'] = CountList(n0)
            fr.loc['i'] = p.end - 1
        eng.loop_invariants = {(q, 0): loop}
        # the first sublength is any size: 0 (chunk by DefbSize/DefmSize) or explicit (one statement for the range)
        sub0 = SV(z3.BitVec('sublength0', W), 0, 65535)
        p.facts.append(z3.And(sub0.t >= 0, sub0.t <= 65535))
        holder['sub0'] = sub0
        p.ret = eng.call_function(fn, [me, p.start, p.end, ((sub0, 'n'),), False])

    def post(p, prove):
        prove('post.covers_exactly', cmpop('==', p.cursor, p.end))
    eng = TileEngine(inline_ok=lambda f: False, unknown_ok=True)
    FuncVC(rep, 'C01', fn, 'skoolkit.disassembler.Disassembler._defb_lines', eng).run(start, post, None)


# ------------------------------------------------------------------ P: Disassembler.defs_range
def check_defs_range(rep):
    """defs_range(start, end, sublengths) under the precondition the chunk loop establishes (the DEFS size is 0 or the
    length of the range): either the range is handed to defb_range unchanged (bytes differ) or exactly one statement
    is made, at `start`, carrying the bytes [start, end), whose DEFS size operand is end - start."""
    from skoolkit.disassembler import Disassembler
    W = poly.W
    fn = Disassembler.defs_range
    for nsub in (1, 2):
        name = 'skoolkit.disassembler.Disassembler.defs_range[%d sublength%s]' % (nsub, '' if nsub == 1 else 's')

        def start(eng, nsub=nsub):
            p = eng.path
            p.start = SV(z3.BitVec('start', W), 0, 65535)
            p.end = SV(z3.BitVec('end', W), 1, 65536)
            p.size = SV(z3.BitVec('size', W), 0, 65535)
            p.facts.extend([p.start.t >= 0, p.start.t < p.end.t, p.end.t <= 65536, p.size.t >= 0, p.size.t <= 65535])
            eng.assume(or_(cmpop('==', p.size, 0), cmpop('==', p.size, p.end - p.start)))
            p.made = []
            p.delegated = []
            p.sizes_formatted = []

            def imaker(e, args, kwargs, n):
                p.made.append((args[0], args[2] if len(args) > 2 else None))
                return ObjModel(None, name='instruction')

            def defb_range(e, args, kwargs, n):
                p.delegated.append(args)
                return CountList(e.fresh('n_statements', 1, 65536))
            fmt_calls = []

            def format_byte(e, args, kwargs, n):
                fmt_calls.append(args[0])
                return 'N'
            p.fmt_calls = fmt_calls
            fmt = ObjModel(None, name='op_formatter')
            fmt.attrs['format_byte'] = CallModel(format_byte, 'format_byte')
            me = ObjModel(None, name='disassembler', cls=Disassembler)
            me.attrs.update({'snapshot': SnapModel(), 'imaker': CallModel(imaker, 'imaker'), 'defb_range': CallModel(defb_range, 'defb_range'),
                             'op_formatter': fmt, 'defs': 'DEFS '})
            sublengths = ((p.size, 'n'),) + (((e_ := eng.fresh('value_element', 0, 65535)), 'c'),) * (nsub - 1)
            p.ret = eng.call_function(fn, [me, p.start, p.end, sublengths])

        def post(p, prove):
            if p.delegated:
                prove('post.delegates_once_and_makes_nothing', len(p.delegated) == 1 and not p.made)
                a = p.delegated[0]
                prove('post.delegated_range_is_the_whole_range', cmpop('==', a[0], p.start) if len(a) > 1 else False)
                prove('post.delegated_range_end', cmpop('==', a[1], p.end) if len(a) > 1 else False)
                sl = a[2] if len(a) > 2 else None
                prove('post.delegated_with_default_chunking', isinstance(sl, tuple) and len(sl) == 1 and sl[0][0] == 0)
                return
            prove('post.one_statement', len(p.made) == 1)
            if len(p.made) != 1:
                return
            addr, data = p.made[0]
            prove('post.statement_at_start', cmpop('==', addr, p.start))
            prove('post.statement_carries_the_range', isinstance(data, Span) and truth(cmpop('==', data.length, p.end - p.start)))
            prove('post.defs_size_operand_is_the_range_length', bool(p.fmt_calls) and truth(cmpop('==', p.fmt_calls[0], p.end - p.start)))

        class DefsEngine(TileEngine):
            def sym_builtin(self, f, name_, args, kwargs, node):
                if name_ == 'set' and len(args) == 1 and isinstance(args[0], Span):
                    return UNK
                return super().sym_builtin(f, name_, args, kwargs, node)

            def call(self, f, args, kwargs, node):
                if f is set and len(args) == 1 and isinstance(args[0], Span):
                    return UNK
                return super().call(f, args, kwargs, node)
        eng = DefsEngine(inline_ok=lambda f: False, unknown_ok=True)
        FuncVC(rep, 'C01', fn, name, eng).run(start, post, replay_entry_chunks)


# ------------------------------------------------------------------ P: the chunk loop of Disassembly._create_entries
def entries_slice(fn):
    """The data sub-block branch of _create_entries, taken from the function's own AST: the statement
    `address = sub_block.start` and the if/elif chain that follows it (inside `for sub_block in block.blocks`)."""
    node, _ = func_ast(fn)
    for loop in ast.walk(node):
        if isinstance(loop, ast.For) and ast.unparse(loop.target) == 'sub_block':
            for i, st in enumerate(loop.body):
                if isinstance(st, ast.Assign) and ast.unparse(st).replace(' ', '') == 'address=sub_block.start' and i + 1 < len(loop.body) and isinstance(loop.body[i + 1], ast.If):
                    whiles = [n for n in ast.walk(loop.body[i + 1]) if isinstance(n, ast.While)]
                    if len(whiles) != 1:
                        raise LookupError('_create_entries: expected one while loop in the sub-block branch')
                    all_loops = sorted([n for n in ast.walk(node) if isinstance(n, (ast.For, ast.While))], key=lambda n: (n.lineno, n.col_offset))
                    return [st, loop.body[i + 1]], all_loops.index(whiles[0]), loop.body[i + 2:]
    raise LookupError('_create_entries: `address = sub_block.start` followed by the ctl if-chain not found')


def check_entry_chunks(rep):
    """Contract of the chunk loop (ghost cursor), for every data sub-block type b/g/s/t/u/w, 1..3 sublengths with
    symbolic sizes, every (start, end):
      * each def?_range(a, e, sublengths) call starts at the cursor (a == cursor < e <= sub_block.end), is the range
        method that belongs to the ctl, and is handed the sub-block's own sublength list;
      * the chunk is the statement (group) size, clipped to the sub-block: e - a == min(size, end - a) where size is the
        DEFS size (sublengths[0][0]) for an 's' sub-block and the sum of the sublengths otherwise; with a first
        sublength of 0 the chunk is the rest of the sub-block (e == end);
      * progress (chunk length >= 1) and, at loop exit, cursor == sub_block.end (the chunks tile the sub-block);
      * the list handed to _add_instructions is the one the chunks were added to.
    The range methods are used through their contracts (statements covering [a, e): _defb_lines above, defs_range by
    enumeration in C02's DEFS checks)."""
    from skoolkit.snaskool import Disassembly
    fn = Disassembly._create_entries
    stmts, loop_ix, rest = entries_slice(fn)
    with Pool(common.NCPU) as pool:
        for sub in pool.imap_unordered(_entry_chunks_worker, [(ctl, nsub) for nsub in (3, 2, 1) for ctl in 'bgstuw']):
            rep.merge(sub)
    # the statement after the if-chain hands `instructions` over
    nxt = ast.unparse(rest[0]).replace(' ', '') if rest else ''
    ok = nxt == 'self._add_instructions(sub_block,instructions)'
    rep.add('C01/_create_entries/instructions_handed_to_add_instructions', 'proved' if ok else 'failed', 'syntactic', 0.0, 'skoolkit.snaskool.Disassembly._create_entries[chunk loop]')
    if not ok:
        rep.violation('C01/_create_entries/instructions_handed_to_add_instructions', 'statement after the ctl if-chain is `%s`' % nxt, no_input=True)
    rep.assume('control files are well-formed in the sense of the property: the DEFS size of an S directive divides the sub-block length (otherwise the last, clipped chunk is a DEFS statement longer than its bytes)')


def _entry_chunks_worker(args):
    sub = common.SubReport('C01')
    try:
        entry_chunks_case(sub, *args)
    except Exception:
        import traceback
        sub.errors.append('_create_entries chunk loop %s: checker crashed: %s' % (args, traceback.format_exc()[-400:]))
    return sub.export()


def entry_chunks_case(rep, ctl, nsub):
    from skoolkit.snaskool import Disassembly
    from skoolkit.disassembler import Disassembler
    from pyvc.engine import PathEnd, _Break, _Continue
    W = poly.W
    fn = Disassembly._create_entries
    stmts, loop_ix, rest = entries_slice(fn)
    q = fn.__qualname__
    expected_method = {'b': 'defb_range', 'g': 'defb_range', 'u': 'defb_range', 's': 'defs_range', 't': 'defm_range', 'w': 'defw_range'}
    if True:
        if True:
            name = 'skoolkit.snaskool.Disassembly._create_entries[chunk loop, ctl=%s, %d sublength%s]' % (ctl, nsub, '' if nsub == 1 else 's')

            def start(eng, ctl=ctl, nsub=nsub):
                p = eng.path
                p.start = SV(z3.BitVec('start', W), 0, 65535)
                p.end = SV(z3.BitVec('end', W), 1, 65536)
                p.facts.extend([p.start.t >= 0, p.start.t < p.end.t, p.end.t <= 65536])
                sizes = [SV(z3.BitVec('size%d' % i, W), 0, 65535) for i in range(nsub)]
                for z in sizes:
                    p.facts.extend([z.t >= 0, z.t <= 65535])
                p.sizes = sizes
                sublengths = tuple((z, 'n') for z in sizes)
                p.sublengths = sublengths
                total = sizes[0] if ctl == 's' else sum(sizes[1:], sizes[0])
                p.total = total
                p.cursor = p.start
                p.calls = 0
                sb = ObjModel(None, name='sub_block')
                sb.attrs.update({'ctl': ctl, 'start': p.start, 'end': p.end, 'sublengths': sublengths})
                p.result = CountList(0)

                def rng(method):
                    def f(e, args, kwargs, n):
                        a, en = args[0], args[1]
                        e.oblige('chunk.method_matches_ctl', method == expected_method[ctl], n)
                        e.oblige('chunk.sublengths_passed_on', len(args) == 3 and args[2] is sublengths, n)
                        e.oblige('chunk.starts_at_cursor', cmpop('==', a, p.cursor), n)
                        e.oblige('chunk.nonempty', cmpop('<', a, en), n)
                        e.oblige('chunk.inside_sub_block', cmpop('<=', en, p.end), n)
                        rem = p.end - a
                        # e - a == min(size, end - a), size = (sizes[0] != 0 ? total : end - start): one obligation per case
                        nz = cmpop('!=', sizes[0], 0)
                        e.oblige('chunk.is_statement_size', or_(not_(nz), not_(cmpop('<', p.total, rem)), cmpop('==', en - a, p.total)), n)
                        e.oblige('chunk.is_clipped_to_sub_block', or_(not_(nz), cmpop('<', p.total, rem), cmpop('==', en, p.end)), n)
                        e.oblige('chunk.is_whole_sub_block_without_sublengths', or_(nz, cmpop('==', en, p.end)), n)
                        p.cursor = en
                        p.calls += 1
                        return CountList(e.fresh('n_statements', 1, 65536))
                    return CallModel(f, method)
                dis = ObjModel(None, name='disassembler', cls=Disassembler)
                dis.attrs.update({m: rng(m) for m in ('defb_range', 'defm_range', 'defw_range', 'defs_range')})
                dis.attrs['disassemble'] = CallModel(lambda e, a, k, n: e.oblige('chunk.no_code_disassembly_for_data', False, n), 'disassemble')
                me = ObjModel(None, name='disassembly', cls=Disassembly)
                me.attrs.update({'disassembler': dis})

                def chunk_loop(e, node_):
                    fr = e.frames[-1]
                    length = fr.loc['length']
                    e.oblige('inv.establish', and_(cmpop('==', fr.loc['address'], p.start), cmpop('==', p.cursor, p.start)), node_)
                    e.oblige('progress.length_at_least_1', cmpop('>=', length, 1), node_)
                    e.fresh_n += 1
                    if e.decide(SB(z3.Bool('iterate!%d' % e.fresh_n))):
                        a = e.fresh('address', 0, 65535)
                        e.assume(and_(cmpop('>=', a, p.start), cmpop('<', a, p.end)))
                        p.cursor = a
                        fr.loc['address'] = a
                        c0 = p.calls
                        e.oblige('guard_holds_in_the_invariant_state', e.as_cond(e.ev_cond(node_.test)), node_)
                        try:
                            e.exec_block(node_.body)
                        except (_Break, _Continue):
                            pass
                        e.oblige('inv.one_range_call_per_iteration', p.calls == c0 + 1, node_)
                        a2 = e.frames[-1].loc['address']
                        e.oblige('inv.preserve', or_(and_(cmpop('<', a2, p.end), cmpop('==', p.cursor, a2)), and_(cmpop('>=', a2, p.end), cmpop('==', p.cursor, p.end))), node_)
                        raise PathEnd()
                    # exit: the guard is false; by the invariant the cursor is at the end of the sub-block
                    a3 = e.fresh('address_at_exit', 0, 1 << 18)
                    e.assume(cmpop('>=', a3, p.end))
                    fr.loc['address'] = a3
                    p.cursor = p.end
                    p.exited = True
                eng.loop_invariants = {(q, loop_ix): chunk_loop}
                eng.count_lists = True
                # the enclosing entry: its sub-blocks lie inside it (block.end >= sub_block.end)
                blk = ObjModel(None, name='block')
                bend = SV(z3.BitVec('block_end', W), 1, 65536)
                p.facts.extend([bend.t >= p.end.t, bend.t <= 65536])
                blk.attrs.update({'end': bend, 'start': UNK, 'blocks': UNK, 'ctl': UNK})
                p.locs = {'self': me, 'sub_block': sb, 'block': blk, 'title': UNK}
                eng.run_stmts(fn, stmts, p.locs, me)

            def post(p, prove):
                if getattr(p, 'exited', False):
                    prove('post.chunks_tile_the_sub_block', cmpop('==', p.cursor, p.end))
                    prove('post.instructions_bound', isinstance(p.locs.get('instructions'), CountList))

            eng = TileEngine(inline_ok=lambda f: False, unknown_ok=True)
            FuncVC(rep, 'C01', fn, name, eng).run(start, post, replay_entry_chunks)


def replay_entry_chunks(vals, kind):
    """Concrete search: S/B/T/W directives with sublength lists over a small image, sna2skool -> skool2bin. Only control
    files on which the unchanged code round-trips (sublength lists that divide the sub-block, or single sublengths with a
    short last row): an earlier version used lists that do not divide the sub-block, for which sna2skool writes a
    statement with a trailing comma - it 'reproduced' every counterexample, including on the unchanged tree."""
    rnd = random.Random(11)
    tmp = tempfile.mkdtemp(prefix='c01chunks_')
    try:
        for t in range(120):
            org = 32768
            v = rnd.randrange(1, 256)
            size = rnd.choice((1, 2, 3, 4))
            reps = rnd.randrange(2, 5)
            n = size * reps
            mem = [v] * n + [rnd.randrange(256) for _ in range(6)]
            val = rnd.choice(('', ':c%d' % v if 32 <= v < 127 else ':%d' % v, ':h%d' % v, ':%d' % v))
            kind_ = rnd.choice('sbtw')
            if t % 5 == 4:
                # a B/T/W sub-block whose rows do not divide it (the last row is short), followed by another sub-block of the same entry
                k = 4 if kind_ == 'w' else rnd.choice((3, 4))
                first = k * 2 + (2 if kind_ == 'w' else rnd.randrange(1, k))
                if first + 2 > len(mem) or kind_ == 's':
                    continue
                ctl = '%s %d\n%s %d,%d,%d\n%s %d,%d\ni %d\n' % (kind_, org, kind_.upper(), org, first, k, kind_.upper(), org + first, len(mem) - first, org + len(mem))
                if kind_ == 'w' and (len(mem) - first) % 2:
                    continue
            elif kind_ == 's':
                ctl = 's %d\nS %d,%d,%d%s\nb %d\ni %d\n' % (org, org, n, size, val, org + n, org + len(mem))
            else:
                # a two-element sublength list that divides the sub-block exactly (rows of k + k bytes)
                k = rnd.randrange(1, 4) * (2 if kind_ == 'w' else 1)
                mem = [rnd.randrange(256) for _ in range(2 * k * rnd.randrange(1, 4))]
                ctl = '%s %d\n%s %d,%d,%d:%d\ni %d\n' % (kind_, org, kind_.upper(), org, len(mem), k, k, org + len(mem))
            diffs = e2e_concrete(tmp, mem, org, ctl, rnd.choice(([], ['-H'], ['-H', '-l'])))
            if diffs:
                return {'case': {'org': org, 'bytes': mem, 'ctl': ctl}, 'diffs': diffs[:3]}
    finally:
        shutil.rmtree(tmp, ignore_errors=True)
    return {'case': {}, 'diffs': []}


def e2e_concrete(tmp, mem, org, ctl, opts):
    """sna2skool (with the control file) then skool2bin; -> list of (address, expected byte, got)."""
    from skoolkit import sna2skool, skool2bin
    binf, ctlf, skoolf, outf = (os.path.join(tmp, x) for x in ('m.bin', 'm.ctl', 'm.skool', 'o.bin'))
    with open(binf, 'wb') as f:
        f.write(bytes(mem))
    with open(ctlf, 'w') as f:
        f.write(ctl)
    skool, err = _run_main(sna2skool.main, ['-o', str(org), '-c', ctlf] + list(opts) + [binf])
    with open(skoolf, 'w') as f:
        f.write(skool)
    _run_main(skool2bin.main, [skoolf, outf])
    with open(outf, 'rb') as f:
        out = list(f.read())
    diffs = [(org + i, b, out[i] if i < len(out) else None) for i, b in enumerate(mem) if i >= len(out) or out[i] != b]
    if len(out) != len(mem):
        diffs.append(('length', len(mem), len(out)))
    return diffs


# ------------------------------------------------------------------ B: end-to-end
def _run_main(mainf, args):
    out = io.StringIO()
    err = io.StringIO()
    with contextlib.redirect_stdout(out), contextlib.redirect_stderr(err):
        try:
            mainf(args)
        except SystemExit as e:
            return out.getvalue(), err.getvalue() + '\nEXIT %s' % e
        except Exception as e:
            return out.getvalue(), err.getvalue() + '\nEXC %r' % (e,)
    return out.getvalue(), err.getvalue()


def gen_ctl(rnd, mem, start, end):
    """A well-formed control file: block/sub-block boundaries on statement boundaries."""
    from skoolkit import opcodes
    lines = []
    a = start
    ignored = []
    while a < end:
        n = min(end - a, rnd.choice((1, 2, 3, 4, 8, 16, rnd.randrange(1, 40))))
        kind = rnd.choice('bcgstuw')      # the property's quantifier: any mix of b/c/g/s/t/u/w blocks; 'i' only terminates the range
        if kind == 'c':
            # extend to an instruction boundary
            b = a
            for addr, size, mc, op_id, op, ra in opcodes.decode(mem, a, min(end, a + n)):
                b = addr + size
            if b > end:
                kind = 'b'
            else:
                n = b - a
        if kind == 'w' and n % 2:
            n += 1
            if a + n > end:
                kind = 'b'
                n = end - a
        if kind == 's':
            v = mem[a]
            k = 1
            while k < n and mem[a + k] == v:
                k += 1
            n = k
        if kind == 'i':
            ignored.append((a, a + n))
        lines.append('%s %d' % (kind, a))
        if kind in 'bt' and n > 3 and rnd.random() < 0.4:
            base = rnd.choice(('b', 'd', 'h', 'n', 'c' if kind == 't' else 'd'))
            k = rnd.randrange(1, n)
            lines.append('%s %d,%d,%s%d' % (kind.upper(), a, n, base, k) + (':%s%d' % (rnd.choice('bdhn'), n - k)))
        elif kind == 'c' and n > 2 and rnd.random() < 0.3:
            lines.append('C %d,%s%d' % (a, rnd.choice('bdhnm'), n))
        elif kind == 's' and n > 1 and rnd.random() < 0.6:
            # S directive with a DEFS size that divides the run, and the optional byte-value element in its three spellings
            size = rnd.choice([d for d in (1, 2, 3, 4, n) if n % d == 0])
            v = mem[a]
            val = rnd.choice(('', ':%s' % rnd.choice('bdhn'), ':%s%d' % (rnd.choice('bdhn'), v), ':%d' % v, ':c%d' % v if 32 <= v < 127 and v not in (34, 92) else ':%d' % v))
            lines.append('S %d,%d,%s%d%s' % (a, n, rnd.choice(('', 'b', 'd', 'h')), size, val))
        elif kind == 'w' and n >= 4 and rnd.random() < 0.5:
            k = rnd.choice((2, 4))
            lines.append('W %d,%d,%s%d%s' % (a, n, rnd.choice(('', 'b', 'd', 'h')), k, rnd.choice(('', '*2', ':%s2' % rnd.choice('dh')))))
        elif kind in 'bt' and n > 3:
            # '*' multipliers and a sublength list shorter than the sub-block (the list repeats)
            # (the list never names more bytes than the sub-block has: k * mult + last <= n)
            k = rnd.randrange(1, 4)
            mult = rnd.randrange(1, 3)
            if k * mult + 1 > n:
                k, mult = 1, 1
            last = rnd.randrange(1, min(4, n - k * mult + 1))
            lines.append('%s %d,%d,%s%d*%d,%d' % (kind.upper(), a, n, rnd.choice(('', 'b', 'd', 'h', 'n')), k, mult, last))
        a += n
    lines.append('i %d' % end)
    return '\n'.join(lines) + '\n', ignored


def e2e_case(args):
    seed, k = args
    from skoolkit import sna2skool, skool2bin
    rnd = random.Random('%s/e2e/%s' % (seed, k))
    tmp = tempfile.mkdtemp(prefix='c01_')
    try:
        L = rnd.choice((1, 5, 40, rnd.randrange(1, 300)))
        start = rnd.choice((32768, 65536 - L, rnd.randrange(16384, 65536 - L)))
        end = start + L
        mem = [0] * 65536
        for a in range(max(0, start - 4), min(65536, end + 4)):
            mem[a] = rnd.choice((0, 0, 0x20, 0x41, 0x22, 0x5C, 0xDD, 0xFD, 0xCB, 0xED, 0x18, 0xC3, 0xC9, 0x21, 0x36, 0x7E, 0xFF, rnd.randrange(256), rnd.randrange(256)))
        binf = os.path.join(tmp, 'x.bin')
        with open(binf, 'wb') as f:
            f.write(bytes(mem[start:end]))
        opts = ['-o', str(start)]
        use_ctl = rnd.random() < 0.75
        ignored = []
        if use_ctl:
            ctl, ignored = gen_ctl(rnd, mem, start, end)
            ctlf = os.path.join(tmp, 'x.ctl')
            with open(ctlf, 'w') as f:
                f.write(ctl)
            opts += ['-c', ctlf]
        else:
            ctl = None
        if rnd.random() < 0.5:
            opts.append('-H')
        if rnd.random() < 0.3:
            opts.append('-l')
        if rnd.random() < 0.3:
            opts += ['-w', str(rnd.choice((40, 79, 120)))]
        for name, vals in (('DefbSize', (1, 3, 8)), ('DefmSize', (1, 5, 65)), ('DefwSize', (1, 2)), ('Opcodes', ('', 'ALL', 'NEG,XYCB')), ('Wrap', (0, 1))):
            if rnd.random() < 0.4:
                opts += ['-I', '%s=%s' % (name, rnd.choice(vals))]
        skool, err = _run_main(sna2skool.main, opts + [binf])
        desc = 'seed=%s/%s start=%d end=%d opts=%s' % (seed, k, start, end, ' '.join(o if not o.startswith(tmp) else os.path.basename(o) for o in opts))
        if 'EXC' in err or 'EXIT' in err:
            return ('sna2skool failed', desc, err[-300:], ctl)
        skf = os.path.join(tmp, 'x.skool')
        with open(skf, 'w') as f:
            f.write(skool)
        outf = os.path.join(tmp, 'out.bin')
        o2, err2 = _run_main(skool2bin.main, ['-S', str(start), '-E', str(end), skf, outf])
        if 'EXC' in err2 or 'EXIT' in err2 or not os.path.exists(outf):
            return ('skool2bin failed', desc, err2[-300:], ctl)
        with open(outf, 'rb') as f:
            back = list(f.read())
        exp = mem[start:end]
        if len(back) < len(exp):
            back = back + [None] * (len(exp) - len(back))
        bad = [start + i for i in range(len(exp)) if back[i] != exp[i] and not any(a <= start + i < b for a, b in ignored)]
        if bad:
            return ('bytes differ', desc, [(a, back[a - start], exp[a - start]) for a in bad[:5]], ctl)
        return None
    finally:
        shutil.rmtree(tmp, ignore_errors=True)


def run(tier):
    rep = common.Report('C01', tier, 'other', './check C01 --tier %s' % tier)
    rep.trust('pyvc (havoc/invariant loops, length-only abstraction of byte slices), z3; CPython + the tools themselves for the bounded composition')
    rep.assume('decoders looked up in Disassembler.ops return 1 <= length <= 4 (sizes enumerated completely under C07); RST-argument handling (handle_rst) is not under VC')
    rep.assume('CtlParser, SkoolWriter and skool2bin.BinWriter are text pipelines outside the VC generator: the end-to-end statement is bounded only; per-statement re-assembly is C02')
    from props import decodevc
    decodevc.check_decode(rep, 'C01')
    check_disassemble(rep)
    check_defb_lines(rep)
    check_defs_range(rep)            # one DEFS statement for the range, its size operand == the range length
    check_entry_chunks(rep)          # Disassembly._create_entries: the chunks handed to the range methods tile every data sub-block
    quick = tier == 'quick'
    n = 160 if quick else 5000
    import itertools
    from props import c02
    # P: the disassembler-side operand kernels (relative-jump targets, index offsets): every code statement of a
    # disassembly depends on them; same obligations as under C02, reported here as well
    c02.check_disassembler_kernels(rep)
    with Pool(common.NCPU) as p:
        # E: the text of every numeric operand / DEFB / DEFW item, in every base, evaluates back to the value
        # (the same enumeration C02 owns: lossless disassembly depends on it for every data statement)
        tasks = []
        for hexa, lower in itertools.product((False, True), repeat=2):
            tasks.append((hexa, lower, 1, 0, 256))
            for lo in range(0, 65536, 8192):
                tasks.append((hexa, lower, 2, lo, lo + 8192))
        resn = p.map(c02.numbers_chunk, tasks)
        nn = sum(r[0] for r in resn)
        badn = [b for r in resn for b in r[1]]
        rep.add_bulk(nn - len(badn), 'exhaustive', 0, 'skoolkit.disassembler.OperandFormatter._num_str / skoolkit.z80.eval_int', n=nn)
        rep.exhaustive.append({'domain': 'number formatting: values 0..255 (1 byte) and 0..65535 (2 bytes) x bases n,b,c,d,h,m x {hex,dec} x {upper,lower}', 'size': nn, 'visited': nn, 'complete': True})
        seenn = set()
        for hexa, lower, nb, base, v, s_, e_ in badn:
            key = 'C01/number/base=%s/nb=%d/value=%d' % (base, nb, v)
            if key in seenn or len(seenn) >= 12:
                continue
            seenn.add(key)
            rep.violation(key, '_num_str(%d, %d, %r) = %r evaluates to %r: the statement does not re-assemble to the original byte(s)' % (v, nb, base, s_, e_),
                          {'case': {'value': v, 'num_bytes': nb, 'base': base, 'asm_hex': hexa, 'asm_lower': lower}, 'text': s_, 'eval': e_})
        res = p.map(e2e_case, [(common.seed(), k) for k in range(n)], chunksize=2)
    ev, badd = c02.defs_bounded(common.seed(), 150 if quick else 3000)
    rep.bounded.append({'function': 'Disassembler.defb_range/defm_range/defw_range/defs_range o Assembler.assemble',
                        'contract': 'data statements tile the range, carry the bytes, and assemble back to them',
                        'bound': 'every single byte x base x DEFB/DEFM; all sequences of length 2..3 over a 16-symbol covering alphabet; random statements per config', 'evaluations': ev})
    seend = set()
    for b in badd:
        if b[0].startswith('SPELL'):
            continue
        key = 'C01/data-statement/%s/%s' % (b[0], str(b[1])[:30])
        if key in seend:
            continue
        seend.add(key)
        rep.violation(key, 'data statement round trip fails: %s' % (b,), {'case': {'data_statement': list(b)[:8]}})
    bad = [r for r in res if r]
    rep.bounded.append({'function': 'skoolkit.sna2skool.main -> skoolkit.skool2bin.main', 'contract': 'output bytes == input bytes at every non-ignored address',
                        'bound': '%d generated (memory, control file, options) triples: b/c/g/s/t/u/w/i blocks, B/T/C/S/W sub-blocks with base prefixes, sublength lists, * multipliers and DEFS value elements, -H/-l/-w, DefbSize/DefmSize/DefwSize/Opcodes/Wrap' % n, 'evaluations': n})
    seen = set()
    import re
    for b in bad:
        key = 'C01/e2e/%s' % b[0]
        m = re.search(r'Failed to assemble:\\n \d+ (in a,\(-|out \(-|rst -)', str(b[2]), re.I)
        if m:
            key = 'C01/e2e/negative-base-on-unsigned-operand'
        if key in seen:
            continue
        seen.add(key)
        rep.violation(key, '%s: %s: %s' % (b[0], b[1], b[2]), {'case': {'desc': b[1], 'ctl': b[3]}, 'observed': b[2]})
    rep.extra['explanation'] = 'P tiling lemmas (ghost cursor) for the disassembler loops; B composition through the text layers'
    return rep.finish()


def replay(path):
    import json
    with open(path) as f:
        doc = json.load(f)
    print('replaying', doc.get('key'), doc.get('case'))
    case = doc.get('case') or {}
    if str(doc.get('key', '')).startswith('C02/'):
        from props import c02
        rc = c02.replay(path)
        if rc == 1:
            print('VIOLATION property=C01 replay=%s' % path)
        return rc
    if 'num_bytes' in case:
        from props import c02
        n_, bad = c02.numbers_chunk((case['asm_hex'], case['asm_lower'], case['num_bytes'], case['value'], case['value'] + 1))
        bad = [b for b in bad if b[3] == case['base']]
        print(bad)
        if bad:
            print('VIOLATION property=C01 replay=%s' % path)
            return 1
        return 0
    if 'wrap' in case and case.get('start') is not None:
        d = concrete_tiling(case['start'], case['end'], case['wrap'])
        print(d)
        if d:
            print('VIOLATION property=C01 replay=%s' % path)
            return 1
        return 0
    return 1
