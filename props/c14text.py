"""C14: contracts of the text scanners used by both generators.

_check_text(t_blocks, t_start, t_end, ...) : whatever it appends is exactly (t_start, t_end).
_get_text_blocks(snapshot, start, end, config, data) : every block handed to _check_text satisfies
    start <= t_start < t_end <= end, and t_start is never read before it is assigned.

The string `text` is abstracted by its length (StrLen): `not text`, `len(text)`, `text += char`
(one character), `text = ''`; characters and configuration values are unknown.  The scan loop
`for address in range(start, end)` is treated with the inductive invariant
    len(text) > 0  =>  start <= t_start < address   (and t_start is bound)
"""
import ast

import z3

from props.funcvc import FuncVC
from pyvc import poly
from pyvc.poly import SV, SB, ite, and_, or_, not_, sv, cmpop, truth
from pyvc.engine import Engine, CallModel, UNK, Unknown, PathEnd, _Unbound, func_ast


class StrLen:
    def __init__(self, n):
        self.n = n


class TextEngine(Engine):
    def ev(self, e):
        if isinstance(e, ast.Constant) and e.value == '':
            return StrLen(0)
        return super().ev(e)

    def binop(self, op, a, b, node=None):
        if isinstance(a, StrLen) and op == '+':
            # `text += char`: char is chr(...) - exactly one character
            return StrLen(a.n + 1)
        return super().binop(op, a, b, node)

    def as_cond(self, v):
        if isinstance(v, StrLen):
            return truth(cmpop('>', v.n, 0))
        return super().as_cond(v)

    def sym_builtin(self, f, name, args, kwargs, node):
        if name == 'len' and len(args) == 1 and isinstance(args[0], StrLen):
            return args[0].n
        return super().sym_builtin(f, name, args, kwargs, node)

    def call(self, f, args, kwargs, node):
        if f is len and len(args) == 1 and isinstance(args[0], StrLen):
            return args[0].n
        if f is chr:
            return UNK
        return super().call(f, args, kwargs, node)

    def getattr(self, obj, attr, node):
        if isinstance(obj, StrLen):
            return CallModel(lambda e, a, k, n: UNK, 'str.' + attr)
        return super().getattr(obj, attr, node)


def check_text_scanners(rep, prop='C14'):
    import skoolkit.snactl as S
    W = poly.W

    # ---- _check_text: appends (t_start, t_end) or nothing
    def start_ct(eng):
        p = eng.path
        p.ts = SV(z3.BitVec('t_start', W), 0, 65535)
        p.te = SV(z3.BitVec('t_end', W), 0, 65536)
        p.appended = []

        def app(e, args, kwargs, n):
            item = args[0]
            ok = isinstance(item, tuple) and len(item) == 2 and item[0] is p.ts and item[1] is p.te
            e.oblige('appends_exactly_the_given_block', ok, n)
            p.appended.append(item)
            return None
        from props.c14 import TrackedSeq
        seq = TrackedSeq(app)
        def word_loop(e, node_):
            # `for word in words: if word in t_lower: break  else: return` - either some word matches (break) or none does (else clause)
            e.fresh_n += 1
            if e.decide(SB(z3.Bool('some_word_matches!%d' % e.fresh_n))):
                return
            e.exec_block(node_.orelse)
        ct_node, _ = func_ast(S._check_text)
        ct_loops = sorted([n_ for n_ in ast.walk(ct_node) if isinstance(n_, (ast.For, ast.While))], key=lambda n_: (n_.lineno, n_.col_offset))
        eng.loop_invariants = {(S._check_text.__qualname__, i): word_loop for i in range(len(ct_loops))}
        eng.call_function(S._check_text, [seq, p.ts, p.te, StrLen(eng.fresh('len', 0, 65536)), UNK, UNK])

    from props.c14 import SeqEngine

    class CTEngine(TextEngine, SeqEngine):
        pass
    e1 = CTEngine(inline_ok=lambda f: False, unknown_ok=True)
    vc = FuncVC(rep, prop, S._check_text, 'skoolkit.snactl._check_text', e1)
    vc.run(start_ct, None, None)

    # ---- _get_text_blocks
    fn = S._get_text_blocks
    node, _ = func_ast(fn)
    loops = sorted([n for n in ast.walk(node) if isinstance(n, (ast.For, ast.While))], key=lambda n: (n.lineno, n.col_offset))
    q = fn.__qualname__

    for data in (True, False):
        def start_tb(eng, data=data):
            p = eng.path
            p.start = SV(z3.BitVec('start', W), 0, 65535)
            p.end = SV(z3.BitVec('end', W), 0, 65536)
            p.facts.extend([p.start.t >= 0, p.start.t <= 65535, p.end.t >= 0, p.end.t <= 65536])
            p.calls = 0

            def check_text_model(e, args, kwargs, n):
                ts, te = args[1], args[2]
                if isinstance(ts, Unknown) or isinstance(te, Unknown):
                    e.oblige('block_in_range', False, n, info='unknown bounds')
                else:
                    e.oblige('block_in_range', and_(cmpop('>=', ts, p.start), cmpop('<', ts, te), cmpop('<=', te, p.end)), n)
                p.calls += 1
                return None
            eng.call_models[id(S._check_text)] = check_text_model

            def scan_loop(e, node_):
                fr = e.frames[-1]
                text0 = fr.loc.get('text')
                e.oblige('inv.establish', isinstance(text0, StrLen) and text0.n == 0, node_)
                L = e.fresh('textlen', 0, 65536)
                ts = e.fresh('t_start', 0, 65535)
                e.fresh_n += 1
                more = SB(z3.Bool('iterate!%d' % e.fresh_n))
                if e.decide(more):
                    address = e.fresh('address', 0, 65535)
                    e.assume(and_(cmpop('>=', address, p.start), cmpop('<', address, p.end)))
                    e.assume(or_(cmpop('==', L, 0), and_(cmpop('>=', ts, p.start), cmpop('<', ts, address))))
                    fr.loc['text'] = StrLen(L)
                    fr.loc['t_start'] = _Unbound('t_start', cmpop('==', L, 0), ts)
                    e.assign(node_.target, address)
                    e.exec_block(node_.body)
                    t2 = fr.loc.get('text')
                    ts2 = fr.loc.get('t_start')
                    if not isinstance(t2, StrLen):
                        e.oblige('inv.preserve', False, node_, info='text is no longer a string built by += char')
                        raise PathEnd()
                    if isinstance(ts2, _Unbound):
                        bound = not_(ts2.when)
                        val = ts2.value
                    else:
                        bound, val = True, ts2
                    e.oblige('inv.preserve', or_(cmpop('==', t2.n, 0), and_(bound, cmpop('>=', val, p.start), cmpop('<', val, address + 1))), node_)
                    raise PathEnd()
                # exit: the invariant at address == end (or no iteration at all: text == '')
                e.assume(or_(cmpop('==', L, 0), and_(cmpop('>=', ts, p.start), cmpop('<', ts, p.end))))
                fr.loc['text'] = StrLen(L)
                fr.loc['t_start'] = _Unbound('t_start', cmpop('==', L, 0), ts)
            eng.loop_invariants = {(q, loops.index(l)): scan_loop for l in loops}
            cfg = UNK
            p.ret = eng.call_function(fn, [UNK, p.start, p.end, cfg, data])

        e2 = CTEngine(inline_ok=lambda f: False, unknown_ok=True)
        FuncVC(rep, prop, fn, 'skoolkit.snactl._get_text_blocks[data=%s]' % data, e2).run(start_tb, None, replay_text_blocks)


def replay_text_blocks(vals, kind):
    import random
    import skoolkit.snactl as S
    from props.c14 import _Cfg
    rnd = random.Random(3)
    for t in range(300):
        start = rnd.choice((vals.get('start', 0), rnd.randrange(0, 65000)))
        end = min(65536, start + rnd.randrange(0, 60))
        snap = [rnd.choice((0, 65, 66, 32, 200, 13)) for _ in range(65536)] if t % 50 == 0 else None
        if snap is None:
            snap = replay_text_blocks.snap
        else:
            replay_text_blocks.snap = snap
        for data in (True, False):
            try:
                blocks = S._get_text_blocks(snap, start, end, _Cfg(), data)
            except Exception as ex:
                return {'case': {'start': start, 'end': end, 'data': data}, 'diffs': [('exception', repr(ex)[:200], 'none')]}
            bad = [b for b in blocks if not (start <= b[0] < b[1] <= end)]
            if bad:
                return {'case': {'start': start, 'end': end, 'data': data}, 'diffs': [('text block outside the requested range', bad[:3], (start, end))]}
    return {'case': {}, 'diffs': []}
