"""Generic harness: verify one real function (not a dispatch slot) against a
sidecar contract.

    vc = FuncVC(rep, 'C08', fn)
    vc.run(start, post)

start(engine) builds the symbolic arguments/models and executes the function
(engine.call_function(fn, args)); it must leave what `post` needs on
engine.path (attributes).  post(path, prove) is called for every reachable path
and states the contract's postconditions: prove(kind, cond).
All safety obligations the engine emitted along the path are discharged too.
"""
import time
import traceback

import z3

from pyvc import poly
from pyvc.poly import SB, Refuse, truth
from pyvc.engine import Engine
from pyvc.solve import discharge, feasible


class FuncVC:
    def __init__(self, rep, prop, fn, name=None, engine=None, pre=None, own_kinds=None):
        self.rep = rep
        self.prop = prop
        self.fn = fn
        self.name = name or '%s.%s' % (fn.__module__, fn.__qualname__)
        self.engine = engine or Engine()
        self.pre = pre or (lambda path: [])
        self.own_kinds = own_kinds   # None: all safety kinds are reported
        self.failed = []             # (oid, kind, model, path)
        self.refused = None
        self.paths = 0
        self.covers = 0

    def run(self, start, post=None, replayer=None):
        ok = self._run(start, post)
        self.report_failures(replayer)
        return ok

    def report_failures(self, replayer):
        """Failed obligations -> violations: the solver's model is replayed on the
        real function by `replayer(values, kind) -> {'case':..., 'diffs': [...]}`."""
        rep = self.rep
        seen = set()
        for oid, kind, model, st, info in self.failed:
            key = '%s/%s/%s' % (self.prop, self.name, kind.split('@')[0])
            if key in seen:
                continue
            seen.add(key)
            vals = model_values(model) if model is not None else {}
            if replayer is None:
                rep.violation(key, 'obligation %s fails (%s); solver model: %s' % (oid, info, vals),
                              {'obligation': oid, 'solver_model': vals, 'solver_output': 'sat'}, no_input=True)
                continue
            try:
                r = replayer(vals, kind)
            except Exception:
                r = {'case': vals, 'diffs': [], 'error': traceback.format_exc()[-600:]}
            if r.get('diffs'):
                rep.violation(key, 'obligation %s fails; counterexample replayed on the real function: %s' % (oid, r['diffs'][:3]),
                              {'obligation': oid, 'case': r.get('case'), 'observed_vs_expected': r['diffs'], 'solver_model': vals,
                               'function': self.name})
            else:
                rep.errors.append('counterexample for %s does not replay on the real code (%s)' % (oid, r.get('error') or vals))

    def _run(self, start, post=None):
        rep = self.rep
        try:
            paths = self.engine.explore(start)
        except Refuse as ex:
            self.refused = str(ex)
            rep.downgraded.append({'function': self.name, 'reason': self.refused})
            return False
        except poly.Overflow as ex:
            self.refused = 'overflow: %s' % ex
            rep.downgraded.append({'function': self.name, 'reason': self.refused})
            return False
        self.paths = len(paths)
        for pi, st in enumerate(paths):
            pre = list(self.pre(st))
            facts = list(st.facts)
            defs = list(st.defs)
            if feasible(pre, facts, st.pc) == 'unsat':
                continue
            self.covers += 1
            tag = 'p%d' % pi

            def prove(kind, cond, pc=None, info=None, st=st, pre=pre, facts=facts, defs=defs, tag=tag):
                if not isinstance(cond, (bool, SB)):
                    cond = truth(cond)
                status, backend, dt, model = discharge(pre, facts, st.pc if pc is None else pc, cond, defs)
                if status == 'unknown':
                    # one more attempt with 4x the budgets (verdicts must not flip because the machine is busy)
                    from pyvc import solve
                    status, backend, dt2, model = discharge(pre, facts, st.pc if pc is None else pc, cond, defs, 4 * solve.Z3_TIMEOUT_MS)
                    dt += dt2
                oid = '%s/%s/%s@%s' % (self.prop, self.name, kind, tag)
                rep.add(oid, status, backend, dt, self.name)
                if backend.startswith(('z3', 'cvc5')) and status == 'proved':
                    rep.sample({'id': oid, 'result': 'unsat', 'backend': backend, 'seconds': round(dt, 4)})
                if status == 'failed':
                    self.failed.append((oid, kind, model, st, info))
                return status

            for ob in st.obligations:
                if self.own_kinds is not None and ob.kind not in self.own_kinds:
                    continue
                prove('%s#%s' % (ob.kind, ob.site), ob.cond, ob.pc, ob.info)
            if st.cut:
                continue
            if post is not None:
                oldc = poly.set_collectors(facts, defs)
                try:
                    post(st, prove)
                finally:
                    poly.set_collectors(*oldc)
        rep.vacuity['paths'] = rep.vacuity.get('paths', 0) + self.paths
        rep.vacuity['paths_reachable_under_pre'] = rep.vacuity.get('paths_reachable_under_pre', 0) + self.covers
        if self.covers == 0:
            rep.errors.append('%s: no reachable path under the precondition (vacuous contract)' % self.name)
        return True


def model_values(model):
    out = {}
    for d in model.decls():
        if d.arity() != 0:
            continue
        v = model[d]
        try:
            n = v.as_long()
            if n >= 1 << (poly.W - 1):
                n -= 1 << poly.W
            out[d.name()] = n
        except Exception:
            pass
    return out


def model_int(model, t):
    v = model.eval(t, model_completion=True)
    n = v.as_long()
    if n >= 1 << (poly.W - 1):
        n -= 1 << poly.W
    return n
