"""E back end for the table contracts (contracts/tables.py): complete
enumeration of every entry of every table, in parallel."""
import time
from multiprocessing import Pool

from contracts import tables
from props import common


def _chunk(a):
    k, lo, hi = a
    t0 = time.time()
    n, bad = tables.check_table(k, lo, hi)
    return k, n, bad, time.time() - t0


def check_tables(rep, names=None, label='table'):
    """Adds one `table` obligation per entry; returns list of mismatches."""
    tasks = []
    for k, (mod, name, dims, fn) in enumerate(tables.TABLES):
        if names is not None and name not in names:
            continue
        step = max(1, dims[0] // 8) if len(dims) > 1 or dims[0] > 4096 else dims[0]
        for lo in range(0, dims[0], step):
            tasks.append((k, lo, lo + step))
    with Pool(common.NCPU) as p:
        res = p.map(_chunk, tasks)
    per = {}
    bad_all = []
    for k, n, bad, dt in res:
        mod, name, dims, fn = tables.TABLES[k]
        e = per.setdefault(k, [0, 0.0, []])
        e[0] += n
        e[1] += dt
        e[2].extend(bad)
    for k, (n, dt, bad) in sorted(per.items()):
        mod, name, dims, fn = tables.TABLES[k]
        full = 1
        for d in dims:
            full *= d
        ok = n - len(bad) if not bad else 0
        rep.add_bulk(n if not bad else 0, 'exhaustive', dt, '%s.%s' % (mod, name), n=max(n, 1))
        rep.exhaustive.append({'domain': '%s.%s%s' % (mod, name, list(dims)), 'size': full, 'visited': n, 'complete': n == full and not bad})
        for b in bad:
            bad_all.append((mod, name, b))
    return bad_all
