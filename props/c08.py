"""C08 - Simulated code cannot corrupt ROM, break register ranges or mis-page 128K RAM."""
import json

from props import common, simrun, simprops, tablecheck

TRUSTED = [
    'pyvc (own AST->SMT verification-condition generator; encoding table in DESIGN.md 2.1)',
    'z3 5.1 (QF_AUFBV), cvc5 1.0.3 for z3 unknowns',
    'CPython 3.11 generates VCs / 3.12 runs skoolkit: same semantics assumed for the subset',
    'contracts/z80spec.py (hand-written ISA oracle) for the table contracts',
]
ASSUME = [
    'Python ints encoded as 40-bit signed bit-vectors; every + - * whose interval could leave the range carries a no_overflow obligation; residual precondition T < 2**38',
    'precondition wf(state): 8-bit registers in 0..255, SP/PC/MEMPTR in 0..65535, registers[13] == 0, IFF and HALT in {0,1}, IM in {0,1,2}, memory cells in 0..255',
    'tracer callbacks (read_port/write_port): assumed to return a byte and not to write registers or memory',
    'termination is not proved',
    'c/csimulator.c is outside the reach of any installed verifier: bounded differential only (see C06)',
]


def diff_select(name):
    return name in ('rom_guard', 'byte_range', 't_mono', 'exception', 'reg_count') or name.startswith('reg_range')


def run(tier):
    rep = common.Report('C08', tier, 'proof', './check C08 --tier %s' % tier)
    for t in TRUSTED:
        rep.trust(t)
    for a in ASSUME:
        rep.assume(a)
    out = simrun.run_all(nx=4 if tier == 'quick' else 40)
    simprops.gather(rep, out, lambda kind, cmio: simprops.is_safety(kind), diff_select, 'C08')
    # table shapes back the tab_idx obligations
    bad = tablecheck.check_tables(rep)
    for mod, name, b in bad:
        rep.violation('C08/table/%s.%s' % (mod, name), 'table entry %s: real %s, contract %s' % (b[1], b[2], b[3]),
                      {'table': '%s.%s' % (mod, name), 'index': b[1], 'real': b[2], 'contract': b[3]})
    from props import paging, simfuncs
    import skoolkit.pagingtracer as pt
    import skoolkit.skoolutils as su
    vcs = []
    paging.check_memory_class(rep, 'C08', pt.Memory, 'skoolkit.pagingtracer.Memory')
    paging.check_pagingtracer_memory_init(rep, 'C08')
    paging.check_memory_class(rep, 'C08', su.Memory, 'skoolkit.skoolutils.Memory')
    paging.check_memory_bank(rep, 'C08')            # @bank: the data lands in the bank that is mapped, the invariant survives
    paging.check_memory_copy(rep, 'C08')            # a copied 128K memory is paged the way its o7ffd says, whatever the banks hold
    for label, fn, via, cls in paging.write_port_targets():
        for is128 in (True, False):
            if via == 'memory' and not is128:
                continue
            paging.check_write_port(rep, 'C08', label, fn, via, cls, is128)
    simfuncs.check_accept_interrupt(rep, 'C08', safety_only=True)
    simfuncs.check_wf_establishment(rep, 'C08')
    simfuncs.report_failures(rep, 'C08')
    rep.extra['explanation'] = ('safety obligations (ROM guard, byte/register ranges, index bounds, T monotone, no overflow) generated at every '
                               'store/lookup site on every path of every dispatch slot of Simulator and CMIOSimulator (48K list memory and 128K Memory), '
                               'paging invariants of pagingtracer.Memory / skoolutils.Memory and of all six 0x7FFD port decoders; all for symbolic states')
    return rep.finish()


def replay(path):
    import json
    with open(path) as f:
        doc = json.load(f)
    case = doc.get('case') or {}
    if isinstance(case, dict) and ('memory_copy' in case or 'memory_bank' in case):
        from props import paging
        bad = paging.replay_memory_copy()
        print('replaying', doc.get('key'), [b[1] for b in bad][:3])
        if bad:
            print('VIOLATION property=C08 replay=%s' % path)
            return 1
        return 0
    return simprops.replay_case(path)
