"""C13: the tape-edge bookkeeping statement of LoadTracer.run under contract.

Slice (located by its guard `state[4] and tstates >= state[0]` in the real function
on every run): after each instruction the edge index state[1] is advanced over every
edge that lies strictly before the current time.

Contract (edges: any array of times, index0 = state[1] on entry, 0 <= index0 <= max_index):
  * on exit state[1] = i with index0 <= i <= max_index,
  * every skipped edge is in the past: for all k, index0 < k <= i => edges[k] < tstates
    (stated for one arbitrary k: Skolem constant),
  * i is maximal: i == max_index or edges[i + 1] >= tstates,
  * when the tape goes on inside the same block (not the final edge, i <= state[3]),
    state[0] becomes edges[i + 1] - the time _read_port compares T against - so
    `registers[25] > state[0]` in _read_port and `edges[index + 1] < tstates` here
    apply the same strict comparison to the same edge;
  * stop_tape / next_block are called only in the two other cases.
"""
import ast

import z3

from props.funcvc import FuncVC
from pyvc import poly
from pyvc.poly import SV, SB, ite, and_, or_, not_, sv, cmpop, truth
from pyvc.engine import Engine, ObjModel, SymList, SymMem, UNK, PathEnd, func_ast, CallModel, _Break


class EdgeEngine(Engine):
    """`edges` holds T-state counts, not bytes."""

    def mem_load(self, mem, a, node):
        if mem.name == 'edges':
            a = sv(a)
            self.oblige('idx', and_(a >= 0, a < mem.size), node)
            t = z3.Select(mem.arr, a.t)
            self.path.facts.append(z3.And(t >= 0, t <= (1 << 36)))
            return SV(t, 0, 1 << 36)
        return super().mem_load(mem, a, node)


def edge_slice():
    import skoolkit.loadtracer as LT
    node, _ = func_ast(LT.LoadTracer.run)
    found = [n for n in ast.walk(node) if isinstance(n, ast.If) and ast.unparse(n.test).replace(' ', '') == 'state[4]andtstates>=state[0]']
    if len(found) != 1:
        raise LookupError('LoadTracer.run: edge bookkeeping statement not found')
    loops = [n for n in ast.walk(found[0]) if isinstance(n, ast.While)]
    if len(loops) != 1:
        raise LookupError('LoadTracer.run: expected one while loop in the edge bookkeeping statement')
    all_loops = sorted([n for n in ast.walk(node) if isinstance(n, (ast.For, ast.While))], key=lambda n: (n.lineno, n.col_offset))
    return found, all_loops.index(loops[0])


def check_edge_bookkeeping(rep, prop='C13'):
    import skoolkit.loadtracer as LT
    W = poly.W
    stmts, loop_ix = edge_slice()
    q = LT.LoadTracer.run.__qualname__
    name = 'skoolkit.loadtracer.LoadTracer.run[edge bookkeeping]'
    BIG = 1 << 36

    def start(eng):
        p = eng.path
        p.t = SV(z3.BitVec('tstates', W), 0, BIG)
        p.maxi = SV(z3.BitVec('max_index', W), 0, 1 << 24)
        p.i0 = SV(z3.BitVec('index0', W), 0, 1 << 24)
        p.s0 = SV(z3.BitVec('next_edge_t', W), 0, BIG)
        p.s3 = SV(z3.BitVec('block_end_index', W), 0, 1 << 24)
        p.s4 = SV(z3.BitVec('tape_running', W), 0, 1)
        p.k = SV(z3.BitVec('k_any', W), 0, 1 << 24)
        for x in (p.t, p.maxi, p.i0, p.s0, p.s3, p.s4, p.k):
            p.facts.append(z3.And(x.t >= x.lo, x.t <= x.hi))
        p.facts.append(p.i0.t <= p.maxi.t)
        p.edges = SymMem('edges', size=p.maxi + 1)
        state = [p.s0, p.i0, UNK, p.s3, p.s4, UNK, UNK, UNK, UNK, UNK]
        p.state = SymList(list(state), 'state')
        p.called = []
        me = ObjModel(None, name='tracer', cls=LT.LoadTracer)
        me.attrs['state'] = p.state
        me.attrs['keys'] = UNK
        me.attrs['stop_tape'] = CallModel(lambda e, a, k, n: p.called.append('stop_tape'), 'stop_tape')
        me.attrs['next_block'] = CallModel(lambda e, a, k, n: p.called.append('next_block'), 'next_block')

        def edge(i):
            return SV(z3.Select(p.edges.arr0, sv(i).t), 0, BIG)

        def loop(e, node_):
            fr = e.frames[-1]
            e.oblige('inv.establish', cmpop('==', fr.loc['index'], p.i0), node_)
            i = e.fresh('index', 0, 1 << 24)
            e.assume(and_(cmpop('>=', i, p.i0), cmpop('<=', i, p.maxi)))
            e.assume(or_(not_(and_(cmpop('>', p.k, p.i0), cmpop('<=', p.k, i))), cmpop('<', edge(p.k), p.t)))
            fr.loc['index'] = i
            e.fresh_n += 1
            if e.decide(SB(z3.Bool('iterate!%d' % e.fresh_n))):
                e.assume(truth(e.ev_cond(node_.test)))
                e.exec_block(node_.body)
                i2 = fr.loc['index']
                e.oblige('inv.preserve.bounds', and_(cmpop('>=', i2, p.i0), cmpop('<=', i2, p.maxi)), node_)
                e.oblige('inv.preserve.skipped_edges_in_the_past', or_(not_(and_(cmpop('>', p.k, p.i0), cmpop('<=', p.k, i2))), cmpop('<', edge(p.k), p.t)), node_)
                raise PathEnd()
            e.assume(not_(truth(e.ev_cond(node_.test))))
            p.ghost = i
        eng.loop_invariants = {(q, loop_ix): loop}
        p.locs = {'self': me, 'state': p.state, 'tstates': p.t, 'edges': p.edges, 'max_index': p.maxi, 'progress': 0, 'tape_length': 1000,
                  'write': CallModel(lambda e, a, k, n: None, 'write'), 'stop_cond': None}
        try:
            eng.run_stmts(LT.LoadTracer.run, stmts, p.locs)
            p.broke = False
        except _Break:
            p.broke = True

    def post(p, prove):
        st = p.state.items
        if not hasattr(p, 'ghost'):
            # guard false: nothing happens
            prove('post.untouched.index', st[1] is p.i0)
            prove('post.untouched.next_edge', st[0] is p.s0)
            prove('post.no_call', not p.called)
            return
        i = p.ghost
        edge_next = SV(z3.Select(p.edges.arr0, sv(i + 1).t), 0, BIG)
        prove('post.index', cmpop('==', st[1], i))
        prove('post.maximal', or_(cmpop('==', i, p.maxi), cmpop('>=', edge_next, p.t)))
        final = cmpop('==', i, p.maxi)
        nextb = and_(not_(final), cmpop('>', i, p.s3))
        if 'stop_tape' in p.called:
            prove('post.stop_tape_only_at_the_final_edge', final)
        if 'next_block' in p.called:
            prove('post.next_block_only_beyond_the_block_end', nextb)
        if not p.called:
            # same block, or the final edge still within its 1 ms grace period
            prove('post.next_edge_time', or_(final, nextb, cmpop('==', st[0], edge_next)))
            prove('post.next_edge_time_unchanged_at_final_edge', or_(not_(final), st[0] is p.s0))

    eng = EdgeEngine(inline_ok=lambda f: False, unknown_ok=True)
    FuncVC(rep, prop, LT.LoadTracer.run, name, eng, own_kinds=None).run(start, post, None)
    rep.assume('edge bookkeeping: 0 <= state[1] <= max_index on entry and edges has max_index + 1 entries (established by get_edges - not under VC - and by next_block: its contract, props/fastloadvc.py, puts the tape on the edge after the skipped block, which lies inside the edge list)')


def check_fast_load_bookkeeping(rep, prop='C13'):
    """The statement of LoadTracer.run that follows a successful fast load (located by its guard): the tape position
    becomes the last edge of the block just loaded; if that is the final edge of the tape the tape is stopped, otherwise it
    keeps running and both the clock and the next-edge time are set to that edge."""
    import skoolkit.loadtracer as LT
    W = poly.W
    node, _ = func_ast(LT.LoadTracer.run)
    found = [n for n in ast.walk(node) if isinstance(n, ast.If) and 'self.fast_load(simulator)' in ast.unparse(n.test) and '0x0556' in ast.unparse(n.test).lower().replace('1366', '0x0556')]
    if len(found) != 1:
        found = [n for n in ast.walk(node) if isinstance(n, ast.If) and 'self.fast_load(simulator)' in ast.unparse(n.test)]
    if len(found) != 1:
        rep.downgraded.append({'function': 'skoolkit.loadtracer.LoadTracer.run[after fast load]', 'reason': 'statement not found'})
        return
    stmts = found[0].body
    name = 'skoolkit.loadtracer.LoadTracer.run[after fast load]'
    BIG = 1 << 36

    def start(eng):
        p = eng.path
        p.maxi = SV(z3.BitVec('max_index', W), 0, 1 << 24)
        p.s3 = SV(z3.BitVec('block_end_index', W), 0, 1 << 24)
        p.t = SV(z3.BitVec('tstates', W), 0, BIG)
        for x in (p.maxi, p.s3, p.t):
            p.facts.append(z3.And(x.t >= x.lo, x.t <= x.hi))
        p.facts.append(p.s3.t <= p.maxi.t)
        p.edges = SymMem('edges', size=p.maxi + 1)
        regs = [SV(z3.BitVec('r%d' % i, W), 0, BIG) for i in range(30)]
        for r in regs:
            p.facts.append(z3.And(r.t >= 0, r.t <= BIG))
        p.regs0 = list(regs)
        p.reglist = SymList(regs, 'registers')
        p.state0 = [SV(z3.BitVec('state%d' % i, W), 0, BIG) for i in range(10)]
        for x in p.state0:
            p.facts.append(z3.And(x.t >= 0, x.t <= BIG))
        p.state0[3] = p.s3
        p.state = SymList(list(p.state0), 'state')
        p.called = []
        me = ObjModel(None, name='tracer', cls=LT.LoadTracer)
        me.attrs['state'] = p.state
        me.attrs['stop_tape'] = CallModel(lambda e, a, k, n: p.called.append('stop_tape'), 'stop_tape')
        p.locs = {'self': me, 'state': p.state, 'registers': p.reglist, 'edges': p.edges, 'max_index': p.maxi, 'tstates': p.t,
                  'frame_duration': 69888, 'int_active': 32, 'simulator': UNK, 'pc': 0x0556}
        eng.run_stmts(LT.LoadTracer.run, stmts, p.locs)

    def post(p, prove):
        st = p.state.items
        prove('post.position_is_the_last_edge_of_the_block', cmpop('==', st[1], p.s3))
        last = cmpop('==', p.s3, p.maxi)
        edge = SV(z3.Select(p.edges.arr0, sv(p.s3).t), 0, BIG)
        if 'stop_tape' in p.called:
            prove('post.stop_tape_only_after_the_final_block', last)
            prove('post.clock_untouched', p.reglist.items[25] is p.regs0[25])
        else:
            prove('post.not_final', not_(last))
            prove('post.tape_running', cmpop('==', st[4], 1))
            prove('post.clock_at_that_edge', cmpop('==', p.reglist.items[25], edge))
            prove('post.next_edge_time_is_that_edge', cmpop('==', st[0], edge))
            # the clock has been moved (possibly backwards): the time of the next frame interrupt is recomputed from the new clock
            prove('post.next_interrupt_follows_the_new_clock', cmpop('==', st[8], ((edge + 69888 - 32) // 69888) * 69888))
        for i in range(30):
            if i != 25:
                prove('frame.registers[%d]' % i, p.reglist.items[i] is p.regs0[i])
    eng = EdgeEngine(inline_ok=lambda f: False, unknown_ok=True)
    FuncVC(rep, prop, LT.LoadTracer.run, name, eng).run(start, post, None)
