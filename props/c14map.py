"""C14: the block-building loop of snactl.read_map under contract.

Slice of the real function, re-read on every run: from `code_blocks = []` to the
`return code_blocks` (the file-format branches that produce `addresses` are not
part of it; their contract - a strictly increasing list of addresses inside
[start, end) - is what _get_addresses' own `start <= address < end` filter and
sorted(set) give, and is assumed here).

Contract (ghost state: the last block (la, ls)):
  * blocks are appended in strictly increasing, non-overlapping, non-adjacent
    order: a new block starts beyond the end of the previous one;
  * every address of the map lies inside the last block when its iteration ends
    (so every executed address is inside some block);
  * every block starts at an address of the map (hence inside [start, end)) and
    has length >= 1.
decode() is used through its proved contract (first address == the one asked
for, 1 <= size <= 4).
"""
import ast

import z3

from props.funcvc import FuncVC
from pyvc import poly
from pyvc.poly import SV, SB, ite, and_, or_, not_, sv, cmpop, truth
from pyvc.engine import Engine, CallModel, UNK, Unknown, PathEnd, SymList, func_ast, _Break, _Continue


class BlockList:
    """code_blocks: only the last block [la, ls] is tracked (ghost), plus emptiness."""

    def __init__(self):
        self.nonempty = False
        self.last = None


class MapEngine(Engine):
    def exec_for(self, s):
        key = self.loop_key(s)
        if key in self.loop_invariants:
            return self.loop_invariants[key](self, s)
        return super().exec_for(s)

    def ev(self, e):
        if isinstance(e, ast.List) and not e.elts and getattr(self, 'blocklist', None) is not None and not getattr(self, 'blocklist_made', False):
            self.blocklist_made = True
            return self.blocklist
        return super().ev(e)

    def as_cond(self, v):
        if isinstance(v, BlockList):
            return truth(v.nonempty)
        return super().as_cond(v)

    def getitem(self, base, idx, node):
        if isinstance(base, BlockList):
            if idx == -1:
                self.oblige('last_block_exists', base.nonempty, node)
                return base.last
            raise poly.Refuse('code_blocks[%r]' % (idx,))
        return super().getitem(base, idx, node)

    def getattr(self, obj, attr, node):
        if isinstance(obj, BlockList) and attr == 'append':
            return CallModel(self.on_append, 'append')
        return super().getattr(obj, attr, node)

    def sym_builtin(self, f, name, args, kwargs, node):
        if name == 'sum' and len(args) == 1 and isinstance(args[0], SymList) and len(args[0].items) == 2:
            return args[0].items[0] + args[0].items[1]
        if name == 'next' and len(args) == 1 and isinstance(args[0], tuple) and args[0] and args[0][0] == 'decoded':
            return args[0][1]
        return super().sym_builtin(f, name, args, kwargs, node)

    def call(self, f, args, kwargs, node):
        if f is next and len(args) == 1 and isinstance(args[0], tuple) and args[0] and args[0][0] == 'decoded':
            return args[0][1]
        return super().call(f, args, kwargs, node)


def map_slice(fn):
    node, _ = func_ast(fn)
    out = None
    for s in node.body:
        if out is not None:
            out.append(s)
        elif isinstance(s, ast.Assign) and ast.unparse(s).replace(' ', '') == 'code_blocks=[]':
            out = [s]
    if not out:
        raise LookupError('`code_blocks = []` not found in read_map')
    loops = [n for s in out for n in ast.walk(s) if isinstance(n, (ast.For, ast.While))]
    if len(loops) != 1:
        raise LookupError('read_map: expected one loop after `code_blocks = []`')
    all_loops = sorted([n for n in ast.walk(node) if isinstance(n, (ast.For, ast.While))], key=lambda n: (n.lineno, n.col_offset))
    return out, all_loops.index(loops[0])


def check_read_map(rep, prop='C14'):
    import skoolkit.snactl as S
    W = poly.W
    fn = S.read_map
    stmts, loop_ix = map_slice(fn)
    q = fn.__qualname__
    name = 'skoolkit.snactl.read_map[block building]'

    def start(eng):
        p = eng.path
        p.start = SV(z3.BitVec('start', W), 0, 65535)
        p.end = SV(z3.BitVec('end', W), 1, 65536)
        p.facts.extend([p.start.t >= 0, p.start.t < p.end.t, p.end.t <= 65536])
        bl = BlockList()
        eng.blocklist = bl
        eng.blocklist_made = False
        p.bl = bl

        def on_append(e, args, kwargs, n):
            item = args[0]
            items = item.items if isinstance(item, SymList) else item
            ok_shape = isinstance(items, (list, tuple)) and len(items) == 2 and all(isinstance(x, (int, SV)) for x in items)
            e.oblige('block_shape', ok_shape, n)
            if not ok_shape:
                raise PathEnd()
            a, sz = items
            e.oblige('block_starts_at_a_map_address', cmpop('==', a, p.cur) if getattr(p, 'cur', None) is not None else False, n)
            e.oblige('block_length_positive', cmpop('>=', sz, 1), n)
            if truth(bl.nonempty) is not False:
                la, ls = bl.last.items
                e.oblige('blocks_increasing_and_disjoint', or_(not_(bl.nonempty), cmpop('>', a, la + ls)), n)
            bl.nonempty = True
            bl.last = SymList([a, sz], 'block')
            return None
        eng.on_append = on_append

        def decode_model(e, args, kwargs, n):
            a = args[1]
            return ('decoded', (a, e.fresh('size', 1, 4), UNK, UNK, UNK, None))
        eng.call_models[id(S.decode)] = decode_model

        def addr_loop(e, node_):
            """for address in addresses: strictly increasing addresses in [start, end).
            Invariant: code_blocks is empty before the first address; afterwards the previous address lies in the last block."""
            e.oblige('inv.establish', truth(bl.nonempty) is False, node_)
            e.fresh_n += 1
            if e.decide(SB(z3.Bool('iterate!%d' % e.fresh_n))):
                address = e.fresh('address', 0, 65535)
                e.assume(and_(cmpop('>=', address, p.start), cmpop('<', address, p.end)))
                e.fresh_n += 1
                first = SB(z3.Bool('first_address!%d' % e.fresh_n))
                if e.decide(first):
                    bl.nonempty = False
                    bl.last = None
                else:
                    la = e.fresh('last_start', 0, 65535)
                    ls = e.fresh('last_len', 1, 1 << 17)
                    prev = e.fresh('prev_address', 0, 65535)
                    e.assume(and_(cmpop('>=', la, p.start), cmpop('<=', la, prev), cmpop('<', prev, la + ls), cmpop('<', prev, address)))
                    bl.nonempty = True
                    bl.last = SymList([la, ls], 'block')
                p.cur = address
                e.assign(node_.target, address)
                try:
                    e.exec_block(node_.body)
                except (_Break, _Continue):
                    pass
                e.oblige('inv.preserve.nonempty', bl.nonempty, node_)
                if truth(bl.nonempty) is not False and bl.last is not None:
                    la2, ls2 = bl.last.items
                    e.oblige('inv.preserve.address_in_last_block', and_(cmpop('>=', la2, p.start), cmpop('<=', la2, address), cmpop('<', address, la2 + ls2)), node_)
                raise PathEnd()
            p.cur = None
        eng.loop_invariants = {(q, loop_ix): addr_loop}
        p.locs = {'snapshot': UNK, 'start': p.start, 'end': p.end, 'addresses': UNK, 'fname': 'map'}
        p.ret = eng.run_stmts(fn, stmts, p.locs)

    def post(p, prove):
        if hasattr(p, 'ret'):
            prove('post.returns_the_block_list', p.ret is p.bl)

    eng = MapEngine(inline_ok=lambda f: False, unknown_ok=True)
    FuncVC(rep, prop, fn, name, eng).run(start, post, replay_read_map)
    check_map_readers(rep, prop)


# ---------------------------------------------------------------------------------------------------------------------
# The producers of `addresses` (the three file-format readers): the contract the block-building loop above relies on.
# Site obligations over the readers' own ASTs, re-read on every run:
#   in_range   every addresses.append(X) / addresses.add(X) is dominated by conditions that imply start <= X < end
#              (enclosing `if` tests and `for X in range(a, b)` headers, with no store to the names involved between
#              the condition and the call); discharged by z3 over mathematical integers, start/end/X unconstrained;
#   increasing the list handed over is strictly increasing: sorted(<set>) for _get_addresses; the range() loop target
#              for the SpecEmu reader; a variable stepped by a positive constant once per iteration for the Z80 reader;
#   no_other   `addresses` has no other writer (any other method call or store is refused).
def _z3_of(e, env, opaque):
    if isinstance(e, ast.Name):
        return env.setdefault(e.id, z3.Int(e.id))
    if isinstance(e, ast.Constant) and isinstance(e.value, int) and not isinstance(e.value, bool):
        return z3.IntVal(e.value)
    if isinstance(e, ast.Compare):
        ops = {ast.Lt: lambda a, b: a < b, ast.LtE: lambda a, b: a <= b, ast.Gt: lambda a, b: a > b, ast.GtE: lambda a, b: a >= b,
               ast.Eq: lambda a, b: a == b, ast.NotEq: lambda a, b: a != b}
        terms = [e.left] + list(e.comparators)
        if all(type(o) in ops for o in e.ops) and all(isinstance(t, (ast.Name, ast.Constant)) and (isinstance(t, ast.Name) or (isinstance(t.value, int) and not isinstance(t.value, bool))) for t in terms):
            zs = [_z3_of(t, env, opaque) for t in terms]
            return z3.And([ops[type(o)](a, b) for o, a, b in zip(e.ops, zs, zs[1:])])
    if isinstance(e, ast.BoolOp):
        parts = [_z3_of(v, env, opaque) for v in e.values]
        if all(z3.is_bool(x) for x in parts):
            return z3.And(parts) if isinstance(e.op, ast.And) else z3.Or(parts)
    if isinstance(e, ast.UnaryOp) and isinstance(e.op, ast.Not):
        x = _z3_of(e.operand, env, opaque)
        if z3.is_bool(x):
            return z3.Not(x)
    # anything else: an uninterpreted truth value, identified by its text
    return opaque.setdefault(ast.unparse(e), z3.Bool('opaque!%d' % len(opaque)))


def _stores(node):
    out = set()
    for n in ast.walk(node):
        if isinstance(n, ast.Name) and isinstance(n.ctx, (ast.Store, ast.Del)):
            out.add(n.id)
    return out


def _names(node):
    return {n.id for n in ast.walk(node) if isinstance(n, ast.Name)}


def _site_guards(fnode, call):
    """Conditions that hold at `call`: walk from the function body down to the call, collecting `if` tests (negated on
    the else side), `for X in range(a, b)` facts, and the negation of the tests of earlier `if ...: raise/return/continue/break`
    statements in the same block; a condition is dropped when a name it mentions is stored between it and the call."""
    guards = []      # (z3-able ast or ('range', target, a, b) or ('not', ast))

    def kill(stored):
        guards[:] = [g for g in guards if not (g[1] & stored)]

    def descend(stmts):
        for s in stmts:
            inside = any(n is call for n in ast.walk(s))
            if not inside:
                # a statement that is passed on the way: it may leave early (then its test is false afterwards) and may store names
                stored = _stores(s)
                kill(stored)
                if isinstance(s, ast.If) and not s.orelse and s.body and isinstance(s.body[-1], (ast.Raise, ast.Return, ast.Continue, ast.Break)) and not (_names(s.test) & stored):
                    guards.append((('not', s.test), _names(s.test)))
                continue
            if isinstance(s, ast.If):
                in_body = any(n is call for b in s.body for n in ast.walk(b))
                guards.append(((('pos', s.test) if in_body else ('not', s.test)), _names(s.test)))
                return descend(s.body if in_body else s.orelse)
            if isinstance(s, ast.For):
                if any(n is call for b in s.orelse for n in ast.walk(b)):
                    return descend(s.orelse)
                body_stores = set().union(*[_stores(b) for b in s.body]) if s.body else set()
                kill(body_stores | _stores(s.target))      # loop-carried stores invalidate outer conditions
                it = s.iter
                if (isinstance(s.target, ast.Name) and isinstance(it, ast.Call) and isinstance(it.func, ast.Name) and it.func.id == 'range'
                        and len(it.args) == 2 and not it.keywords and s.target.id not in body_stores
                        and not (_names(it) & (body_stores | {s.target.id}))):
                    guards.append((('range', s.target, it.args[0], it.args[1]), _names(it) | {s.target.id}))
                return descend(s.body)
            if isinstance(s, ast.While):
                body_stores = set().union(*[_stores(b) for b in s.body]) if s.body else set()
                kill(body_stores)
                return descend(s.body)
            if isinstance(s, (ast.With, ast.Try)):
                kill(_stores(s) - set().union(*[_stores(b) for b in s.body]))
                if isinstance(s, ast.With):
                    for it in s.items:
                        if it.optional_vars is not None:
                            kill(_stores(it.optional_vars))
                return descend(s.body)
            if isinstance(s, ast.Expr) and any(n is call for n in ast.walk(s)):
                return True
            raise LookupError('call inside an unsupported statement: %s' % type(s).__name__)
        return False
    if not descend(fnode.body):
        raise LookupError('call site not reached')
    return [g[0] for g in guards]


def check_map_readers(rep, prop='C14'):
    import time
    import skoolkit.snactl as S
    t0 = time.time()
    results = []    # (oid, ok, detail)
    for fn in (S.read_map, S._get_addresses):
        fnode, _ = func_ast(fn)
        q = fn.__qualname__
        # every use of `addresses`
        for n in ast.walk(fnode):
            if isinstance(n, ast.Call) and isinstance(n.func, ast.Attribute) and isinstance(n.func.value, ast.Name) and n.func.value.id == 'addresses':
                oid = '%s/L%d.%s' % (q, n.lineno - fnode.lineno, n.func.attr)
                if n.func.attr not in ('append', 'add') or len(n.args) != 1 or n.keywords:
                    results.append((oid + '/no_other_writer', False, ast.unparse(n)))
                    continue
                env, opaque = {}, {}
                facts = []
                try:
                    for g in _site_guards(fnode, n):
                        if g[0] == 'range':
                            t, a, b = (_z3_of(x, env, opaque) for x in g[1:])
                            facts.append(z3.And(a <= t, t < b))
                        else:
                            z = _z3_of(g[1], env, opaque)
                            if not z3.is_bool(z):      # truthiness of a non-comparison: uninterpreted
                                z = opaque.setdefault('bool(%s)' % ast.unparse(g[1]), z3.Bool('opaque!%d' % len(opaque)))
                            facts.append(z if g[0] == 'pos' else z3.Not(z))
                    x = _z3_of(n.args[0], env, opaque)
                    ok = z3.is_int(x)
                    if ok:
                        sol = z3.Solver()
                        sol.set('timeout', 10000)
                        sol.add(*facts)
                        st, en = env.setdefault('start', z3.Int('start')), env.setdefault('end', z3.Int('end'))
                        sol.add(z3.Not(z3.And(st <= x, x < en)))
                        r = sol.check()
                        ok = r == z3.unsat
                        detail = '' if ok else ('start <= %s < end does not follow from the conditions on the path to line %d; %s' % (ast.unparse(n.args[0]), n.lineno, sol.model() if r == z3.sat else r))
                    else:
                        detail = 'argument is not an integer expression the site VC understands: ' + ast.unparse(n.args[0])
                except LookupError as ex:
                    ok, detail = False, str(ex)
                results.append((oid + '/in_range', ok, detail))
        # stores to `addresses`
        for n in ast.walk(fnode):
            if isinstance(n, (ast.Assign, ast.AugAssign, ast.AnnAssign)) and 'addresses' in _stores(n):
                txt = ast.unparse(n).replace(' ', '')
                ok = txt in ('addresses=[]', 'addresses=set()', 'addresses=_get_addresses(f,fname,size,start,end)')
                results.append(('%s/L%d/store_is_empty_or_reader_call' % (q, n.lineno - fnode.lineno), ok, ast.unparse(n)))
    # _get_addresses: parameters in the order the call above passes them; returns sorted(<set>)
    gnode, _ = func_ast(S._get_addresses)
    results.append(('_get_addresses/signature', [a.arg for a in gnode.args.args] == ['f', 'fname', 'size', 'start', 'end'], ast.unparse(gnode.args)))
    rets = [n for n in ast.walk(gnode) if isinstance(n, ast.Return)]
    inits = [ast.unparse(n.value) for n in ast.walk(gnode) if isinstance(n, ast.Assign) and 'addresses' in _stores(n)]
    results.append(('_get_addresses/increasing.returns_sorted_set', bool(rets) and all(r.value is not None and ast.unparse(r.value) == 'sorted(addresses)' for r in rets) and inits == ['set()'],
                    'returns %s; addresses initialised as %s' % ([ast.unparse(r.value) if r.value else None for r in rets], inits)))
    # read_map's own readers: order of the appended values
    rnode, _ = func_ast(S.read_map)
    for loop in [n for n in ast.walk(rnode) if isinstance(n, ast.For)]:
        calls = [n for n in ast.walk(loop) if isinstance(n, ast.Call) and isinstance(n.func, ast.Attribute) and isinstance(n.func.value, ast.Name) and n.func.value.id == 'addresses']
        inner = [n for b in loop.body for n in ast.walk(b) if isinstance(n, (ast.For, ast.While))]
        if not calls or any(c in list(ast.walk(i)) for i in inner for c in calls):
            continue    # judged at the innermost loop that holds the call
        for c in calls:
            arg = c.args[0] if c.args else None
            oid = 'read_map/L%d/increasing' % (c.lineno - rnode.lineno)
            ok = False
            if isinstance(arg, ast.Name):
                x = arg.id
                it = loop.iter
                if isinstance(loop.target, ast.Name) and loop.target.id == x:
                    # the loop target of range(a, b) with the default step, not stored in the body
                    ok = (isinstance(it, ast.Call) and isinstance(it.func, ast.Name) and it.func.id == 'range' and len(it.args) == 2
                          and x not in set().union(*[_stores(b) for b in loop.body]))
                else:
                    # stepped by a positive constant once per iteration, after the append, unconditionally; no other store in the loop nest
                    ix = next(i for i, b in enumerate(loop.body) if any(n is c for n in ast.walk(b)))
                    steps = [b for b in loop.body[ix + 1:] if isinstance(b, ast.AugAssign) and isinstance(b.op, ast.Add) and isinstance(b.target, ast.Name) and b.target.id == x
                             and isinstance(b.value, ast.Constant) and isinstance(b.value.value, int) and b.value.value > 0]
                    outer = [n for n in ast.walk(rnode) if isinstance(n, (ast.For, ast.While)) and any(m is loop for m in ast.walk(n))]
                    nest = min(outer, key=lambda n: n.lineno)
                    others = [n for n in ast.walk(nest) if isinstance(n, ast.Name) and n.id == x and isinstance(n.ctx, ast.Store)]
                    ok = len(steps) == 1 and len(others) == 1
            results.append((oid, ok, 'appended value %s; loop `%s`' % (ast.unparse(arg) if arg is not None else None, ast.unparse(loop).split('\n')[0])))
    dt = time.time() - t0
    name = 'skoolkit.snactl.read_map / _get_addresses [map readers: addresses in range, increasing]'
    if len(results) < 8:
        rep.violation('C14/map-readers/vacuous', 'only %d site obligations generated for the map readers (expected at least 8)' % len(results), no_input=True)
    for oid, ok, detail in results:
        rep.add('C14/map-readers/' + oid, 'proved' if ok else 'failed', 'z3' if oid.endswith('in_range') else 'syntactic', dt / max(1, len(results)), name)
        if not ok:
            r = replay_read_map({}, '')
            rep.violation('C14/map-readers/' + (oid.split('/L')[0] + '/' + oid.rsplit('/', 1)[1] if '/L' in oid else oid), '%s: %s' % (oid, detail), {'case': r.get('case', {}), 'diffs': r.get('diffs', []), 'obligation': oid, 'detail': detail},
                          no_input=not r.get('diffs'))


def replay_read_map(vals, kind):
    """Concrete search with rzxplay-format maps: overlapping executed instructions, adjacent ones, straddling end."""
    import os
    import random
    import tempfile
    import skoolkit.snactl as S
    rnd = random.Random(9)
    tmp = tempfile.mkdtemp(prefix='c14map_')
    try:
        for t in range(300):
            start = rnd.choice((32768, rnd.randrange(0, 65000)))
            end = min(65536, start + rnd.randrange(2, 40))
            snap = [rnd.choice((0x00, 0x01, 0x3E, 0xC9, 0xC3, 0x21, 0xDD, 0xCB, 0xAF, 0x18)) for _ in range(65536)]
            # the map may also name addresses outside [start, end) - end itself in particular; the readers must drop them
            listed = sorted(set([rnd.randrange(max(0, start - 3), min(65536, end + 3)) for _ in range(rnd.randrange(1, 12))] + ([end] if end < 65536 and t % 2 else [])))
            addrs = [a for a in listed if start <= a < end]
            fn = os.path.join(tmp, 'm.txt')
            if t % 3 == 0:
                with open(fn, 'w') as f:
                    f.write(''.join('$%04X\n' % a for a in listed))
            elif t % 3 == 1:
                bits = bytearray(8192)
                for a in listed:
                    bits[a // 8] |= 1 << (a % 8)
                with open(fn, 'wb') as f:
                    f.write(bits)
            else:
                # SpecEmu map: bit 0 = executed; the other bits (read / written ...) may be set on executed and on
                # other addresses alike
                flags = bytearray(rnd.choice((0, 2, 4, 6)) if rnd.random() < 0.3 else 0 for _ in range(65536))
                for a in listed:
                    flags[a] = rnd.choice((1, 1, 3, 5, 7, 255))
                with open(fn, 'wb') as f:
                    f.write(flags)
            import io
            import contextlib
            with contextlib.redirect_stderr(io.StringIO()):
                blocks = S.read_map(fn, snap, start, end)
            diffs = []
            for (a1, l1), (a2, l2) in zip(blocks, blocks[1:]):
                if not a2 > a1 + l1:
                    diffs.append(('blocks overlap or touch', [a1, l1], [a2, l2]))
            for a in addrs:
                if not any(b[0] <= a < b[0] + b[1] for b in blocks):
                    diffs.append(('map address outside every block', a, blocks[:4]))
            if any(not start <= b[0] < end for b in blocks):
                diffs.append(('block starts outside [start, end)', [list(b) for b in blocks if not start <= b[0] < end][:3], [start, end]))
            if any(b[0] not in addrs or b[1] < 1 for b in blocks):
                diffs.append(('block does not start at a map address', blocks[:4], addrs[:6]))
            if diffs:
                return {'case': {'start': start, 'end': end, 'map_format': ('rzxplay', 'z80', 'specemu')[t % 3], 'map_addresses': listed, 'bytes': snap[start:end + 4]}, 'diffs': diffs[:3]}
    finally:
        import shutil
        shutil.rmtree(tmp, ignore_errors=True)
    return {'case': {}, 'diffs': []}
