"""C14: the block-building loop of snactl.read_map under contract.

Slice of the real function, re-read on every run: from `code_blocks = []` to the
`return code_blocks` (the file-format branches that produce `addresses` are not
part of it; their contract - a strictly increasing list of addresses inside
[start, end) - is what _get_addresses' own `start <= address < end` filter and
sorted(set) give, and is assumed here).

Contract (ghost state: the last block (la, ls)):
  * blocks are appended in strictly increasing, non-overlapping, non-adjacent
    order: a new block starts beyond the end of the previous one;
  * every address of the map lies inside the last block when its iteration ends
    (so every executed address is inside some block);
  * every block starts at an address of the map (hence inside [start, end)) and
    has length >= 1.
decode() is used through its proved contract (first address == the one asked
for, 1 <= size <= 4).
"""
import ast

import z3

from props.funcvc import FuncVC
from pyvc import poly
from pyvc.poly import SV, SB, ite, and_, or_, not_, sv, cmpop, truth
from pyvc.engine import Engine, CallModel, UNK, Unknown, PathEnd, SymList, func_ast, _Break, _Continue


class BlockList:
    """code_blocks: only the last block [la, ls] is tracked (ghost), plus emptiness."""

    def __init__(self):
        self.nonempty = False
        self.last = None


class MapEngine(Engine):
    def exec_for(self, s):
        key = self.loop_key(s)
        if key in self.loop_invariants:
            return self.loop_invariants[key](self, s)
        return super().exec_for(s)

    def ev(self, e):
        if isinstance(e, ast.List) and not e.elts and getattr(self, 'blocklist', None) is not None and not getattr(self, 'blocklist_made', False):
            self.blocklist_made = True
            return self.blocklist
        return super().ev(e)

    def as_cond(self, v):
        if isinstance(v, BlockList):
            return truth(v.nonempty)
        return super().as_cond(v)

    def getitem(self, base, idx, node):
        if isinstance(base, BlockList):
            if idx == -1:
                self.oblige('last_block_exists', base.nonempty, node)
                return base.last
            raise poly.Refuse('code_blocks[%r]' % (idx,))
        return super().getitem(base, idx, node)

    def getattr(self, obj, attr, node):
        if isinstance(obj, BlockList) and attr == 'append':
            return CallModel(self.on_append, 'append')
        return super().getattr(obj, attr, node)

    def sym_builtin(self, f, name, args, kwargs, node):
        if name == 'sum' and len(args) == 1 and isinstance(args[0], SymList) and len(args[0].items) == 2:
            return args[0].items[0] + args[0].items[1]
        if name == 'next' and len(args) == 1 and isinstance(args[0], tuple) and args[0] and args[0][0] == 'decoded':
            return args[0][1]
        return super().sym_builtin(f, name, args, kwargs, node)

    def call(self, f, args, kwargs, node):
        if f is next and len(args) == 1 and isinstance(args[0], tuple) and args[0] and args[0][0] == 'decoded':
            return args[0][1]
        return super().call(f, args, kwargs, node)


def map_slice(fn):
    node, _ = func_ast(fn)
    out = None
    for s in node.body:
        if out is not None:
            out.append(s)
        elif isinstance(s, ast.Assign) and ast.unparse(s).replace(' ', '') == 'code_blocks=[]':
            out = [s]
    if not out:
        raise LookupError('`code_blocks = []` not found in read_map')
    loops = [n for s in out for n in ast.walk(s) if isinstance(n, (ast.For, ast.While))]
    if len(loops) != 1:
        raise LookupError('read_map: expected one loop after `code_blocks = []`')
    all_loops = sorted([n for n in ast.walk(node) if isinstance(n, (ast.For, ast.While))], key=lambda n: (n.lineno, n.col_offset))
    return out, all_loops.index(loops[0])


def check_read_map(rep, prop='C14'):
    import skoolkit.snactl as S
    W = poly.W
    fn = S.read_map
    stmts, loop_ix = map_slice(fn)
    q = fn.__qualname__
    name = 'skoolkit.snactl.read_map[block building]'

    def start(eng):
        p = eng.path
        p.start = SV(z3.BitVec('start', W), 0, 65535)
        p.end = SV(z3.BitVec('end', W), 1, 65536)
        p.facts.extend([p.start.t >= 0, p.start.t < p.end.t, p.end.t <= 65536])
        bl = BlockList()
        eng.blocklist = bl
        eng.blocklist_made = False
        p.bl = bl

        def on_append(e, args, kwargs, n):
            item = args[0]
            items = item.items if isinstance(item, SymList) else item
            ok_shape = isinstance(items, (list, tuple)) and len(items) == 2 and all(isinstance(x, (int, SV)) for x in items)
            e.oblige('block_shape', ok_shape, n)
            if not ok_shape:
                raise PathEnd()
            a, sz = items
            e.oblige('block_starts_at_a_map_address', cmpop('==', a, p.cur) if getattr(p, 'cur', None) is not None else False, n)
            e.oblige('block_length_positive', cmpop('>=', sz, 1), n)
            if truth(bl.nonempty) is not False:
                la, ls = bl.last.items
                e.oblige('blocks_increasing_and_disjoint', or_(not_(bl.nonempty), cmpop('>', a, la + ls)), n)
            bl.nonempty = True
            bl.last = SymList([a, sz], 'block')
            return None
        eng.on_append = on_append

        def decode_model(e, args, kwargs, n):
            a = args[1]
            return ('decoded', (a, e.fresh('size', 1, 4), UNK, UNK, UNK, None))
        eng.call_models[id(S.decode)] = decode_model

        def addr_loop(e, node_):
            """for address in addresses: strictly increasing addresses in [start, end).
            Invariant: code_blocks is empty before the first address; afterwards the previous address lies in the last block."""
            e.oblige('inv.establish', truth(bl.nonempty) is False, node_)
            e.fresh_n += 1
            if e.decide(SB(z3.Bool('iterate!%d' % e.fresh_n))):
                address = e.fresh('address', 0, 65535)
                e.assume(and_(cmpop('>=', address, p.start), cmpop('<', address, p.end)))
                e.fresh_n += 1
                first = SB(z3.Bool('first_address!%d' % e.fresh_n))
                if e.decide(first):
                    bl.nonempty = False
                    bl.last = None
                else:
                    la = e.fresh('last_start', 0, 65535)
                    ls = e.fresh('last_len', 1, 1 << 17)
                    prev = e.fresh('prev_address', 0, 65535)
                    e.assume(and_(cmpop('>=', la, p.start), cmpop('<=', la, prev), cmpop('<', prev, la + ls), cmpop('<', prev, address)))
                    bl.nonempty = True
                    bl.last = SymList([la, ls], 'block')
                p.cur = address
                e.assign(node_.target, address)
                try:
                    e.exec_block(node_.body)
                except (_Break, _Continue):
                    pass
                e.oblige('inv.preserve.nonempty', bl.nonempty, node_)
                if truth(bl.nonempty) is not False and bl.last is not None:
                    la2, ls2 = bl.last.items
                    e.oblige('inv.preserve.address_in_last_block', and_(cmpop('>=', la2, p.start), cmpop('<=', la2, address), cmpop('<', address, la2 + ls2)), node_)
                raise PathEnd()
            p.cur = None
        eng.loop_invariants = {(q, loop_ix): addr_loop}
        p.locs = {'snapshot': UNK, 'start': p.start, 'end': p.end, 'addresses': UNK, 'fname': 'map'}
        p.ret = eng.run_stmts(fn, stmts, p.locs)

    def post(p, prove):
        if hasattr(p, 'ret'):
            prove('post.returns_the_block_list', p.ret is p.bl)

    eng = MapEngine(inline_ok=lambda f: False, unknown_ok=True)
    FuncVC(rep, prop, fn, name, eng).run(start, post, replay_read_map)
    rep.assume('read_map: the per-format readers hand the block-building loop a strictly increasing list of addresses inside [start, end) (sorted(set) and the start <= address < end filter in each reader: by inspection, observed in the bounded runs)')


def replay_read_map(vals, kind):
    """Concrete search with rzxplay-format maps: overlapping executed instructions, adjacent ones, straddling end."""
    import os
    import random
    import tempfile
    import skoolkit.snactl as S
    rnd = random.Random(9)
    tmp = tempfile.mkdtemp(prefix='c14map_')
    try:
        for t in range(300):
            start = rnd.choice((32768, rnd.randrange(0, 65000)))
            end = min(65536, start + rnd.randrange(2, 40))
            snap = [rnd.choice((0x00, 0x01, 0x3E, 0xC9, 0xC3, 0x21, 0xDD, 0xCB, 0xAF, 0x18)) for _ in range(65536)]
            addrs = sorted(set(rnd.randrange(start, end) for _ in range(rnd.randrange(1, 12))))
            fn = os.path.join(tmp, 'm.txt')
            with open(fn, 'w') as f:
                f.write(''.join('$%04X\n' % a for a in addrs))
            import io
            import contextlib
            with contextlib.redirect_stderr(io.StringIO()):
                blocks = S.read_map(fn, snap, start, end)
            diffs = []
            for (a1, l1), (a2, l2) in zip(blocks, blocks[1:]):
                if not a2 > a1 + l1:
                    diffs.append(('blocks overlap or touch', [a1, l1], [a2, l2]))
            for a in addrs:
                if not any(b[0] <= a < b[0] + b[1] for b in blocks):
                    diffs.append(('map address outside every block', a, blocks[:4]))
            if any(b[0] not in addrs or b[1] < 1 for b in blocks):
                diffs.append(('block does not start at a map address', blocks[:4], addrs[:6]))
            if diffs:
                return {'case': {'start': start, 'end': end, 'map_addresses': addrs, 'bytes': snap[start:end + 4]}, 'diffs': diffs[:3]}
    finally:
        import shutil
        shutil.rmtree(tmp, ignore_errors=True)
    return {'case': {}, 'diffs': []}
