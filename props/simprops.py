"""Turns the per-slot results of props.simrun into per-property reports."""
import json
import os

from props import common, simrun

SAFETY = {'idx', 'tab_idx', 'rom_guard', 'byte_range', 'no_overflow', 'def_before_use', 'arity', 't_mono',
          'no_raise', 'reg_count', 'dispatch_frame', 'assert'}


def is_safety(kind):
    return kind in SAFETY or kind.startswith('reg_range')


def is_func(kind, cmio):
    if kind.startswith('post.') or kind.startswith('frame.') or kind in ('dispatch', 'no_dispatch'):
        if kind == 'post.T' and cmio:
            return False
        return True
    return False


def is_timing(kind, cmio):
    return cmio and kind in ('post.T', 't_ge_base', 't_eq_base_uncontended')


def gather(rep, run_out, select, diff_select, label):
    """select(kind, cmio) -> bool picks the obligation kinds this property owns;
    diff_select(diffname) picks which concrete differences count for it."""
    total_slots = 0
    total_paths = 0
    covers = 0
    dead = 0
    xchecks = 0
    for (cls, machine), run in run_out['configs'].items():
        cmio = cls == 'CMIOSimulator'
        for tn, n in run['nslots'].items():
            if n != 256:
                rep.violation('%s/%s.%s/len' % (label, cls, tn), 'dispatch table %s of %s has %d slots, expected 256' % (tn, cls, n),
                              {'table': tn, 'len': n}, no_input=True)
        for s in run['slots']:
            total_slots += 1
            total_paths += s.get('paths') or 0
            covers += s.get('covers') or 0
            fn = '%s[%sK]' % (s['slot_id'].split('[')[0], machine)
            owned = 0
            for (kind, status, backend), n in s['counts'].items():
                if kind == 'cover':
                    dead += n
                    continue
                if not select(kind, cmio):
                    continue
                owned += n
                t = s['times'].get((kind, status, backend), 0)
                if status == 'proved':
                    rep.add_bulk(n, backend, t, fn)
                else:
                    rep.add_bulk(0, backend, t, fn, n=n)
            for smp in s.get('samples', ()):
                if len(rep.samples) < 6:
                    rep.sample(smp)
            cc = s.get('crosscheck') or {}
            xchecks += cc.get('n', 0)
            conc = [b for b in cc.get('bad', ()) if any(diff_select(d[0]) for d in b['diffs'])]
            handled = False
            for o in s['bad']:
                if not select(o['kind'], cmio):
                    continue
                key = '%s/%s/%s' % (label, s['slot_id'], o['kind'])
                if o['status'] == 'failed':
                    rp = o.get('replay') or {}
                    if rp.get('diffs'):
                        rep.violation(key, 'obligation %s fails; solver counterexample replayed on the real closure (%s): %s' % (
                            o['id'], rp.get('how'), rp['diffs'][:3]),
                            {'obligation': o['id'], 'case': rp['case'], 'observed_vs_expected': rp['diffs'], 'solver': o['backend'],
                             'replay_cmd': './check %s --replay <this file>' % rep.prop})
                        handled = True
                    elif conc:
                        b = conc[0]
                        rep.violation(key, 'obligation %s fails; concrete search found a failing input: %s' % (o['id'], b['diffs'][:3]),
                                      {'obligation': o['id'], 'case': b['case'], 'observed_vs_expected': b['diffs'], 'solver': o['backend']})
                        handled = True
                    else:
                        # the solver's model does not manifest on the real code: the engine or the contract is
                        # wrong, or the failure is not observable (never called a violation)
                        rep.errors.append('counterexample for %s does not replay on the real code (%s)' % (o['id'], rp.get('how') or rp.get('error')))
                else:
                    if conc:
                        b = conc[0]
                        rep.violation(key, 'obligation %s undecided by the solvers; concrete search found a failing input: %s' % (o['id'], b['diffs'][:3]),
                                      {'obligation': o['id'], 'case': b['case'], 'observed_vs_expected': b['diffs']})
                        handled = True
                    else:
                        rep.undecided.append(o['id'])
            if conc and not handled:
                b = conc[0]
                rep.violation('%s/%s/concrete' % (label, s['slot_id']),
                              'real closure disagrees with the contract on a concrete state: %s' % (b['diffs'][:3],),
                              {'obligation': s['slot_id'] + '/crosscheck', 'case': b['case'], 'observed_vs_expected': b['diffs']})
            rep.extra['engine_selfcheck_samples'] = rep.extra.get('engine_selfcheck_samples', 0) + (s.get('selfcheck') or 0)
            for b in (s.get('selfcheck_bad') or ())[:1]:
                rep.errors.append('engine/CPython cross-check failed on %s: %s (the VC generator is unsound here; no verdict)' % (s['slot_id'], b[0]))
            if s.get('refused') or s.get('error'):
                why = s.get('refused') or s.get('error')
                if not conc:
                    rep.downgraded.append({'function': s['slot_id'], 'reason': str(why)[-300:]})
                    rep.bounded.append({'function': s['slot_id'], 'contract': 'slot == z80spec.Step (concrete differential)',
                                        'bound': '%d boundary-biased random states' % cc.get('n', 0), 'evaluations': cc.get('n', 0)})
                if s.get('error'):
                    rep.errors.append('engine crashed on %s: %s' % (s['slot_id'], str(why)[-300:]))
            elif owned == 0 and s.get('paths'):
                pass
    rep.vacuity.setdefault('paths', 0)
    rep.vacuity['paths'] += total_paths
    rep.vacuity['paths_reachable_under_pre'] = rep.vacuity.get('paths_reachable_under_pre', 0) + covers
    rep.vacuity['dead_paths_skipped'] = rep.vacuity.get('dead_paths_skipped', 0) + dead
    rep.extra['slots'] = rep.extra.get('slots', 0) + total_slots
    rep.extra['crosscheck_samples'] = rep.extra.get('crosscheck_samples', 0) + xchecks
    rep.extra['source_tree_hash'] = run_out['hash']
    rep.extra['cache_hit'] = {'%s/%s' % k: v for k, v in run_out['cache_hit'].items()}
    if covers == 0:
        rep.errors.append('no reachable path: vacuous run')


def replay_case(path):
    """./check Cxx --replay file: re-run the recorded concrete case on the real code."""
    from props import simvc
    with open(path) as f:
        doc = json.load(f)
    case = doc.get('case')
    print('replaying %s' % doc.get('key'))
    if not case:
        print('no concrete input recorded (%s)' % doc.get('what'))
        return 1 if doc.get('no_failing_input_found') else 3
    d = simvc.concrete_run(case)
    print('observed vs expected:', d)
    if d:
        print('VIOLATION property=%s replay=%s' % (doc.get('property'), path))
        return 1
    print('does not reproduce on this tree')
    return 0
