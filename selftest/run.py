#!/usr/bin/env python3
"""Mutation self-test of the checks (DESIGN.md 2.5).

Every entry of MUTANTS is a small edit of /repo applied to a scratch copy
(outside /repo and /verif, removed afterwards); the named check is run against
the copy (VERIF_REPO) with its evidence redirected.  A `break` edit must end in
exit 1 with a VIOLATION line, a `harmless` edit in exit 0.

    python3 selftest/run.py            # all
    python3 selftest/run.py m04 h01    # some
"""
import json
import os
import shutil
import subprocess
import sys
import tempfile
import time

ROOT = os.path.dirname(os.path.dirname(os.path.abspath(__file__)))
REPO = '/repo'

# id, property, kind, file, old, new, slots (for the simulator checks) or None
MUTANTS = [
    ('m01', 'C08', 'break', 'skoolkit/simulator.py',
     "            addr = registers[rl] + 256 * registers[rh]\n            if addr > 0x3FFF:\n                memory[addr] = registers[r]",
     "            addr = registers[rl] + 256 * registers[rh]\n            if addr >= 0x3FFF:\n                memory[addr] = registers[r]", 'opcodes:70,opcodes:02'),
    ('m02', 'C05', 'break', 'skoolkit/simulator.py', "if hl ^ rr < 0x8000 and hl ^ result > 0x7FFF:", "if hl ^ rr < 0x8000 and hl ^ result > 0x7FFE:", 'after_ED:4A,after_ED:5A'),
    ('m03', 'C05', 'break', 'skoolkit/simulator.py', "self.af_r(r, R1, 4, 1, ADD, C),", "self.af_r(r, R1, 4, 1, ADC[1], C),", 'opcodes:81,opcodes:80'),
    ('m04', 'C19', 'break', 'skoolkit/cmiosimulator.py',
     "                delay = contend(tm, ((pc, 4), ((pc + 1) % 65536, 4), (pc2, 3), (pc2, 1), (pc2, 1), (pc2, 1), (pc2, 1), (pc2, 1), (xy, 3)))\n            else:\n                delay = 0\n            registers[:2] = af[registers[0]][memory[xy]]",
     "                delay = contend(tm, ((pc, 4), ((pc + 1) % 65536, 4), (pc2, 4), (pc2, 1), (pc2, 1), (pc2, 1), (pc2, 1), (pc2, 1), (xy, 3)))\n            else:\n                delay = 0\n            registers[:2] = af[registers[0]][memory[xy]]", 'after_DD:86,after_FD:A6'),
    ('m05', 'C19', 'break', 'skoolkit/cmiosimulator.py', "            self.t0 = CONTENTION_INTERVALS[0][0] - 23", "            self.t0 = CONTENTION_INTERVALS[0][0] - 3", 'after_DDCB:06,opcodes:E3'),
    ('m06', 'C05', 'break', 'skoolkit/simtables.py', "        (a + ((d > 3 or a % 16 > 9) * 6 +", "        (a + ((d > 3 or a % 16 > 8) * 6 +", 'opcodes:27'),
    ('m07', 'C08', 'break', 'skoolkit/pagingtracer.py',
     "    def write_port(self, registers, port, value, offset):\n        if port % 2 == 0:\n            self.border = value % 8\n            self.outfe = value\n        if port & 0x8002 == 0 and",
     "    def write_port(self, registers, port, value, offset):\n        if port % 2 == 0:\n            self.border = value % 8\n            self.outfe = value\n        if port & 0x8000 == 0 and", 'opcodes:00'),
    ('m08', 'C08', 'break', 'skoolkit/pagingtracer.py', "        self.memory[3] = self.banks[value % 8]\n        self.o7ffd = value", "        self.memory[3] = self.banks[value % 4]\n        self.o7ffd = value", 'opcodes:00'),
    ('m09', 'C07', 'break', 'skoolkit/z80.py', "    0x10: (13, 8),", "    0x10: (13, 7),", 'opcodes:10'),
    ('m11', 'C02', 'break', 'skoolkit/z80.py', "        if offset >= 65410:", "        if offset > 65410:", None),
    ('m12', 'C02', 'break', 'skoolkit/disassembler.py', "format_byte(abs(i - 256), base))", "format_byte(abs(i - 255), base))", None),
    ('m13', 'C09', 'break', 'skoolkit/snapshot.py', "self.header[55:58] = (t1 % 256, t1 // 256, (2 - t2) % 4)", "self.header[55:58] = (t1 % 256, t1 // 256, (3 - t2) % 4)", None),
    ('m15', 'C09', 'break', 'skoolkit/snapshot.py', "                if count < 255:\n                    count += 1", "                if count <= 255:\n                    count += 1", None),
    ('m16', 'C11', 'break', 'skoolkit/tape.py', "                for d in bt[:num_pulses]:", "                for d in bt[:(len(bt) * timings.used_bits) // 8]:", None),
    ('m18', 'C12', 'break', 'skoolkit/bin2tap.py', "                    ram[index] = byte\n                index += 1", "                    ram[index] = byte\n                    index += 1", None),
    ('m20', 'C14', 'break', 'skoolkit/snactl.py', "        address = min(address + size, end)", "        address += size", None),
    ('m21', 'C15', 'break', 'skoolkit/graphics.py', "    8, 136, 72, 200,", "    8, 136, 72, 201,", None),
    ('m22', 'C15', 'break', 'skoolkit/graphics.py', "                    rbyte //= 2\n                    if byte & b:\n                        rbyte += 128", "                    if byte & b:\n                        rbyte += 128\n                    rbyte //= 2", None),
    ('m24', 'C01', 'break', 'skoolkit/disassembler.py', "                instructions.append(self._defb_line(i - len(data) + 1, data, sublengths, defm))\n                data = []", "                instructions.append(self._defb_line(i - len(data), data, sublengths, defm))\n                data = []", None),
    ('m25', 'C10', 'break', 'skoolkit/trace.py', "next_int = ((tstates + frame_duration - int_active) // frame_duration) * frame_duration", "next_int = ((tstates + frame_duration) // frame_duration) * frame_duration", None),
    ('m26', 'C13', 'break', 'skoolkit/loadtracer.py', "                    registers[25] += 16 * a - 5", "                    registers[25] += 16 * a - 4", None),
    ('m27', 'C06', 'break', 'c/csimulator.c', "    INC_R(1);\n    INC_T(11);\n    INC_PC(2);\n}\n\n/* OUT (C),r/0 */", "    INC_R(1);\n    INC_T(12);\n    INC_PC(2);\n}\n\n/* OUT (C),r/0 */", 'opcodes:D3'),
    ('m28', 'C13', 'break', 'skoolkit/loadsample.py', "        58,   # 58 T-states per loop iteration\n        9,    # R register increment per loop iteration\n        C,    # EAR bit register\n        0x20, # EAR mask\n        0     # Zero flag is reset upon edge detection by AND $20\n    ),\n\n    'antirom'",
     "        58,   # 58 T-states per loop iteration\n        8,    # R register increment per loop iteration\n        C,    # EAR bit register\n        0x20, # EAR mask\n        0     # Zero flag is reset upon edge detection by AND $20\n    ),\n\n    'antirom'", None),
    ('m29', 'C13', 'break', 'skoolkit/loadtracer.py', "acc.loop_time + 1, (counter - 1) % 256)", "acc.loop_time + 1, counter - 1)", None),
    ('m30', 'C12', 'break', 'skoolkit/bin2tap.py', "    data.append(55)                         # SCF", "    data.append(63)                         # SCF", None),
    ('m31', 'C12', 'break', 'skoolkit/loadtracer.py', "                if addr > 0x3FFF:\n                    memory[addr] = block[i]", "                if addr >= 0x3FFF:\n                    memory[addr] = block[i]", None),
    ('m32', 'C14', 'break', 'skoolkit/snactl.py', "                ctls[t_start] = 't'\n                if t_end < end:\n                    ctls[t_end] = 'b'\n        elif", "                ctls[t_start] = 't'\n                if t_end <= end:\n                    ctls[t_end] = 'b'\n        elif", None),
    ('m33', 'C14', 'break', 'skoolkit/snactl.py', "        if code_blocks and address <= sum(code_blocks[-1]):\n            if address == sum(code_blocks[-1]):\n                code_blocks[-1][1] += size", "        if code_blocks and address == sum(code_blocks[-1]):\n            code_blocks[-1][1] += size", None),
    ('m34', 'C09', 'break', 'skoolkit/snapshot.py', "                bank[a % 0x4000] = poke_f(bank[a % 0x4000])", "                bank[a % 0x4000] = poke_f(snapshot[a])", None),
    ('m35', 'C10', 'break', 'skoolkit/snapshot.py', "tstates = get_int_param(val) % FRAME_DURATIONS[self.header[6] > 1]", "tstates = get_int_param(val) % FRAME_DURATIONS[self.header[6] > 2]", None),
    ('m36', 'C11', 'break', 'skoolkit/tape.py', "pulses = ((3223 + 4840 * (first_byte == 0), 2168), (1, 667), (1, 735))", "pulses = ((3223 + 4840 * (first_byte < 128), 2168), (1, 667), (1, 735))", None),
    ('m37', 'C13', 'break', 'skoolkit/loadtracer.py', "while index < max_index and edges[index + 1] < tstates:", "while index < max_index and edges[index + 1] <= tstates:", None),
    ('m38', 'C12', 'break', 'skoolkit/bin2tap.py', "    if tape_file.lower().endswith('.pzx'):", "    if tape_file.endswith('.pzx'):", None),
    ('m39', 'C01', 'break', 'skoolkit/disassembler.py', "                if value & 127 in (34, 92):\n                    return r'\"\\{}\"'.format(chr(value & 127)) + suffix", "                if value in (34, 92):\n                    return r'\"\\{}\"'.format(chr(value)) + suffix", None),
    ('m40', 'C11', 'break', 'skoolkit/tape.py', "                for k, b in enumerate(data, 1):\n                    for j in range(8 if k < len(data) else timings.used_bits):\n                        for d in timings.one if b & 0x80 else timings.zero:\n                            if d:",
     "                for k, b in enumerate(data):\n                    for j in range(8 if k < len(data) else timings.used_bits):\n                        for d in timings.one if b & 0x80 else timings.zero:\n                            if d:", None),
    ('m41', 'C12', 'break', 'skoolkit/loadtracer.py', "                    state[1] = state[3]\n                    if state[1] == max_index:", "                    state[1] = state[3] - 1\n                    if state[1] == max_index:", None),
    ('m42', 'C09', 'break', 'skoolkit/snapshot.py', "    dest_page, dest = _get_page(dest, 'move', param_str, src_page)", "    dest_page, dest = _get_page(dest, 'move', param_str, 0)", None),
    ('m43', 'C15', 'break', 'skoolkit/graphics.py', "                self.mask = self._rotate_tile(self.mask, rotate & 2)", "                self.mask = self._rotate_tile(self.mask, rotate & 1)", None),
    ('m44', 'C10', 'break', 'skoolkit/snapshot.py', "            if count > 4 or (count > 1 and prev_b == 237):\n                block.extend((237, 237, count, prev_b))\n            elif prev_b == 237:",
     "            if count > 4 or (count > 2 and prev_b == 237):\n                block.extend((237, 237, count, prev_b))\n            elif prev_b == 237:", None),
    ('m45', 'C11', 'break', 'skoolkit/tape.py', "            timings = TapeBlockTimings((), (zero, zero), (one, one), pause * 3500, used_bits)", "            timings = TapeBlockTimings((), (zero, zero), (one, one), pause * 3500)", None),
    ('m46', 'C14', 'break', 'skoolkit/snactl.py', "                    if start <= address < end:\n                        addresses.add(address)", "                    if start <= address <= end:\n                        addresses.add(address)", None),
    ('m47', 'C15', 'break', 'skoolkit/skoolmacro.py', "                mask_step = udg_step", "                mask_step = step", None),
    ('m48', 'C01', 'break', 'skoolkit/snaskool.py', "                        if sub_block.ctl == 's':\n                            length = sublengths[0][0]", "                        if sub_block.ctl == 'S':\n                            length = sublengths[0][0]", None),
    ('m49', 'C09', 'break', 'skoolkit/snapshot.py', "        snapshot.banks[page % 8][dest:dest + size] = data[:size]", "        snapshot.banks[page % 8][dest:dest + size] = data", None),
    ('m50', 'C13', 'break', 'skoolkit/loadtracer.py', "and self.block_data_index <= self.state[1] < self.max_index:", "and self.block_data_index < self.state[1] < self.max_index:", 'opcodes:00'),
    ('m51', 'C13', 'break', 'skoolkit/loadtracer.py', "            self.state[1] = self.state[3] + 1", "            self.state[1] = self.state[3] + 2", 'opcodes:00'),
    ('m52', 'C13', 'break', 'skoolkit/loadtracer.py', "        while self.block_index < len(self.blocks) and self.block_data_index <=", "        while self.block_data_index <=", 'opcodes:00'),
    ('m53', 'C09', 'break', 'skoolkit/snapshot.py', "range(index.start, min(index.stop, 0x10000), index.step or 1)]", "range(index.start, min(index.stop, 0xFFFF), index.step or 1)]", None),
    ('m54', 'C15', 'break', 'skoolkit/sna2img.py', "                    udg.attr &= 127", "                    udg.attr &= 63", None),
    ('m55', 'C06', 'break', 'skoolkit/simulator.py', "                    if registers[25] < next_int + int_active:\n                        if registers[26]:\n                            self.accept_interrupt(registers, memory, pc)\n                    else:",
     "                    if registers[26] and registers[25] < next_int + int_active:\n                        self.accept_interrupt(registers, memory, pc)\n                    else:", 'opcodes:00'),
    ('m56', 'C07', 'break', 'skoolkit/simulator.py', "            opcodes[memory[(registers[24] + 1) % 65536]]()", "            opcodes[memory[(registers[24] + 1) % 65535]]()", 'opcodes:CB,opcodes:00'),
    ('m57', 'C01', 'break', 'skoolkit/disassembler.py',
     "                instruction = self.imaker(address, operation, self.snapshot[address:address + length])\n            elif self.wrap:\n                instruction = self.imaker(address, operation, self.snapshot[address:65536] + self.snapshot[:(address + length) & 65535])\n            else:\n                instruction = self._defb_line(address, self.snapshot[address:65536])\n            instruction.variant = flags & VARIANT\n",
     "                instruction = self.imaker(address, operation, self.snapshot[address:address + length])\n                instruction.variant = flags & VARIANT\n            elif self.wrap:\n                instruction = self.imaker(address, operation, self.snapshot[address:65536] + self.snapshot[:(address + length) & 65535])\n            else:\n                instruction = self._defb_line(address, self.snapshot[address:65536])\n", None),
    ('m58', 'C12', 'break', 'skoolkit/bin2tap.py', "set(parse_int(b) for b in namespace.banks.split(','))", "set(filter(None, map(parse_int, namespace.banks.split(','))))", 'opcodes:00'),
    ('m59', 'C13', 'break', 'skoolkit/pagingtracer.py', "            if isinstance(memory, Memory):\n                memory.out7ffd(value)\n                self.out7ffd = value\n        if port & 0xC002 == 0xC000:\n            self.outfffd = value\n        elif port & 0xC002 == 0x8000 and self.outfffd < 16:\n            self.ay[self.outfffd] = value\n\n    def write_port_with_border_list",
     "            if isinstance(memory, Memory):\n                memory.out7ffd(value)\n            self.out7ffd = value\n        if port & 0xC002 == 0xC000:\n            self.outfffd = value\n        elif port & 0xC002 == 0x8000 and self.outfffd < 16:\n            self.ay[self.outfffd] = value\n\n    def write_port_with_border_list", 'opcodes:00'),
    ('m60', 'C14', 'break', 'skoolkit/snactl.py', "                ctls[address] = ctl or next_ctl", "                ctls[address] = ctl or 'U'", None),
    ('m61', 'C08', 'break', 'skoolkit/skoolutils.py', "            bank = banks[next(i for i, b in enumerate(self.banks) if b is self.memory[3])]", "            bank = banks[self.banks.index(self.memory[3])]", 'opcodes:00'),
    ('m62', 'C15', 'break', 'skoolkit/skoolmacro.py', "            end += len(frame_id)\n            x = y = 0\n", "            end += len(frame_id)\n", None),
    ('m63', 'C15', 'break', 'skoolkit/skoolmacro.py', "        udg_array[-1].extend(FILL_UDG.copy() for n in range(width - len(udg_array[-1])))", "        udg_array[-1].extend((FILL_UDG,) * (width - len(udg_array[-1])))", None),
    ('m64', 'C07', 'break', 'skoolkit/z80.py', "    if not instruction.operation.upper().startswith('DEF') and instruction.bytes:", "    if not instruction.operation.startswith('DEF') and instruction.bytes:", 'opcodes:00'),
    ('m65', 'C09', 'break', 'skoolkit/bin2sna.py', "                data = list(read_bin_file(f, 0x4000))", "                data = list(read_bin_file(f, 0x3FFF))", None),
    ('m66', 'C13', 'break', 'skoolkit/loadtracer.py', "                        registers[25] = state[0] = edges[state[1]]\n                        state[8] = ((registers[25] + frame_duration - int_active) // frame_duration) * frame_duration",
     "                        registers[25] = state[0] = edges[state[1]]\n                        state[8] = ((tstates + frame_duration - int_active) // frame_duration) * frame_duration", 'opcodes:00'),
    ('m67', 'C11', 'break', 'skoolkit/tape.py', "        s1 = tuple(get_word(data, k) for k in range(j, j + 2 * p1, 2))\n        j += 2 * p1", "        s1 = tuple(get_word(data, k) for k in range(j, j + 2 * p1, 2))\n        j += 2 * p0", None),
    ('m68', 'C08', 'break', 'skoolkit/skoolutils.py', "            self.banks[page][:] = data", "            self.banks[page] = data", 'opcodes:00'),
    ('m69', 'C10', 'break', 'skoolkit/trace.py', "        self.out7ffd = out7ffd", "        self.out7ffd = outfffd", None),
    ('m70', 'C14', 'break', 'skoolkit/snactl.py', "            if data[address] & 1:", "            if data[address] == 1:", None),
    ('m71', 'C13', 'break', 'skoolkit/loadtracer.py', "        if not data_block.fast_load or registers[F] % 2 == 0:", "        if not data_block.fast_load:", 'opcodes:00'),
    ('m72', 'C14', 'break', 'skoolkit/comment.py', "        if len(values) < 2:\n            # A lone DD/FD prefix (before an opcode it does not affect)\n            return '', None\n", "", None),
    # harmless edits: must not raise an alarm
    ('m73', 'C09', 'break', 'skoolkit/snapshot.py', "    if page is None:\n        for a in range(addr1, addr2 + 1, step):", "    if page is None:\n        for a in range(addr1, addr2 + 1, min(step, 0x4000)):", None),
    ('m74', 'C15', 'break', 'skoolkit/pngwriter.py', "            if frame1.alpha < 0:", "            if frame1.alpha <= 0:", None),
    ('m75', 'C15', 'break', 'skoolkit/skoolmacro.py', "            if any(frame is f for f in frames):\n                frame = copy(frame)\n", "", None),
    ('h01', 'C05', 'harmless', 'skoolkit/simulator.py',
     "            pcn = registers[24] + 1\n            registers[:2] = af[registers[0]][memory[pcn % 65536]]\n            registers[15] = R1[registers[15]] # R\n            registers[25] += 7 # T-states\n            registers[24] = (pcn + 1) % 65536 # PC",
     "            next_pc = registers[24] + 1\n            registers[:2] = af[registers[0]][memory[next_pc % 65536]]\n            registers[25] += 7 # T-states\n            registers[15] = R1[registers[15]] # R\n            registers[24] = (next_pc + 1) % 65536 # PC", 'opcodes:C6,opcodes:E6'),
    ('h02', 'C05', 'harmless', 'skoolkit/simulator.py', "R1 = tuple((r & 0x80) + ((r + 1) % 128) for r in range(256))", "R1 = tuple([(r & 0x80) | ((r + 1) & 0x7F) for r in range(256)])", 'opcodes:00,opcodes:3C'),
    ('h03', 'C19', 'harmless', 'skoolkit/cmiosimulator.py',
     "    def contend_48k(self, t, timings):\n        delay = 0\n        for address, tstates in timings:\n            if 0x4000 <= address < 0x8000:\n                cd = DELAYS_48K[t]\n                delay += cd\n                t += cd\n            t += tstates\n        return delay",
     "    def contend_48k(self, t, timings):\n        total = 0\n        for addr, length in timings:\n            if 0x4000 <= addr < 0x8000:\n                wait = DELAYS_48K[t]\n                total += wait\n                t += wait\n            t += length\n        return total", 'opcodes:86,opcodes:CD'),
    ('h04', 'C02', 'harmless', 'skoolkit/z80.py', "        offset = self.parse_word(op) - address\n", "        target = self.parse_word(op)\n        offset = target - address\n", None),
    ('h05', 'C12', 'harmless', 'skoolkit/bin2tap.py', "        stack_size = len(stack_contents)\n        index = stack - org - stack_size", "        stack_size = len(stack_contents)\n        index = stack - stack_size - org", None),
    ('h06', 'C01', 'harmless', 'skoolkit/snaskool.py', "                        length = sub_block.end - sub_block.start", "                        length = sub_block.end - address", None),
    ('h07', 'C13', 'harmless', 'skoolkit/loadtracer.py', "        while self.block_index < len(self.blocks) and self.block_data_index <= self.state[1] < self.max_index:", "        while self.block_data_index <= self.state[1] < self.max_index and self.block_index < len(self.blocks):", 'opcodes:00'),
    ('h08', 'C14', 'harmless', 'skoolkit/snactl.py', "                    if start <= address < end:\n                        addresses.add(address)", "                    if address >= start and address < end:\n                        addresses.add(address)", None),
    ('h09', 'C09', 'harmless', 'skoolkit/snapshot.py', "    if page is None:\n        for a in range(addr1, addr2 + 1, step):\n            snapshot[a] = poke_f(snapshot[a])", "    if page is None:\n        for a in range(addr1, 1 + addr2, step):\n            old = snapshot[a]\n            snapshot[a] = poke_f(old)", None),
]


def run_one(m, keep=False):
    mid, prop, kind, path, old, new, slots = m
    tmp = tempfile.mkdtemp(prefix='verif_selftest_')
    t0 = time.time()
    try:
        scratch = os.path.join(tmp, 'repo')
        os.makedirs(scratch)
        shutil.copytree(os.path.join(REPO, 'skoolkit'), os.path.join(scratch, 'skoolkit'), ignore=shutil.ignore_patterns('__pycache__', '*.so'))
        shutil.copytree(os.path.join(REPO, 'c'), os.path.join(scratch, 'c'))
        f = os.path.join(scratch, path)
        with open(f) as fh:
            src = fh.read()
        if src.count(old) != 1:
            return mid, prop, kind, 'SETUP-ERROR: pattern found %d times' % src.count(old), 0
        with open(f, 'w') as fh:
            fh.write(src.replace(old, new))
        env = dict(os.environ)
        env.update({'VERIF_REPO': scratch, 'VERIF_EVIDENCE_DIR': os.path.join(tmp, 'evidence'), 'VERIF_REPLAY_DIR': os.path.join(tmp, 'replays')})
        if slots:
            env['VERIF_SLOTS'] = slots
        r = subprocess.run([os.path.join(ROOT, 'check'), prop, '--tier', 'quick'], capture_output=True, text=True, env=env, timeout=3600)
        viol = [l for l in r.stdout.split('\n') if l.startswith('VIOLATION')]
        first = [l for l in r.stdout.split('\n') if 'failing obligation' in l][:1]
        if kind == 'break':
            ok = r.returncode == 1 and bool(viol)
        else:
            ok = r.returncode == 0 and not viol
        verdict = ('OK' if ok else 'MISSED' if kind == 'break' else 'FALSE-ALARM') + ' exit=%d violations=%d %s' % (r.returncode, len(viol), first[0][:160] if first else r.stdout.strip().split('\n')[-1][:160])
        return mid, prop, kind, verdict, time.time() - t0
    finally:
        if not keep:
            shutil.rmtree(tmp, ignore_errors=True)


def main():
    want = set(sys.argv[1:])
    res = []
    for m in MUTANTS:
        if want and m[0] not in want:
            continue
        r = run_one(m)
        res.append(r)
        print('%s %s %-8s %s (%.0fs)' % r, flush=True)
    bad = [r for r in res if not r[3].startswith('OK')]
    print('%d mutants, %d not as expected' % (len(res), len(bad)))
    return 1 if bad else 0


if __name__ == '__main__':
    sys.exit(main())
