"""#FRAMES naming the same frame twice with different delays/offsets: every use keeps its own values."""
import io, struct, sys
from skoolkit import skoolmacro
from skoolkit.graphics import Udg, Frame
from skoolkit.image import ImageWriter

a = Frame([[Udg(56, [255] * 8)] * 2] * 2, 1)
b = Frame([[Udg(7, [15] * 8)]], 1)
end, fname, alt, frames = skoolmacro.parse_frames('(a,50;b,10,0,0;a,20;b,30,8,8)(img)', 0, None, {'a': a, 'b': b})
got = [(f.delay, f.x_offset, f.y_offset) for f in frames]
exp = [(50, 0, 0), (10, 0, 0), (20, 0, 0), (30, 8, 8)]
f = io.BytesIO()
ImageWriter({'PNGEnableAnimation': 1}).write_image(frames, f)
png = f.getvalue()
i = 8
fctl = []
while i < len(png):
    n = struct.unpack('>I', png[i:i + 4])[0]
    if png[i + 4:i + 8] == b'fcTL':
        sn, w, h, x, y, dn, dd = struct.unpack('>IIIIIHH', png[i + 8:i + 32])
        fctl.append((dn * 100 // dd, x, y))
    i += 12 + n
print('specified:', exp)
print('frames   :', got)
print('APNG fcTL:', fctl)
sys.exit(0 if got == exp and fctl == exp else 1)
