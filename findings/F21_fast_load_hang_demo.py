"""F21: tap2sna hangs (endless loop in LoadTracer.fast_load) when LD-BYTES at 0x0556 is called while the tape is inside
the data of the last block. The code below loads 2 bytes of the last block with the simulated ROM routine (CALL 0x0559
bypasses fast loading), then calls 0x0556.

    python3 F21_fast_load_hang_demo.py <number of 4-byte groups in the last block, e.g. 8> <fast-load: 0 or 1>

Before the fix 069e2a4: fast-load=1 never returns (this demo gives up after 60 s and shows where it is stuck).
After: SkoolKitError 'Failed to fast load block: unexpected end of tape'. Writes hang.tzx / hang.z80 in the current directory.
"""
import sys, io, contextlib, signal, os
sys.path.insert(0,'/repo')
from skoolkit import tap2sna
w = lambda v, k=2: list(v.to_bytes(k, 'little'))
def par(d):
    x=0
    for b in d: x^=b
    return x
def std(block, pause=1000): return [0x10]+w(pause)+w(len(block))+block
def hdr(title,start,length,typ):
    h=[0,typ]+[ord(c) for c in title.ljust(10)]+w(length)+w(start)+(w(length) if typ==0 else [0,0])
    return h+[par(h)]
def dat(data):
    d=[255]+list(data); return d+[par(d)]
org=32768
basic=[0,10,16,0,239,34,34,175,58,249,192,176,34]+[ord(c) for c in str(org)]+[34,13]
code=[0xDD,0x21,0x00,0xC0, 0x11,0x02,0x00, 0x37,0x9F,0x08, 0xCD,0x59,0x05,   # CALL 1369: simulated LD-BYTES, DE=2 of a longer block
      0xDD,0x21,0x04,0xC0, 0x11,0x04,0x00, 0x37,0x9F, 0xCD,0x56,0x05, 0x18,0xFE]
stop=org+len(code)-2
extra = int(sys.argv[1])
tzx=list(b'ZXTape!\x1a\x01\x14')
tzx+=std(hdr('loader',10,len(basic),0))+std(dat(basic))+std(hdr('code',org,len(code),3))+std(dat(code))
tzx+=std(dat([1,2,4,8]*extra))
open('hang.tzx','wb').write(bytes(tzx))
def onalarm(sig, frame):
    import traceback; sys.stdout.write('\n'+''.join(traceback.format_stack(frame)[-3:])); raise TimeoutError('still running after 60 s')
signal.signal(signal.SIGALRM,onalarm); signal.alarm(60)
try:
    tap2sna.main(['--start=%d'%stop,'-c','fast-load=%s'%sys.argv[2],'-c','timeout=60','hang.tzx','hang.z80'])
    print('finished')
except TimeoutError as e: print('HANG:', e)
except SystemExit as e: print('exit', e)
except Exception as e: print('exc', repr(e))
