"""F22: '#FRAMES(a;b,10,4,4;c)(img)' rendered frame c at (4,4): a frame specification without parameters inherited
the x,y offsets of the previous one (the documentation: offsets default to (0,0); only the delay carries over).

    PYTHONPATH=<skoolkit tree> python3 F22_frames_offsets_demo.py     # exit 1 before the fix 35d47c3, 0 after
"""
import sys
from skoolkit import skoolmacro
from skoolkit.graphics import Udg, Frame

fmap = {n: Frame([[Udg(56, [0] * 8)] * (2 if n == 'a' else 1)] * (2 if n == 'a' else 1)) for n in 'abc'}
frames = skoolmacro.parse_frames('(a;b,10,4,4;c)(img)', 0, None, fmap)[3]
got = [(f.delay, f.x_offset, f.y_offset) for f in frames]
print(got)
sys.exit(0 if got == [(32, 0, 0), (10, 4, 4), (10, 0, 0)] else 1)
