"""F23: the fill tile of #UDGARRAY (incomplete last row) was one shared module-level Udg placed into the array itself:
the flip/rotation of one macro modified it for every later expansion in the same process.

    PYTHONPATH=<skoolkit tree> python3 F23_fill_udg_state_demo.py     # exit 1 before the fix 0b5f0fd, 0 after
"""
import sys
from skoolkit import sna2img

snap = [0] * 65536


def fill_tile():
    frame = sna2img.MACROS['UDGARRAY'](snap, '2,rotate=1(32768;32776;32784)')
    return [t.data for row in frame.udgs for t in row if any(t.data)]


a, b = fill_tile(), fill_tile()
print(a, b)
sys.exit(0 if a == b else 1)
