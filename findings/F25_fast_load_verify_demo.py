"""F25: LD-BYTES entered at 0x0556 with the carry flag reset VERIFIES (compares the tape with memory, stores nothing).
tap2sna's fast loading ignored the carry flag and stored the block: fast-load=1 and fast-load=0 ended with different
memory.  Run from a directory where props/ of /verif is importable:

    PYTHONPATH=/verif:<skoolkit tree> python3 F25_fast_load_verify_demo.py     # exit 1 before the fix b4de41a, 0 after
"""
import sys
from props import fastloadvc

r = fastloadvc.verify_mode_scenario()
print(r['diffs'])
sys.exit(1 if r['diffs'] else 0)
