"""C10: save to SZX after the T-state counter has passed 2**24 and resume: the frame position must be that of the
uninterrupted run. exit 0 = transparent, 1 = not."""
import os, sys, tempfile, io, contextlib
from skoolkit import trace
from skoolkit.snapshot import Snapshot

tmp = tempfile.mkdtemp()
prog = bytes([0x3C, 0x18, 0xFD])            # 8000: INC A ; JR 8000
binf = os.path.join(tmp, 'p.bin')
open(binf, 'wb').write(prog)

def run(args):
    out = io.StringIO()
    with contextlib.redirect_stdout(out), contextlib.redirect_stderr(out):
        trace.main(args)
    return out.getvalue()

def state(f):
    s = Snapshot.get(f)
    return dict(a=s.a, f=s.f, pc=s.pc, r=s.r, tstates=s.tstates, iff=s.iff1)

bad = 0
for fmt in ('z80', 'szx'):
    t0 = 16777216 - 200                       # the counter passes 2**24 during the first part of the run
    N, n1 = 200, 120
    full = os.path.join(tmp, 'full.z80')
    run(['-o', '32768', '-s', '32768', '--state', 'tstates=%d' % t0, '-m', str(N), binf, full])
    mid = os.path.join(tmp, 'mid.' + fmt)
    run(['-o', '32768', '-s', '32768', '--state', 'tstates=%d' % t0, '-m', str(n1), binf, mid])
    res = os.path.join(tmp, 'res.z80')
    run(['-m', str(N - n1), mid, res])
    a, b = state(full), state(res)
    ok = a == b
    print(fmt, 'uninterrupted:', a)
    print(fmt, 'save+resume:  ', b, 'OK' if ok else 'DIFFERENT')
    bad |= not ok
sys.exit(1 if bad else 0)
