"""A DEC-counter sampling loop (the 'software-projects' shape) entered with B = 0 (256 iterations):
accelerator on vs off must give the same snapshot. exit 0 = identical, 1 = differ."""
import os, sys, tempfile, io, contextlib, subprocess
from skoolkit import bin2tap, tap2sna
from skoolkit.snapshot import Snapshot

code = [
    0xF3,                   # 8000 DI
    0x0E, 0x00,             # 8001 LD C,0      ; expected EAR level
    0x06, 0x00,             # 8003 LD B,0      ; wait for the first edge of the next block, however long it takes
    0xCD, 0x20, 0x80,       # 8005 CALL 8020
    0x28, 0xF9,             # 8008 JR Z,8003   ; timed out: again
    0x06, 0x00,             # 800A LD B,0      ; same again: the edge that starts the next block (a second away)
    0xCD, 0x20, 0x80,       # 800C CALL 8020
    0x28, 0xF9,             # 800F JR Z,800A
    0x06, 0x00,             # 8011 LD B,0      ; now inside the pilot tone: 256 iterations allowed, ~42 needed
    0xCD, 0x20, 0x80,       # 8013 CALL 8020
    0xC3, 0x40, 0x80,       # 8016 JP 8040
]
code += [0] * (0x20 - len(code))
code += [
    0x3E, 0x7F,             # 8020 LD A,7F      <- 'software-projects' signature
    0xDB, 0xFE,             # 8022 IN A,(FE)
    0xA9,                   # 8024 XOR C
    0xE6, 0x40,             # 8025 AND 40
    0x20, 0x04,             # 8027 JR NZ,802D
    0x05,                   # 8029 DEC B
    0x20, 0xF4,             # 802A JR NZ,8020
    0xC9,                   # 802C RET          ; timeout (Z set)
    0x79, 0xEE, 0x40, 0x4F, # 802D LD A,C; XOR 40; LD C,A  (flip the expected EAR level)
    0xF6, 0x01,             # 8031 OR 1 (NZ)
    0xC9,                   # 8033 RET
]
code += [0] * (0x40 - len(code))
code += [0x18, 0xFE]        # 8040 JR 8040

tmp = tempfile.mkdtemp()
binf = os.path.join(tmp, 'p.bin')
open(binf, 'wb').write(bytes(code))
tap = os.path.join(tmp, 'p.tap')
bin2tap.main(['-o', '32768', '-s', '32768', binf, tap])
# a third block for the custom loop to sample
data = [0xFF] + [0x55] * 50
data.append(0)
for b in data[:-1]:
    data[-1] ^= b
blk = [len(data) % 256, len(data) // 256] + data
open(tap, 'ab').write(bytes(blk))

def load(acc, py):
    z = os.path.join(tmp, 'o_%s_%s.z80' % (acc, py))
    out = io.StringIO()
    args = ['-c', 'accelerator=' + acc, '-c', 'python=%d' % py, '-c', 'finish-tape=0', '-c', 'timeout=60', '--start', str(0x8040), tap, z]
    r = subprocess.run([sys.executable, '-c', 'import sys; from skoolkit import tap2sna; tap2sna.main(sys.argv[1:])'] + args, capture_output=True, text=True)
    print(r.stdout[-600:]) if os.environ.get("DBG") else None
    if not os.path.exists(z):
        return ('no snapshot', r.returncode, (r.stdout + r.stderr)[-300:])
    s = Snapshot.get(z)
    return dict(a=s.a, f=s.f, bc=s.bc, de=s.de, hl=s.hl, sp=s.sp, r=s.r, pc=s.pc, t=s.tstates, ram=hash(bytes(s.ram())))

bad = 0
for py in (1, 0):
    ref = load('none', py)
    got = load('software-projects', py)
    same = ref == got
    print('python=%d accelerator=none              ->' % py, ref)
    print('python=%d accelerator=software-projects ->' % py, got)
    if not same:
        bad = 1
sys.exit(bad)
