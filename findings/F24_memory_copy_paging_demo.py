"""F24: skoolutils.Memory.copy() located the paged bank with list.index(), i.e. by contents: with RAM banks holding the
same bytes the copy maps the first equal bank at 0xC000 although o7ffd names another one.

    PYTHONPATH=<skoolkit tree> python3 F24_memory_copy_paging_demo.py     # exit 1 before the fix f243513, 0 after
"""
import sys
from skoolkit.skoolutils import Memory

m = Memory(banks=[[0] * 0x4000 for i in range(8)])
m.out7ffd(3)
c = m.copy()
c[0xC000] = 99
print('o7ffd', c.o7ffd, '- byte 0 of bank 3:', c.banks[3][0], ' byte 0 of bank 0:', c.banks[0][0])
sys.exit(0 if c.banks[3][0] == 99 and c.banks[0][0] == 0 else 1)
