"""Table contracts: every lookup table the simulators index is specified by a
closed-form function of its indices (taken from z80spec, i.e. from the flag
rules, not from the table-building expressions in simtables.py).

* E: `check_tables()` evaluates the real table objects on their whole index
  space against these functions (complete, ~1.6 M entries).
* P: inside closures a lookup `T[i][j]` is replaced by `fn(i, j)` applied to
  the index terms (modular reasoning: the closure is verified for any table
  satisfying the contract).
"""
import importlib

from contracts import z80spec as Z
from pyvc.engine import TabRef


def _hnc(f):
    return ((f & 0x10) >> 2) | (f & 3)


# (module, name, dims, contract function)
TABLES = [
    ('skoolkit.simtables', 'PARITY', (256,), lambda r: Z.par(r)),
    ('skoolkit.simtables', 'SZ53P', (256,), lambda r: Z.sz53p(r)),
    ('skoolkit.simtables', 'ADC', (2, 256, 256), lambda c, a, v: Z.add8(a, v, c)),
    ('skoolkit.simtables', 'ADC_A_A', (2, 256), lambda c, a: Z.add8(a, a, c)),
    ('skoolkit.simtables', 'ADD', (256, 256), lambda a, v: Z.add8(a, v, 0)),
    ('skoolkit.simtables', 'AND', (256, 256), lambda a, v: Z.and8(a, v)),
    ('skoolkit.simtables', 'BIT', (2, 8, 256), lambda c, b, v: Z.bit8(c, b, v)),
    ('skoolkit.simtables', 'CCF', (256, 256), lambda f, a: Z.ccf(f, a)),
    ('skoolkit.simtables', 'CP', (256, 256), lambda a, v: Z.cp8(a, v)),
    ('skoolkit.simtables', 'CPL', (256, 256), lambda a, f: Z.cpl(a, f)),
    ('skoolkit.simtables', 'HNC', (256,), _hnc),
    ('skoolkit.simtables', 'DAA_af', (256, 8), lambda a, d: Z.daa_af(a, d)),
    ('skoolkit.simtables', 'DAA', (256, 256), lambda a, f: Z.daa(a, f)),
    ('skoolkit.simtables', 'DEC', (2, 256), lambda c, v: Z.dec8(v, c)),
    ('skoolkit.simtables', 'INC', (2, 256), lambda c, v: Z.inc8(v, c)),
    ('skoolkit.simtables', 'NEG', (256,), lambda a: Z.neg8(a)),
    ('skoolkit.simtables', 'OR', (256, 256), lambda a, v: Z.or8(a, v)),
    ('skoolkit.simtables', 'RL_r', (2, 256), lambda c, r: Z.rot8(2, r, c)[0]),
    ('skoolkit.simtables', 'RL', (2, 256), lambda c, r: Z.rot8(2, r, c)),
    ('skoolkit.simtables', 'RLC_r', (256,), lambda r: Z.rot8(0, r, 0)[0]),
    ('skoolkit.simtables', 'RLC', (256,), lambda r: Z.rot8(0, r, 0)),
    ('skoolkit.simtables', 'RR_r', (2, 256), lambda c, r: Z.rot8(3, r, c)[0]),
    ('skoolkit.simtables', 'RR', (2, 256), lambda c, r: Z.rot8(3, r, c)),
    ('skoolkit.simtables', 'RRC_r', (256,), lambda r: Z.rot8(1, r, 0)[0]),
    ('skoolkit.simtables', 'RRC', (256,), lambda r: Z.rot8(1, r, 0)),
    ('skoolkit.simtables', 'RLA', (256, 256), lambda a, f: Z.rota(2, a, f)),
    ('skoolkit.simtables', 'RLCA', (256, 256), lambda a, f: Z.rota(0, a, f)),
    ('skoolkit.simtables', 'RRA', (256, 256), lambda a, f: Z.rota(3, a, f)),
    ('skoolkit.simtables', 'RRCA', (256, 256), lambda a, f: Z.rota(1, a, f)),
    ('skoolkit.simtables', 'SBC', (2, 256, 256), lambda c, a, v: Z.sub8(a, v, c)),
    ('skoolkit.simtables', 'SBC_A_A', (2, 256), lambda c, a: Z.sub8(a, a, c)),
    ('skoolkit.simtables', 'SCF', (256, 256), lambda f, a: Z.scf(f, a)),
    ('skoolkit.simtables', 'SLA', (256,), lambda r: Z.rot8(4, r, 0)),
    ('skoolkit.simtables', 'SLL', (256,), lambda r: Z.rot8(6, r, 0)),
    ('skoolkit.simtables', 'SRA', (256,), lambda r: Z.rot8(5, r, 0)),
    ('skoolkit.simtables', 'SRL', (256,), lambda r: Z.rot8(7, r, 0)),
    ('skoolkit.simtables', 'SUB', (256, 256), lambda a, v: Z.sub8(a, v, 0)),
    ('skoolkit.simtables', 'XOR', (256, 256), lambda a, v: Z.xor8(a, v)),
    ('skoolkit.simulator', 'JR_OFFSETS', (256,), lambda j: Z.signed8(j) + 2),
    ('skoolkit.simulator', 'OFFSETS', (256,), lambda d: Z.signed8(d)),
    ('skoolkit.simulator', 'R1', (256,), lambda r: Z.r_inc(r, 1)),
    ('skoolkit.simulator', 'R2', (256,), lambda r: Z.r_inc(r, 2)),
    ('skoolkit.loadtracer', 'DEC', (2, 256), lambda c, v: Z.dec8(v, c)),
    ('skoolkit.loadtracer', 'DEC0', (256,), lambda v: Z.dec8(v, 0)),
    ('skoolkit.loadtracer', 'INC0', (256,), lambda v: Z.inc8(v, 0)),
    ('skoolkit.cmiosimulator', 'DELAYS_48K', (69888,), lambda t: Z.ula_delay_at(48, t)),
    ('skoolkit.cmiosimulator', 'DELAYS_128K', (70908,), lambda t: Z.ula_delay_at(128, t)),
]


def table_object(mod, name):
    return getattr(importlib.import_module(mod), name)


def registry():
    """id(real object) -> TabRef for every table under contract and for each of
    its first-level rows (simtables aliases rows: ADD = ADC[0], SLA = RL[0] ...).
    The real objects are kept alive by the modules that own them."""
    reg = {}
    for mod, name, dims, fn in TABLES:
        obj = table_object(mod, name)
        reg.setdefault(id(obj), TabRef(name, dims, fn, (), obj))
    for mod, name, dims, fn in TABLES:
        if len(dims) < 2:
            continue
        obj = table_object(mod, name)
        for i, row in enumerate(obj):
            reg.setdefault(id(row), TabRef(name, dims, fn, (i,), row))
    return reg


def _shape_ok(obj, dims):
    if len(obj) != dims[0]:
        return False
    if len(dims) == 1:
        return True
    return all(_shape_ok(x, dims[1:]) for x in obj)


def check_table(k, lo=None, hi=None):
    """Exhaustively compare table k (rows lo..hi of the first dimension) with its
    contract. Returns (entries, first mismatches)."""
    import itertools
    mod, name, dims, fn = TABLES[k]
    obj = table_object(mod, name)
    bad = []
    if lo in (None, 0) and not _shape_ok(obj, dims):
        bad.append((name, 'shape', None, dims))
        return 0, bad
    rng0 = range(dims[0]) if lo is None else range(lo, min(hi, dims[0]))
    n = 0
    for idx in itertools.product(rng0, *[range(d) for d in dims[1:]]):
        o = obj
        for i in idx:
            o = o[i]
        e = fn(*idx)
        n += 1
        if isinstance(e, tuple):
            ok = isinstance(o, tuple) and len(o) == len(e) and all(type(x) in (int, bool) and x == y for x, y in zip(o, e))
        else:
            ok = type(o) in (int, bool) and o == e
        if not ok:
            bad.append((name, idx, o, e))
            if len(bad) >= 5:
                break
    return n, bad
