"""z80spec: ISA-level specification of the Z80 as used by the contracts.

Decoded from opcode bits (x/y/z/p/q fields, r[], rp[], rp2[], cc[], alu[],
rot[] tables, DD/FD substitution rules) - structurally independent of
skoolkit's 1792 hand-wired dispatch slots.  Sources: Zilog UM0080 (results,
documented flags, sizes, T-states); Sean Young, "The Undocumented Z80
Documented" v0.91 (undocumented forms, block I/O flags, DAA); comp.sys.sinclair
FAQ "Contended memory / contended I/O" (machine cycle breakdowns, 6,5,4,3,2,1,0,0
pattern).

The text is *polymorphic*: it only uses + - & | ^ >> << on values, comparison
operators, and ite/and_/or_/not_ from pyvc.poly for data-dependent choices, so
the very same functions are evaluated on Python ints (exhaustive table checks,
concrete cross-checks, replay of counterexamples) and on SMT terms (VCs).
Decoding branches depend only on the (concrete) opcode bytes of the slot.
"""
from pyvc.poly import ite, and_, or_, not_
from pyvc import poly as _poly

A, F, B, C, D, E, H, L, IXh, IXl, IYh, IYl, SP, SP2, I, R, xA, xF, xB, xC, xD, xE, xH, xL, PC, T, IFF, IM, HALT, MEMPTR = range(30)
REGNAMES = ('A', 'F', 'B', 'C', 'D', 'E', 'H', 'L', 'IXh', 'IXl', 'IYh', 'IYl', 'SP', 'SP2', 'I', 'R',
            'xA', 'xF', 'xB', 'xC', 'xD', 'xE', 'xH', 'xL', 'PC', 'T', 'IFF', 'IM', 'HALT', 'MEMPTR')

FRAME = {48: 69888, 128: 70908}
INT_ACTIVE = {48: 32, 128: 36}
CONT_FIRST = {48: 14335, 128: 14361}
LINE = {48: 224, 128: 228}


def b2i(c):
    """bool -> 0/1"""
    return ite(c, 1, 0)


# ---------------------------------------------------------------- flag rules
def par(x):
    """P/V flag value (4) iff x (0..255) has even parity."""
    p = x ^ (x >> 4)
    p = p ^ (p >> 2)
    p = p ^ (p >> 1)
    return ((p & 1) ^ 1) << 2


def sz53(r):
    return (r & 0xA8) | ite(r == 0, 0x40, 0)


def sz53p(r):
    return sz53(r) | par(r)


def add8(a, v, c):
    s = a + v + c
    r = s & 255
    hf = ite(((a & 15) + (v & 15) + c) > 15, 0x10, 0)
    vf = ite(and_(((a ^ v) & 0x80) == 0, ((a ^ r) & 0x80) != 0), 4, 0)
    return r, sz53(r) | hf | vf | ite(s > 255, 1, 0)


def sub8(a, v, c):
    s = a - v - c
    r = s & 255
    hf = ite(((a & 15) - (v & 15) - c) < 0, 0x10, 0)
    vf = ite(and_(((a ^ v) & 0x80) != 0, ((a ^ r) & 0x80) != 0), 4, 0)
    return r, sz53(r) | hf | vf | 2 | ite(s < 0, 1, 0)


def cp8(a, v):
    r, f = sub8(a, v, 0)
    return a, (f & 0xD7) | (v & 0x28)


def and8(a, v):
    r = a & v
    return r, sz53p(r) | 0x10


def or8(a, v):
    r = a | v
    return r, sz53p(r)


def xor8(a, v):
    r = a ^ v
    return r, sz53p(r)


def inc8(v, c):
    r = (v + 1) & 255
    return r, sz53(r) | ite((v & 15) == 15, 0x10, 0) | ite(v == 0x7F, 4, 0) | c


def dec8(v, c):
    r = (v - 1) & 255
    return r, sz53(r) | ite((v & 15) == 0, 0x10, 0) | ite(v == 0x80, 4, 0) | 2 | c


def neg8(a):
    return sub8(0, a, 0)


def daa(a, f):
    """Young's DAA table."""
    c = f & 1
    h = (f >> 4) & 1
    n = (f >> 1) & 1
    lo = a & 15
    hi = a >> 4
    diff_c0 = ite(and_(hi <= 9, h == 0, lo <= 9), 0,
                  ite(or_(and_(hi <= 9, h == 1, lo <= 9), and_(hi <= 8, lo >= 10)), 6,
                      ite(and_(hi >= 10, h == 0, lo <= 9), 0x60, 0x66)))
    diff_c1 = ite(and_(h == 0, lo <= 9), 0x60, 0x66)
    diff = ite(c == 0, diff_c0, diff_c1)
    cf = b2i(or_(c != 0, and_(hi >= 9, lo >= 10), and_(hi >= 10, lo <= 9)))
    hf = ite(n == 0, b2i(lo >= 10), b2i(and_(h != 0, lo <= 5)))
    r = ite(n != 0, (a - diff) & 255, (a + diff) & 255)
    return r, sz53p(r) | (hf << 4) | (n << 1) | cf


def daa_af(a, d):
    """DAA core on (A, d) with d = H*4 + N*2 + C: (result, H N C bits)."""
    r, f = daa(a, ((d & 4) << 2) | (d & 3))
    return r, f & 0x13


def cpl(a, f):
    r = a ^ 255
    return r, (f & 0xC5) | (r & 0x28) | 0x12


def scf(f, a):
    return (f & 0xC4) | (a & 0x28) | 1


def ccf(f, a):
    return (f & 0xC4) | (a & 0x28) | ((f & 1) << 4) | ((f & 1) ^ 1)


def rot8(y, v, c):
    """CB rotate/shift group y on v with carry-in c: (result, flags)."""
    if y == 0:
        r = ((v << 1) | (v >> 7)) & 255; cy = v >> 7          # RLC
    elif y == 1:
        r = (v >> 1) | ((v & 1) << 7); cy = v & 1              # RRC
    elif y == 2:
        r = ((v << 1) | c) & 255; cy = v >> 7                  # RL
    elif y == 3:
        r = (v >> 1) | (c << 7); cy = v & 1                    # RR
    elif y == 4:
        r = (v << 1) & 255; cy = v >> 7                        # SLA
    elif y == 5:
        r = (v >> 1) | (v & 0x80); cy = v & 1                  # SRA
    elif y == 6:
        r = ((v << 1) | 1) & 255; cy = v >> 7                  # SLL
    else:
        r = v >> 1; cy = v & 1                                 # SRL
    return r, sz53p(r) | cy


def rota(y, a, f):
    """RLCA/RRCA/RLA/RRA: (result, flags)."""
    c = f & 1
    if y == 0:
        r = ((a << 1) | (a >> 7)) & 255; cy = a >> 7
    elif y == 1:
        r = (a >> 1) | ((a & 1) << 7); cy = a & 1
    elif y == 2:
        r = ((a << 1) | c) & 255; cy = a >> 7
    else:
        r = (a >> 1) | (c << 7); cy = a & 1
    return r, (f & 0xC4) | (r & 0x28) | cy


def bit8(c, b, v):
    """BIT b,v flags with carry c kept; bits 5,3 from v."""
    z = ((v >> b) & 1) == 0
    s = ite(z, 0, 0x80) if b == 7 else 0
    return s | ite(z, 0x44, 0) | 0x10 | c | (v & 0x28)


def r_inc(r, n):
    return (r & 0x80) | ((r + n) & 0x7F)


def signed8(d):
    return ite(d > 127, d - 256, d)


# ---------------------------------------------------------------- contention
PATTERN = (6, 5, 4, 3, 2, 1, 0, 0)


def ula_delay_at(machine, t):
    """Delay imposed on a contended cycle that begins at frame T-state t
    (0 <= t < frame + first): 6,5,4,3,2,1,0,0 repeating from the first
    contended T-state of each of the 192 display lines, for 128 T-states.
    On SMT terms the function is kept opaque (uninterpreted + range and
    outside-the-display facts) and revealed only when an obligation needs it."""
    if isinstance(t, _poly.SV):
        first = CONT_FIRST[machine]
        last = ula_last(machine)
        return _poly.opaque('ULA%d' % machine, t, 0, 6, lambda a: ula_delay_def(machine, a),
                            lambda a, app: [or_(and_(a >= first, a < last), app == 0)])
    return ula_delay_def(machine, t)


def ula_last(machine):
    """First T-state after the last one at which a delay is imposed: on the last
    display line the pattern's two trailing zeros end the contended period 2
    T-states early (lemma `ula_window`, discharged on every run)."""
    return CONT_FIRST[machine] + LINE[machine] * 191 + 126


def ula_delay_def(machine, t):
    first = CONT_FIRST[machine]
    line = LINE[machine]
    # (t - first) mod line, written with a non-negative dividend: -first = k (mod line)
    k = (-first) % line
    u = (t + k) % line
    w = u & 7
    d = ite(w == 0, 6, ite(w == 1, 5, ite(w == 2, 4, ite(w == 3, 3, ite(w == 4, 2, ite(w == 5, 1, 0))))))
    return ite(and_(t >= first, t < first + line * 192, u < 128), d, 0)


def is_contended(machine, addr, o7ffd):
    c = and_(addr >= 0x4000, addr < 0x8000)
    if machine == 128:
        c = or_(c, and_((o7ffd & 1) != 0, addr >= 0xC000))
    return c


def ula_fold(machine, tm, cycles, o7ffd):
    """Total delay of an instruction that starts at frame position tm and
    performs `cycles` in order.  cycle = (contended?, length, exists?)."""
    t = tm
    delay = 0
    for cont, n, ex in cycles:
        cd = ite(and_(ex, cont), ula_delay_at(machine, t), 0)
        delay = delay + cd
        t = t + cd + ite(ex, n, 0)
    return delay


# ---------------------------------------------------------------- state
class IntMem:
    """Concrete memory: base (sequence of 65536 ints, never written) + overlay."""

    def __init__(self, base):
        self.base = base
        self.w = {}

    def rd(self, a):
        a &= 0xFFFF
        return self.w.get(a, self.base[a])

    def wr(self, cond, a, v):
        if cond:
            self.w[a & 0xFFFF] = v


class Cfg:
    def __init__(self, machine=48, cmio=False, in_a_n=True, in_r_c=True, ini=True, out=True, o7ffd=0,
                 frame_duration=None, int_active=None):
        self.machine = machine
        self.cmio = cmio
        self.in_a_n = in_a_n
        self.in_r_c = in_r_c
        self.ini = ini
        self.out = out
        self.o7ffd = o7ffd
        self.fd = frame_duration or FRAME[machine]
        self.ia = int_active or INT_ACTIVE[machine]


class Out:
    pass


def indexable(op):
    """Does a DD/FD prefix change the meaning of opcode op?"""
    x = op >> 6; y = (op >> 3) & 7; z = op & 7
    if x == 1:
        return op != 0x76 and (y in (4, 5, 6) or z in (4, 5, 6))
    if x == 2:
        return z in (4, 5, 6)
    if x == 0:
        if z == 1:
            return (y >> 1) == 2 or (y & 1) == 1
        if z == 2:
            return y in (4, 5)
        if z == 3:
            return (y >> 1) == 2
        if z in (4, 5, 6):
            return y in (4, 5, 6)
        return False
    return op in (0xE1, 0xE3, 0xE5, 0xE9, 0xF9)


class Step:
    """One instruction. prefix in '', 'CB', 'ED', 'DD', 'FD', 'DDCB', 'FDCB'; PC
    points at the first byte of the sequence. `inval` is the byte delivered by
    the port-read callback (when one is installed)."""

    def __init__(self, prefix, opcode, regs, mem, cfg, inval=None):
        self.prefix = prefix
        self.op = opcode
        self.r = list(regs)
        self.r0 = list(regs)
        self.m = mem
        self.cfg = cfg
        self.inval = inval
        self.ports = []
        self.mask = 0xFF        # which F bits are asserted
        self.cyc = []           # machine cycles: (contended?, length, exists?)
        self.base = None        # T-states without contention (value, may be an ite)
        self.size = None        # bytes consumed on the fall-through path
        self.tset = None        # set of possible uncontended T-state counts
        self.halted_fetch = False
        self.run()

    # -- helpers
    def rd(self, a):
        return self.m.rd(a & 0xFFFF)

    def wr(self, a, v, cond=True):
        a = a & 0xFFFF
        self.m.wr(and_(cond, a > 0x3FFF), a, v)

    def pair(self, h, l):
        return self.r[l] + 256 * self.r[h]

    def setpair(self, h, l, v):
        self.r[h] = (v >> 8) & 255
        self.r[l] = v & 255

    def mc(self, addr, n, ex=True):
        self.cyc.append((is_contended(self.cfg.machine, addr & 0xFFFF, self.cfg.o7ffd), n, ex))

    def io(self, port, ex=True):
        port = port & 0xFFFF
        hi = is_contended(self.cfg.machine, port, self.cfg.o7ffd)
        low = (port & 1) != 0
        self.cyc.append((False, 4, and_(ex, low, not_(hi))))
        for _ in range(4):
            self.cyc.append((True, 1, and_(ex, low, hi)))
        self.cyc.append((True, 1, and_(ex, not_(low), hi)))
        self.cyc.append((False, 1, and_(ex, not_(low), not_(hi))))
        self.cyc.append((True, 3, and_(ex, not_(low))))

    def cc(self, y):
        f = self.r[F]
        bit = (0x40, 0x40, 0x01, 0x01, 0x04, 0x04, 0x80, 0x80)[y]
        return ((f & bit) != 0) if y & 1 else ((f & bit) == 0)

    def push(self, v, cond=True):
        sp = self.r[SP]
        sp2 = (sp - 2) & 0xFFFF
        self.wr(sp2, v & 255, cond)
        self.wr(sp2 + 1, (v >> 8) & 255, cond)
        self.r[SP] = ite(cond, sp2, sp)

    def pop(self):
        sp = self.r[SP]
        v = self.rd(sp) + 256 * self.rd(sp + 1)
        self.r[SP] = (sp + 2) & 0xFFFF
        return v

    def finish(self, base, size=None, pc=None, tset=None):
        """Set T-states (uncontended base + contention delay) and PC."""
        self.base = base
        self.size = size
        self.tset = tset if tset is not None else ({base} if isinstance(base, int) else None)
        if pc is None:
            pc = (self.r0[PC] + size) & 0xFFFF
        self.r[PC] = pc

    def delay(self):
        if not self.cfg.cmio:
            return 0
        tm = self.r0[T] % self.cfg.fd
        return ula_fold(self.cfg.machine, tm, self.cyc, self.cfg.o7ffd)

    # -- decode
    def run(self):
        r = self.r
        pfx = self.prefix
        pc = r[PC]
        if pfx in ('DD', 'FD'):
            hh, ll = (IXh, IXl) if pfx == 'DD' else (IYh, IYl)
            if indexable(self.op):
                r[R] = r_inc(r[R], 2)
                self.mc(pc, 4)
                self.main(self.op, hh, ll, 1)
            else:
                # the prefix alone: a 4 T-state no-op; the next byte is decoded afresh
                r[R] = r_inc(r[R], 1)
                self.mc(pc, 4)
                self.finish(4, 1)
        elif pfx == 'CB':
            r[R] = r_inc(r[R], 2)
            self.cb()
        elif pfx == 'ED':
            r[R] = r_inc(r[R], 2)
            self.ed()
        elif pfx in ('DDCB', 'FDCB'):
            r[R] = r_inc(r[R], 2)
            self.ddcb(*((IXh, IXl) if pfx == 'DDCB' else (IYh, IYl)))
        else:
            r[R] = r_inc(r[R], 1)
            self.main(self.op, H, L, 0)
        d = self.delay()
        self.delay_v = d
        if self.deferred_T is None:
            r[T] = self.r0[T] + self.base + d
        else:
            self.deferred_T(d)

    deferred_T = None

    def main(self, op, hh, ll, po):
        """Unprefixed opcode table; po = 1 when behind a DD/FD prefix."""
        r = self.r
        pc0 = self.r0[PC]
        pc = (pc0 + po) & 0xFFFF    # address of the opcode byte
        idx = po == 1
        x = op >> 6; y = (op >> 3) & 7; z = op & 7; p = y >> 1; q = y & 1
        RP = [(B, C), (D, E), (hh, ll), None]
        r8 = [B, C, D, E, hh, ll, None, A]      # DD/FD: H/L -> IXh/IXl when no (HL) operand
        r8m = [B, C, D, E, H, L, None, A]       # with a memory operand H and L stay themselves
        self.mc(pc, 4)
        ir = self.r0[R] + 256 * r[I]

        def disp_addr():
            d = signed8(self.rd(pc + 1))
            return (self.pair(hh, ll) + d) & 0xFFFF

        def getrp(p_):
            return r[SP] if p_ == 3 else self.pair(*RP[p_])

        def setrp(p_, v):
            if p_ == 3:
                r[SP] = v & 0xFFFF
            else:
                self.setpair(RP[p_][0], RP[p_][1], v & 0xFFFF)

        def mem_operand_cycles():
            """cycles that fetch d and compute (ii+d), if indexed; returns operand address"""
            if idx:
                a = disp_addr()
                self.mc(pc + 1, 3)
                for _ in range(5):
                    self.mc(pc + 1, 1)
                return a
            return self.pair(H, L)

        ext = 1 if idx else 0
        if x == 1:
            if op == 0x76:
                return self.halt()
            if z == 6:
                a = mem_operand_cycles(); self.mc(a, 3)
                r[r8m[y]] = self.rd(a)
                return self.finish(7 + 12 * ext, 1 + po + ext)
            if y == 6:
                a = mem_operand_cycles(); self.mc(a, 3)
                self.wr(a, r[r8m[z]])
                return self.finish(7 + 12 * ext, 1 + po + ext)
            r[r8[y]] = r[r8[z]]
            return self.finish(4 + 4 * po, 1 + po)
        if x == 2:
            if z == 6:
                a = mem_operand_cycles(); self.mc(a, 3)
                v = self.rd(a)
                self.alu(y, v)
                return self.finish(7 + 12 * ext, 1 + po + ext)
            self.alu(y, r[r8[z]])
            return self.finish(4 + 4 * po, 1 + po)
        if x == 0:
            if z == 0:
                if y == 0:
                    return self.finish(4, 1)
                if y == 1:
                    r[A], r[xA] = r[xA], r[A]
                    r[F], r[xF] = r[xF], r[F]
                    return self.finish(4, 1)
                d = signed8(self.rd(pc + 1))
                if y == 2:
                    self.mc(ir, 1)
                    r[B] = (r[B] - 1) & 255
                    take = r[B] != 0
                    tn, tt = 8, 13
                elif y == 3:
                    take = True
                    tn, tt = 12, 12
                else:
                    take = self.cc(y - 4)
                    tn, tt = 7, 12
                self.mc(pc + 1, 3)
                for _ in range(5):
                    self.mc(pc + 1, 1, take)
                return self.finish(ite(take, tt, tn), 2, ite(take, (pc + 2 + d) & 0xFFFF, (pc + 2) & 0xFFFF), {tn, tt})
            if z == 1:
                if q == 0:
                    self.mc(pc + 1, 3); self.mc(pc + 2, 3)
                    setrp(p, self.rd(pc + 1) + 256 * self.rd(pc + 2))
                    return self.finish(10 + 4 * po, 3 + po)
                for _ in range(7):
                    self.mc(ir, 1)
                a = self.pair(hh, ll)
                v = getrp(p)
                res = a + v
                f = (r[F] & 0xC4) | ite(res > 0xFFFF, 1, 0) | ite((a & 0xFFF) + (v & 0xFFF) > 0xFFF, 0x10, 0) | ((res >> 8) & 0x28)
                self.setpair(hh, ll, res & 0xFFFF)
                r[F] = f
                return self.finish(11 + 4 * po, 1 + po)
            if z == 2:
                if p < 2:
                    a = self.pair(*RP[p])
                    self.mc(a, 3)
                    if q == 0:
                        self.wr(a, r[A])
                    else:
                        r[A] = self.rd(a)
                    return self.finish(7, 1)
                self.mc(pc + 1, 3); self.mc(pc + 2, 3)
                a = self.rd(pc + 1) + 256 * self.rd(pc + 2)
                if p == 2:
                    self.mc(a, 3); self.mc(a + 1, 3)
                    if q == 0:
                        self.wr(a, r[ll]); self.wr(a + 1, r[hh])
                    else:
                        lo = self.rd(a); hi = self.rd(a + 1)
                        r[ll] = lo; r[hh] = hi
                    return self.finish(16 + 4 * po, 3 + po)
                self.mc(a, 3)
                if q == 0:
                    self.wr(a, r[A])
                else:
                    r[A] = self.rd(a)
                return self.finish(13, 3)
            if z == 3:
                self.mc(ir, 1); self.mc(ir, 1)
                setrp(p, (getrp(p) + (1 if q == 0 else -1)) & 0xFFFF)
                return self.finish(6 + 4 * po, 1 + po)
            if z in (4, 5):
                c = r[F] & 1
                if y == 6:
                    a = mem_operand_cycles(); self.mc(a, 3); self.mc(a, 1); self.mc(a, 3)
                    v = self.rd(a)
                    res, r[F] = inc8(v, c) if z == 4 else dec8(v, c)
                    self.wr(a, res)
                    return self.finish(11 + 12 * ext, 1 + po + ext)
                i = r8[y]
                r[i], r[F] = inc8(r[i], c) if z == 4 else dec8(r[i], c)
                return self.finish(4 + 4 * po, 1 + po)
            if z == 6:
                if y == 6:
                    if idx:
                        a = disp_addr()
                        self.mc(pc + 1, 3); self.mc(pc + 2, 3); self.mc(pc + 2, 1); self.mc(pc + 2, 1); self.mc(a, 3)
                        self.wr(a, self.rd(pc + 2))
                        return self.finish(19, 4)
                    a = self.pair(H, L)
                    self.mc(pc + 1, 3); self.mc(a, 3)
                    self.wr(a, self.rd(pc + 1))
                    return self.finish(10, 2)
                self.mc(pc + 1, 3)
                r[r8[y]] = self.rd(pc + 1)
                return self.finish(7 + 4 * po, 2 + po)
            # z == 7
            a = r[A]; f = r[F]
            if y < 4:
                r[A], r[F] = rota(y, a, f)
            elif y == 4:
                r[A], r[F] = daa(a, f)
            elif y == 5:
                r[A], r[F] = cpl(a, f)
            elif y == 6:
                r[F] = scf(f, a); self.mask = 0xD7
            else:
                r[F] = ccf(f, a); self.mask = 0xD7
            return self.finish(4, 1)
        # x == 3
        if z == 0:
            self.mc(ir, 1)
            take = self.cc(y)
            sp = r[SP]
            self.mc(sp, 3, take); self.mc(sp + 1, 3, take)
            target = self.rd(sp) + 256 * self.rd(sp + 1)
            r[SP] = ite(take, (sp + 2) & 0xFFFF, sp)
            return self.finish(ite(take, 11, 5), 1, ite(take, target, (pc + 1) & 0xFFFF), {5, 11})
        if z == 1:
            if q == 0:
                sp = r[SP]
                self.mc(sp, 3); self.mc(sp + 1, 3)
                lo = self.rd(sp); hi = self.rd(sp + 1)
                r[SP] = (sp + 2) & 0xFFFF
                if p == 3:
                    r[A] = hi; r[F] = lo
                else:
                    r[RP[p][0]] = hi; r[RP[p][1]] = lo
                return self.finish(10 + 4 * po, 1 + po)
            if p == 0:
                sp = r[SP]
                self.mc(sp, 3); self.mc(sp + 1, 3)
                return self.finish(10, 1, self.pop())
            if p == 1:
                for a_, b_ in ((B, xB), (C, xC), (D, xD), (E, xE), (H, xH), (L, xL)):
                    r[a_], r[b_] = r[b_], r[a_]
                return self.finish(4, 1)
            if p == 2:
                return self.finish(4 + 4 * po, 1 + po, self.pair(hh, ll))
            self.mc(ir, 1); self.mc(ir, 1)
            r[SP] = self.pair(hh, ll)
            return self.finish(6 + 4 * po, 1 + po)
        if z == 2:
            self.mc(pc + 1, 3); self.mc(pc + 2, 3)
            a = self.rd(pc + 1) + 256 * self.rd(pc + 2)
            return self.finish(10, 3, ite(self.cc(y), a, (pc + 3) & 0xFFFF))
        if z == 3:
            if y == 0:
                self.mc(pc + 1, 3); self.mc(pc + 2, 3)
                return self.finish(10, 3, self.rd(pc + 1) + 256 * self.rd(pc + 2))
            if y == 2:
                port = self.rd(pc + 1) + 256 * r[A]
                self.mc(pc + 1, 3); self.io(port)
                if self.cfg.out:
                    self.ports.append(('out', port, r[A]))
                return self.finish(11, 2)
            if y == 3:
                port = self.rd(pc + 1) + 256 * r[A]
                self.mc(pc + 1, 3); self.io(port)
                if self.cfg.in_a_n:
                    self.ports.append(('in', port))
                    r[A] = self.inval
                else:
                    r[A] = 255
                return self.finish(11, 2)
            if y == 4:
                sp = r[SP]
                self.mc(sp, 3); self.mc(sp + 1, 3); self.mc(sp + 1, 1); self.mc(sp + 1, 3); self.mc(sp, 3); self.mc(sp, 1); self.mc(sp, 1)
                lo = self.rd(sp); hi = self.rd(sp + 1)
                self.wr(sp, r[ll])
                self.wr(sp + 1, r[hh])
                r[ll] = lo; r[hh] = hi
                return self.finish(19 + 4 * po, 1 + po)
            if y == 5:
                r[D], r[H] = r[H], r[D]
                r[E], r[L] = r[L], r[E]
                return self.finish(4, 1)
            r[IFF] = 0 if y == 6 else 1
            return self.finish(4, 1)
        if z == 4 or (z == 5 and q == 1):
            if z == 5 and p != 0:
                raise ValueError('prefix byte, not an instruction')
            take = True if z == 5 else self.cc(y)
            self.mc(pc + 1, 3); self.mc(pc + 2, 3)
            sp = r[SP]
            self.mc(pc + 2, 1, take); self.mc(sp - 1, 3, take); self.mc(sp - 2, 3, take)
            a = self.rd(pc + 1) + 256 * self.rd(pc + 2)
            self.push((pc + 3) & 0xFFFF, take)
            return self.finish(ite(take, 17, 10), 3, ite(take, a, (pc + 3) & 0xFFFF), {17} if z == 5 else {10, 17})
        if z == 5:
            sp = r[SP]
            self.mc(ir, 1); self.mc(sp - 1, 3); self.mc(sp - 2, 3)
            v = ((r[A] << 8) | r[F]) if p == 3 else self.pair(*RP[p])
            self.push(v)
            return self.finish(11 + 4 * po, 1 + po)
        if z == 6:
            self.mc(pc + 1, 3)
            self.alu(y, self.rd(pc + 1))
            return self.finish(7, 2)
        sp = r[SP]
        self.mc(ir, 1); self.mc(sp - 1, 3); self.mc(sp - 2, 3)
        self.push((pc + 1) & 0xFFFF)
        return self.finish(11, 1, y * 8)

    def halt(self):
        """HALT: 4 T-states per (re-)execution; PC stays on the HALT until an
        interrupt can be accepted (IFF set and the /INT line active, i.e. the
        frame position after these 4 T-states is inside the first int_active
        T-states of a frame), in which case PC moves past it."""
        r = self.r
        cfg = self.cfg
        pc = self.r0[PC]
        # while halted the CPU fetches from PC+1
        self.cyc[-1] = (ite(self.r0[HALT] != 0, is_contended(cfg.machine, (pc + 1) & 0xFFFF, cfg.o7ffd),
                            is_contended(cfg.machine, pc, cfg.o7ffd)), 4, True)
        self.base = 4
        self.size = 1
        self.tset = {4}

        def fin(d):
            t = self.r0[T] + 4 + d
            r[T] = t
            leave = and_(r[IFF] != 0, (t % cfg.fd) < cfg.ia)
            r[PC] = ite(leave, (pc + 1) & 0xFFFF, pc)
            r[HALT] = ite(leave, 0, 1)
        self.deferred_T = fin

    def alu(self, y, v):
        r = self.r
        a = r[A]
        c = r[F] & 1
        if y == 0: r[A], r[F] = add8(a, v, 0)
        elif y == 1: r[A], r[F] = add8(a, v, c)
        elif y == 2: r[A], r[F] = sub8(a, v, 0)
        elif y == 3: r[A], r[F] = sub8(a, v, c)
        elif y == 4: r[A], r[F] = and8(a, v)
        elif y == 5: r[A], r[F] = xor8(a, v)
        elif y == 6: r[A], r[F] = or8(a, v)
        else: r[A], r[F] = cp8(a, v)

    def cb(self):
        r = self.r
        pc = self.r0[PC]
        op = self.op
        x = op >> 6; y = (op >> 3) & 7; z = op & 7
        m = [B, C, D, E, H, L, None, A]
        self.mc(pc, 4); self.mc(pc + 1, 4)
        if z == 6:
            a = self.pair(H, L)
            v = self.rd(a)
            self.mc(a, 3); self.mc(a, 1)
            if x != 1:
                self.mc(a, 3)
        else:
            v = r[m[z]]
        if x == 1:
            r[F] = bit8(r[F] & 1, y, v)
            if z == 6:
                self.mask = 0xD7
            return self.finish(12 if z == 6 else 8, 2)
        if x == 0:
            res, r[F] = rot8(y, v, r[F] & 1)
        elif x == 2:
            res = v & (255 ^ (1 << y))
        else:
            res = v | (1 << y)
        if z == 6:
            self.wr(a, res)
            return self.finish(15, 2)
        r[m[z]] = res
        return self.finish(8, 2)

    def ddcb(self, hh, ll):
        r = self.r
        pc = self.r0[PC]
        op = self.op
        x = op >> 6; y = (op >> 3) & 7; z = op & 7
        m = [B, C, D, E, H, L, None, A]
        d = signed8(self.rd(pc + 2))
        a = (self.pair(hh, ll) + d) & 0xFFFF
        v = self.rd(a)
        self.mc(pc, 4); self.mc(pc + 1, 4); self.mc(pc + 2, 3); self.mc(pc + 3, 3); self.mc(pc + 3, 1); self.mc(pc + 3, 1)
        self.mc(a, 3); self.mc(a, 1)
        if x == 1:
            r[F] = bit8(r[F] & 1, y, v)
            self.mask = 0xD7
            return self.finish(20, 4)
        self.mc(a, 3)
        if x == 0:
            res, r[F] = rot8(y, v, r[F] & 1)
        elif x == 2:
            res = v & (255 ^ (1 << y))
        else:
            res = v | (1 << y)
        self.wr(a, res)
        if z != 6:
            r[m[z]] = res
        return self.finish(23, 4)

    def ed(self):
        r = self.r
        cfg = self.cfg
        pc = self.r0[PC]
        op = self.op
        x = op >> 6; y = (op >> 3) & 7; z = op & 7; p = y >> 1; q = y & 1
        m = [B, C, D, E, H, L, None, A]
        RP = [(B, C), (D, E), (H, L), None]
        self.mc(pc, 4); self.mc(pc + 1, 4)
        ir = self.r0[R] + 256 * r[I]
        hl = self.pair(H, L); bc = self.pair(B, C); de = self.pair(D, E)

        def getrp(p_):
            return r[SP] if p_ == 3 else self.pair(*RP[p_])

        if x == 1:
            if z == 0:
                self.io(bc)
                if cfg.in_r_c:
                    self.ports.append(('in', bc))
                    v = self.inval
                else:
                    v = 255
                if y != 6:
                    r[m[y]] = v
                r[F] = sz53p(v) | (r[F] & 1)
                return self.finish(12, 2)
            if z == 1:
                self.io(bc)
                if cfg.out:
                    self.ports.append(('out', bc, 0 if y == 6 else r[m[y]]))
                return self.finish(12, 2)
            if z == 2:
                for _ in range(7):
                    self.mc(ir, 1)
                v = getrp(p)
                c = r[F] & 1
                if q == 0:
                    res = hl - v - c
                    r16 = res & 0xFFFF
                    f = 2 | ite(res < 0, 1, 0) | ite(r16 == 0, 0x40, 0) | ((r16 >> 8) & 0xA8) \
                        | ite(((hl & 0xFFF) - (v & 0xFFF) - c) < 0, 0x10, 0) \
                        | ite(and_(((hl ^ v) & 0x8000) != 0, ((hl ^ r16) & 0x8000) != 0), 4, 0)
                else:
                    res = hl + v + c
                    r16 = res & 0xFFFF
                    f = ite(res > 0xFFFF, 1, 0) | ite(r16 == 0, 0x40, 0) | ((r16 >> 8) & 0xA8) \
                        | ite(((hl & 0xFFF) + (v & 0xFFF) + c) > 0xFFF, 0x10, 0) \
                        | ite(and_(((hl ^ v) & 0x8000) == 0, ((hl ^ r16) & 0x8000) != 0), 4, 0)
                self.setpair(H, L, r16)
                r[F] = f
                return self.finish(15, 2)
            if z == 3:
                self.mc(pc + 2, 3); self.mc(pc + 3, 3)
                a = self.rd(pc + 2) + 256 * self.rd(pc + 3)
                self.mc(a, 3); self.mc(a + 1, 3)
                if q == 0:
                    v = getrp(p)
                    self.wr(a, v & 255); self.wr(a + 1, (v >> 8) & 255)
                else:
                    lo = self.rd(a); hi = self.rd(a + 1)
                    if p == 3:
                        r[SP] = lo + 256 * hi
                    else:
                        r[RP[p][0]] = hi; r[RP[p][1]] = lo
                return self.finish(20, 4)
            if z == 4:
                r[A], r[F] = neg8(r[A])
                return self.finish(8, 2)
            if z == 5:
                sp = r[SP]
                self.mc(sp, 3); self.mc(sp + 1, 3)
                return self.finish(14, 2, self.pop())       # RETN / RETI (IFF2 is not modelled by skoolkit)
            if z == 6:
                r[IM] = (0, 0, 1, 2, 0, 0, 1, 2)[y]
                return self.finish(8, 2)
            # z == 7
            if y == 0:
                self.mc(ir, 1)
                r[I] = r[A]
                return self.finish(9, 2)
            if y == 1:
                self.mc(ir, 1)
                r[R] = r[A]
                return self.finish(9, 2)
            if y in (2, 3):
                self.mc(ir, 1)
                v = r[I] if y == 2 else r[R]      # R: the value after this instruction's own increment
                r[A] = v
                self.base = 9; self.size = 2; self.tset = {9}
                r[PC] = (pc + 2) & 0xFFFF
                f_c = r[F] & 1

                def fin(d):
                    t = self.r0[T] + 9 + d
                    r[T] = t
                    # P/V = IFF2, except that an interrupt accepted during the instruction clears it
                    pv = ite(and_(r[IFF] != 0, (t % cfg.fd) < cfg.ia), 0, ite(r[IFF] != 0, 4, 0))
                    r[F] = sz53(v) | pv | f_c
                self.deferred_T = fin
                return
            if y in (4, 5):
                self.mc(hl, 3)
                for _ in range(4):
                    self.mc(hl, 1)
                self.mc(hl, 3)
                v = self.rd(hl)
                a = r[A]
                if y == 4:      # RRD
                    self.wr(hl, ((a << 4) | (v >> 4)) & 255)
                    r[A] = (a & 0xF0) | (v & 15)
                else:           # RLD
                    self.wr(hl, ((v << 4) | (a & 15)) & 255)
                    r[A] = (a & 0xF0) | (v >> 4)
                r[F] = sz53p(r[A]) | (r[F] & 1)
                return self.finish(18, 2)
            return self.finish(8, 2)
        if x == 2 and z < 4 and y >= 4:
            inc = 1 if y in (4, 6) else -1
            rep = y >= 6
            if z == 0:      # LDI LDD LDIR LDDR
                v = self.rd(hl)
                self.wr(de, v)
                hl2 = (hl + inc) & 0xFFFF; de2 = (de + inc) & 0xFFFF; bc2 = (bc - 1) & 0xFFFF
                self.setpair(H, L, hl2); self.setpair(D, E, de2); self.setpair(B, C, bc2)
                r[F] = (r[F] & 0xC1) | ite(bc2 != 0, 4, 0)
                self.mask = 0xD7
                again = and_(rep, bc2 != 0)
                self.mc(hl, 3); self.mc(de, 3); self.mc(de, 1); self.mc(de, 1)
                for _ in range(5):
                    self.mc(de, 1, again)
            elif z == 1:    # CPI CPD CPIR CPDR
                v = self.rd(hl)
                hl2 = (hl + inc) & 0xFFFF; bc2 = (bc - 1) & 0xFFFF
                self.setpair(H, L, hl2); self.setpair(B, C, bc2)
                res = (r[A] - v) & 255
                hf = ite((r[A] & 15) < (v & 15), 0x10, 0)
                r[F] = (res & 0x80) | ite(res == 0, 0x40, 0) | hf | ite(bc2 != 0, 4, 0) | 2 | (r[F] & 1)
                self.mask = 0xD7
                again = and_(rep, bc2 != 0, res != 0)
                self.mc(hl, 3)
                for _ in range(5):
                    self.mc(hl, 1)
                for _ in range(5):
                    self.mc(hl, 1, again)
            elif z == 2:    # INI IND INIR INDR
                self.mc(ir, 1); self.io(bc); self.mc(hl, 3)
                if cfg.ini:
                    self.ports.append(('in', bc))
                    v = self.inval
                else:
                    v = 191
                self.wr(hl, v)
                b = (r[B] - 1) & 255
                k = v + ((r[C] + inc) & 255)
                r[B] = b
                self.setpair(H, L, (hl + inc) & 0xFFFF)
                r[F] = sz53(b) | ite(k > 255, 0x11, 0) | par((k & 7) ^ b) | ((v >> 6) & 2)
                again = and_(rep, b != 0)
                self.mask = ite(again, 0xC3, 0xD7)
                for _ in range(5):
                    self.mc(hl, 1, again)
            else:           # OUTI OUTD OTIR OTDR
                v = self.rd(hl)
                port = (bc - 256) & 0xFFFF      # BC after B has been decremented
                b = port >> 8
                self.mc(ir, 1); self.mc(hl, 3); self.io(port)
                if cfg.out:
                    self.ports.append(('out', port, v))
                r[B] = b
                hl2 = (hl + inc) & 0xFFFF
                self.setpair(H, L, hl2)
                k = v + (hl2 & 255)
                r[F] = sz53(b) | ite(k > 255, 0x11, 0) | par((k & 7) ^ b) | ((v >> 6) & 2)
                again = and_(rep, b != 0)
                self.mask = ite(again, 0xC3, 0xD7)
                # the FAQ says "bc:1 x5" without saying whether B has been decremented yet:
                # either reading is accepted (see DESIGN.md, C19); `alt_cyc` holds the other one
                self.alt_cyc = list(self.cyc)
                for _ in range(5):
                    self.mc(bc, 1, again)
                    self.alt_cyc.append((is_contended(cfg.machine, port, cfg.o7ffd), 1, again))
            return self.finish(ite(again, 21, 16), 2, ite(again, pc, (pc + 2) & 0xFFFF), {16, 21} if rep else {16})
        return self.finish(8, 2)

    alt_cyc = None


# ---------------------------------------------------------------- interrupts
def accept_interrupt(regs, mem, prev_pc, cfg):
    """Maskable interrupt acceptance after the instruction that started at prev_pc
    (caller has checked IFF and the /INT window).  Not accepted directly after EI
    and not between a DD/FD prefix and the opcode it modifies.  IM 0/1: RST 38h,
    13 T-states; IM 2: vector read from I*256+255, 19 T-states.  PC is pushed,
    IFF cleared, the HALT state left, R incremented.
    Returns (accepted?, post registers); memory writes go to mem under `accepted`."""
    r = list(regs)
    pc = r[PC]
    opcode = mem.rd(prev_pc & 0xFFFF)
    deferred = or_(opcode == 0xFB, and_(or_(opcode == 0xDD, opcode == 0xFD), prev_pc == ((pc - 1) & 0xFFFF)))
    acc = not_(deferred)
    im2 = r[IM] == 2
    vaddr = 255 + 256 * r[I]
    vec = mem.rd(vaddr) + 256 * mem.rd((vaddr + 1) & 0xFFFF)
    iaddr = ite(im2, vec, 0x38)
    sp2 = (r[SP] - 2) & 0xFFFF
    mem.wr(and_(acc, sp2 > 0x3FFF), sp2, pc & 255)
    sp3 = (sp2 + 1) & 0xFFFF
    mem.wr(and_(acc, sp3 > 0x3FFF), sp3, (pc >> 8) & 255)
    post = list(r)
    post[SP] = ite(acc, sp2, r[SP])
    post[T] = r[T] + ite(acc, ite(im2, 19, 13), 0)
    post[R] = ite(acc, r_inc(r[R], 1), r[R])
    post[PC] = ite(acc, iaddr, pc)
    post[IFF] = ite(acc, 0, r[IFF])
    post[HALT] = ite(acc, 0, r[HALT])
    if cfg.cmio:
        post[MEMPTR] = ite(acc, iaddr, r[MEMPTR])
    return acc, post
