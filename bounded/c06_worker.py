"""Bounded stand-in for the C simulators (no verifier for C is installed).

Runs under /venv/bin/python (3.12, the only interpreter that can load the
extension modules). Rebuilds csimulator / ccmiosimulator from
/repo/c/csimulator.c into a scratch directory (removed at exit), then

 (1) single-step differential: every dispatch slot x N boundary-biased states,
     C `run(pc)` against contracts/z80spec.Step evaluated on ints - the same
     contract that is *proved* for the Python closures;
 (2) lock-step Python-vs-C runs of generated programs (step by step and
     run(start, stop, interrupts)), 48K and 128K, with and without a tracer;
 (3) accept_interrupt Python vs C.
Prints one JSON document.
"""
import importlib.machinery
import importlib.util
import json
import os
import random
import shutil
import subprocess
import sys
import sysconfig
import tempfile
import time
from multiprocessing import Pool

HERE = os.path.dirname(os.path.dirname(os.path.abspath(__file__)))
REPO = os.environ.get('VERIF_REPO', '/repo')
sys.path.insert(0, HERE)
sys.path.insert(0, REPO)

from contracts import z80spec as Z          # noqa: E402
from props import simconc                   # noqa: E402

_MODS = {}


def build(tmp, sanitize=False):
    inc = sysconfig.get_paths()['include']
    suffix = sysconfig.get_config_var('EXT_SUFFIX')
    src = os.path.join(REPO, 'c', 'csimulator.c')
    out = {}
    for name, defs in (('csimulator', []), ('ccmiosimulator', ['-DCONTENTION'])):
        so = os.path.join(tmp, name + suffix)
        cmd = ['gcc', '-O1', '-shared', '-fPIC', '-I' + inc] + defs + [src, '-o', so]
        r = subprocess.run(cmd, capture_output=True, text=True)
        if r.returncode != 0:
            raise RuntimeError('C build failed: ' + r.stderr[-500:])
        out[name] = so
    return out


def load(paths):
    for name, so in paths.items():
        loader = importlib.machinery.ExtensionFileLoader(name, so)
        spec = importlib.util.spec_from_file_location(name, so, loader=loader)
        mod = importlib.util.module_from_spec(spec)
        loader.exec_module(mod)
        _MODS[name] = mod


def c_class(cmio):
    return _MODS['ccmiosimulator'].CCMIOSimulator if cmio else _MODS['csimulator'].CSimulator


def make_memory(machine, cells, o7ffd):
    from skoolkit.pagingtracer import Memory
    if machine == 128:
        mem = Memory()
        mem.out7ffd(o7ffd)
        for a, v in cells.items():
            mem.memory[a // 0x4000][a % 0x4000] = v
        flat0 = [mem[a] for a in range(65536)]
        return mem, flat0
    mem = [0] * 65536
    for a, v in cells.items():
        mem[a] = v
    return mem, list(mem)


def flat_of(sim, machine):
    m = sim.memory
    if machine == 128:
        return [m[a] for a in range(65536)]
    return list(m)


def c_sim(cmio, machine, mem, regs, tracer):
    from skoolkit import simutils
    cls = c_class(cmio)
    if machine == 128:
        mem.convert()
    cfg = {'frame_duration': simutils.FRAME_DURATIONS[machine == 128], 'int_active': simutils.INT_ACTIVE[machine == 128]}
    sim = cls(mem, None, None, cfg)
    for i, v in enumerate(regs):
        sim.registers[i] = v
    if tracer is not None:
        sim.set_tracer(tracer)
    return sim


def single_step_chunk(args):
    """C single step vs the ISA contract for a list of slots."""
    paths, cmio, machine, slots, n, seed = args
    if not _MODS:
        load(paths)
    from skoolkit import simutils
    bad = []
    evals = 0
    for tn, index in slots:
        rnd = random.Random('%s/C/%s/%s/%s/%s' % (seed, cmio, machine, tn, index))
        for k in range(n):
            case = simconc.random_case(rnd, 'CCMIOSimulator' if cmio else 'CSimulator', machine, tn, index, tracer=(k % 2 == 0))
            cells = {int(a): v for a, v in case['cells'].items()}
            # the instruction bytes go in last: on a 128K machine bank 5 or 2 may be paged at 0xC000 as well,
            # so another generated cell can alias them
            pc = case['regs'][Z.PC]
            ob = simconc.opcode_bytes(tn, index, cells.get((pc + 2) & 0xFFFF, 0))
            for j, b in enumerate(ob):
                a = (pc + j) & 0xFFFF
                cells.pop(a, None)
                cells[a] = b
            mem, flat0 = make_memory(machine, cells, case['o7ffd'])
            if [flat0[(pc + j) & 0xFFFF] for j in range(len(ob))] != ob:
                continue        # the instruction bytes alias each other: not a state in which this slot executes
            tr = simconc.Tracer(case['inval']) if case['tracer'] else None
            try:
                sim = c_sim(cmio, machine, mem, case['regs'], tr)
                sim.run(case['regs'][Z.PC])
            except Exception as ex:
                bad.append((tn, index, case, [('exception', repr(ex))]))
                break
            evals += 1
            got = list(sim.registers)[:30]
            flat1 = flat_of(sim, machine)
            log = tr.log if tr else []
            d = simconc.compare(case, cmio, got, flat0, flat1, log, simutils.FRAME_DURATIONS[machine == 128], simutils.INT_ACTIVE[machine == 128])
            if d:
                bad.append((tn, index, case, d))
                break
    return evals, bad


def gen_program(rnd, machine):
    """Structured random code: all prefixes, stores, stack, 64K wrap, HALT/EI/DI/IM, OUT 0x7FFD."""
    prog = []
    n = rnd.randrange(8, 60)
    for _ in range(n):
        c = rnd.random()
        if c < 0.35:
            prog += [rnd.choice([x for x in range(256) if x not in (0x76, 0xCB, 0xED, 0xDD, 0xFD, 0xC9, 0xE9) and (x & 0xC7) not in (0xC0, 0xC2, 0xC4, 0xC7) and x not in (0xC3, 0xCD, 0x10, 0x18, 0x20, 0x28, 0x30, 0x38, 0x31, 0xF9, 0x33, 0x3B)])]
            prog += [rnd.randrange(256), rnd.randrange(128, 256)][:rnd.randrange(0, 3)]
        elif c < 0.5:
            prog += [0xCB, rnd.randrange(256)]
        elif c < 0.62:
            prog += [rnd.choice((0xDD, 0xFD)), rnd.choice((0x7E, 0x77, 0x86, 0x34, 0x35, 0x21, 0x09, 0x19, 0x23, 0x2B, 0x24, 0x2E, 0x36, 0x00, 0xDD, 0x44, 0x65)), rnd.randrange(256), rnd.randrange(128, 256)][:rnd.randrange(2, 5)]
        elif c < 0.7:
            prog += [rnd.choice((0xDD, 0xFD)), 0xCB, rnd.randrange(256), rnd.randrange(256)]
        elif c < 0.82:
            prog += [0xED, rnd.choice((0x44, 0x4A, 0x42, 0x52, 0x5A, 0x62, 0x6A, 0x72, 0x7A, 0x67, 0x6F, 0x57, 0x5F, 0x47, 0x4F, 0xA0, 0xA8, 0xA1, 0xA9, 0xB0, 0xB8, 0xB1, 0x56, 0x5E, 0x46,
                                          0x43, 0x4B, 0x53, 0x5B, 0x73, 0x7B, 0x00, 0x77, 0x70, 0x71, 0x78, 0x79, 0xA2, 0xA3, 0xAA, 0xAB)), rnd.randrange(256), rnd.randrange(128, 256)][:rnd.randrange(2, 5)]
        elif c < 0.88:
            prog += rnd.choice(([0xF3], [0xFB], [0xFB, 0x76], [0xC5], [0xD1], [0xE5, 0xE1], [0xF5, 0xF1], [0xE3], [0x08], [0xD9]))
        elif c < 0.94 and machine == 128:
            prog += [0x01, 0xFD, 0x7F, 0x3E, rnd.choice((0, 1, 3, 5, 7, 16, 17, 23)), 0xED, 0x79]
        else:
            prog += [0xD3, rnd.randrange(256)] if rnd.random() < 0.5 else [0xDB, rnd.randrange(256)]
    return prog


def lockstep_chunk(args):
    paths, cmio, machine, k0, k1, seed, steps = args
    if not _MODS:
        load(paths)
    from skoolkit.simulator import Simulator
    from skoolkit.cmiosimulator import CMIOSimulator
    from skoolkit.pagingtracer import Memory, PagingTracer
    from skoolkit import simutils
    pcls = CMIOSimulator if cmio else Simulator
    bad = []
    evals = 0
    for k in range(k0, k1):
        rnd = random.Random('%s/lock/%s/%s/%s' % (seed, cmio, machine, k))
        prog = gen_program(rnd, machine)
        org = rnd.choice((0x8000, 0x6000, 0xC000, 0xFFF0, 0x4000))
        base = [rnd.randrange(256) for _ in range(65536)]
        for i, b in enumerate(prog):
            base[(org + i) & 0xFFFF] = b
        base[0x38] = 0xFB
        base[0x39] = 0xC9
        regs = [rnd.randrange(256) for _ in range(30)]
        regs[12] = rnd.choice((0xFF00, 0x5000, 0x0002, 0x4001))
        regs[13] = 0
        regs[24] = org
        regs[29] = rnd.randrange(65536)
        fd = simutils.FRAME_DURATIONS[machine == 128]
        regs[25] = rnd.choice((fd - rnd.randrange(1, 400), rnd.randrange(fd), Z.CONT_FIRST[machine] - rnd.randrange(50), rnd.randrange(3 * fd)))
        regs[26] = rnd.randrange(2)
        regs[27] = rnd.randrange(3)
        regs[28] = 0
        use_tracer = rnd.random() < 0.5
        o7 = rnd.choice((0, 1, 7, 16, 17)) if machine == 128 else 0
        cells = {a: v for a, v in enumerate(base)}

        def mk(cls_is_c):
            mem, _ = make_memory(machine, cells, o7)
            tr = None
            if cls_is_c:
                sim = c_sim(cmio, machine, mem, regs, None)
            else:
                sim = simutils.from_memory(pcls, mem)
                sim.registers[:] = regs
            if use_tracer:
                tr = PagingTracer()
                tr.simulator = sim
                tr.border = 0
                tr.out7ffd = o7
                tr.outfffd = 0
                tr.ay = [0] * 16
                tr.outfe = 0
                log = []
                orig = tr.write_port

                def wp(registers, port, value, offset=None, orig=orig, log=log):
                    log.append(('out', port, value))
                    return orig(registers, port, value, offset)

                class T2:
                    pass
                t2 = T2()
                t2.write_port = wp
                t2.read_port = lambda registers, port, log=log: (log.append(('in', port)), (port >> 8) ^ 0x5A)[1] & 255
                sim.set_tracer(t2)
                tr.log = log
            return sim, tr
        ps, ptr = mk(False)
        cs, ctr = mk(True)
        why = None
        paged_without_tracer = False
        try:
            for step in range(steps):
                pc = ps.registers[24]
                ibytes = [ps.memory[(pc + j) & 0xFFFF] for j in range(4)]
                if machine == 128 and not use_tracer:
                    # an OUT that decodes as port 0x7FFD (A15 = 0, A1 = 0) with no tracer installed
                    m_ = ps.memory
                    b0, b1 = m_[pc], m_[(pc + 1) & 0xFFFF]
                    port = None
                    if b0 == 0xD3:
                        port = b1 + 256 * ps.registers[0]
                    elif b0 == 0xED and (b1 & 0xC7 == 0x41 or b1 in (0xA3, 0xAB, 0xB3, 0xBB)):
                        port = ps.registers[3] + 256 * ps.registers[2]
                        if b1 in (0xA3, 0xAB, 0xB3, 0xBB):
                            port = (port - 256) & 0xFFFF
                    if port is not None and port & 0x8002 == 0:
                        paged_without_tracer = True
                ps.run(pc)
                cs.run(cs.registers[24])
                evals += 1
                pr = list(ps.registers)[:30]
                cr = list(cs.registers)[:30]
                if pr != cr:
                    why = ('registers after step %d at pc=%d (bytes %s)' % (step, pc, ' '.join('%02X' % b for b in ibytes)), [(Z.REGNAMES[i], pr[i], cr[i]) for i in range(30) if pr[i] != cr[i]][:5])
                    break
                if use_tracer and ptr.log != ctr.log:
                    why = ('port log after step %d' % step, ptr.log[-2:], ctr.log[-2:])
                    break
            if why is None:
                pm = flat_of(ps, machine)
                cm = flat_of(cs, machine)
                if pm != cm:
                    why = ('memory', [(a, pm[a], cm[a]) for a in range(65536) if pm[a] != cm[a]][:4])
                elif machine == 128:
                    pb = [list(b) for b in ps.memory.banks]
                    cb = [list(b) for b in cs.memory.banks]
                    if pb != cb or ps.memory.o7ffd != cs.memory.o7ffd:
                        why = ('banks/o7ffd', ps.memory.o7ffd, cs.memory.o7ffd)
            # (run(start, stop, interrupts=True) is compared separately: run_int_chunk)
        except Exception as ex:
            why = ('exception', repr(ex))
        if why:
            bad.append(({'cmio': cmio, 'machine': machine, 'k': k, 'org': org, 'prog': prog[:40], 'tracer': use_tracer,
                         'paged_without_tracer': paged_without_tracer}, why))
            if len(bad) > 2:
                break
    return evals, bad


def run_int_chunk(args):
    """run(start, stop, interrupts=True): straight-line programs of EI / DI / NOP / INC / prefix chains started a few
    T-states before a frame boundary, IM 2 with a short service routine; Python and C must end in the same state."""
    paths, cmio, machine, n, seed = args
    if not _MODS:
        load(paths)
    from skoolkit.simulator import Simulator
    from skoolkit.cmiosimulator import CMIOSimulator
    from skoolkit import simutils
    pcls = CMIOSimulator if cmio else Simulator
    bad = []
    evals = 0
    fd = simutils.FRAME_DURATIONS[machine == 128]
    for k in range(n):
        rnd = random.Random('%s/runint/%s/%s/%s' % (seed, cmio, machine, k))
        org = rnd.choice((0x8000, 0x6000, 0xC000))
        prog = []
        for _ in range(rnd.randrange(3, 14)):
            prog += rnd.choice(([0x00], [0x00], [0xFB], [0xF3], [0x3C], [0x04], [0xDD, 0x00], [0xFD, 0xDD, 0x23], [0xFB, 0x00], [0x3E, 0x07], [0xDD, 0x7E, 0x01], [0xED, 0x44]))
        prog += [0x00] * 4
        stop = org + len(prog) - 1
        cells = {}
        for i, b in enumerate(prog):
            cells[org + i] = b
        # IM 2: I = 0x90, vector at 0x90FF -> 0xA000: INC B ; [EI] ; RET
        cells[0x90FF], cells[0x9100] = 0x00, 0xA0
        isr = [0x04] + ([0xFB] if rnd.random() < 0.5 else []) + [0xC9]
        for i, b in enumerate(isr):
            cells[0xA000 + i] = b
        regs = [rnd.randrange(256) for _ in range(30)]
        regs[12] = 0xFF00
        regs[13] = 0
        regs[14] = 0x90
        regs[24] = org
        regs[25] = rnd.randrange(1, 4) * fd - rnd.randrange(0, 40)
        regs[26] = rnd.randrange(2)
        regs[27] = 2
        regs[28] = 0
        regs[29] = rnd.randrange(65536)
        o7 = rnd.choice((0, 16, 1)) if machine == 128 else 0
        why = None
        try:
            mem1, _ = make_memory(machine, cells, o7)
            ps = simutils.from_memory(pcls, mem1)
            ps.registers[:] = regs
            mem2, _ = make_memory(machine, cells, o7)
            cs = c_sim(cmio, machine, mem2, regs, None)
            ps.run(org, stop, True)
            cs.run(org, stop, True)
            evals += 1
            pr, cr = list(ps.registers), list(cs.registers)
            if pr != cr:
                why = ('registers', [(Z.REGNAMES[i] if i < len(Z.REGNAMES) else i, pr[i], cr[i]) for i in range(min(len(pr), len(cr))) if pr[i] != cr[i]][:6])
            else:
                pm, cm = flat_of(ps, machine), flat_of(cs, machine)
                if pm != cm:
                    why = ('memory', [(a, pm[a], cm[a]) for a in range(65536) if pm[a] != cm[a]][:4])
        except Exception as ex:
            why = ('exception', repr(ex))
        if why:
            bad.append(({'cmio': cmio, 'machine': machine, 'k': k, 'org': org, 'prog': prog, 'T0': regs[25], 'iff': regs[26], 'isr': isr, 'run_interrupts': True}, why))
            if len(bad) > 2:
                break
    return evals, bad


def interrupt_chunk(args):
    paths, cmio, machine, n, seed = args
    if not _MODS:
        load(paths)
    from skoolkit.simulator import Simulator
    from skoolkit.cmiosimulator import CMIOSimulator
    from skoolkit import simutils
    pcls = CMIOSimulator if cmio else Simulator
    rnd = random.Random('%s/int/%s/%s' % (seed, cmio, machine))
    bad = []
    for k in range(n):
        regs = [rnd.randrange(256) for _ in range(30)]
        regs[12] = rnd.choice(simconc.ADDRS + (rnd.randrange(65536),))
        regs[13] = 0
        regs[24] = rnd.choice(simconc.ADDRS + (rnd.randrange(65536),))
        regs[29] = rnd.randrange(65536)
        regs[25] = rnd.randrange(3 * 69888)
        regs[26], regs[27], regs[28] = rnd.randrange(2), rnd.randrange(3), rnd.randrange(2)
        prev_pc = rnd.choice(((regs[24] - 1) & 0xFFFF, (regs[24] - 2) & 0xFFFF, rnd.randrange(65536)))
        cells = {a: rnd.randrange(256) for a in range(0, 65536, 257)}
        cells[prev_pc] = rnd.choice((0xFB, 0xDD, 0xFD, 0x00, rnd.randrange(256)))
        vaddr = 255 + 256 * regs[14]
        cells[vaddr] = rnd.randrange(256)
        cells[(vaddr + 1) & 0xFFFF] = rnd.randrange(256)
        m1, _ = make_memory(machine, cells, 0)
        m2, _ = make_memory(machine, cells, 0)
        ps = simutils.from_memory(pcls, m1)
        ps.registers[:] = regs
        cs = c_sim(cmio, machine, m2, regs, None)
        r1 = ps.accept_interrupt(ps.registers, ps.memory, prev_pc)
        r2 = cs.accept_interrupt(cs.registers, cs.memory, prev_pc)
        pr, cr = list(ps.registers)[:30], list(cs.registers)[:30]
        if bool(r1) != bool(r2) or pr != cr or flat_of(ps, machine) != flat_of(cs, machine):
            bad.append(({'regs': regs, 'prev_pc': prev_pc, 'opcode': cells[prev_pc]}, (r1, r2, [(Z.REGNAMES[i], pr[i], cr[i]) for i in range(30) if pr[i] != cr[i]][:5])))
            break
    return n, bad


def main():
    tier = sys.argv[1] if len(sys.argv) > 1 else 'quick'
    seed = int(sys.argv[2]) if len(sys.argv) > 2 else 0
    ncpu = min(16, os.cpu_count() or 1)
    tmp = tempfile.mkdtemp(prefix='c06_build_')
    t0 = time.time()
    out = {'tier': tier, 'seed': seed, 'items': [], 'violations': []}
    try:
        paths = build(tmp)
        out['build_s'] = round(time.time() - t0, 2)
        slots = [(tn, i) for tn, _ in simconc.TABLE_NAMES for i in range(256) if (tn, i) not in simconc.DISPATCH]
        n_state = 6 if tier == 'quick' else 200
        n_prog = 48 if tier == 'quick' else 2000
        steps = 200 if tier == 'quick' else 1500
        with Pool(ncpu) as p:
            for cmio in (False, True):
                for machine in (48, 128):
                    label = '%s/%dK' % ('CCMIOSimulator' if cmio else 'CSimulator', machine)
                    chunks = [(paths, cmio, machine, slots[i::ncpu * 2], n_state, seed) for i in range(ncpu * 2)]
                    res = p.map(single_step_chunk, chunks)
                    ev = sum(r[0] for r in res)
                    bad = [b for r in res for b in r[1]]
                    out['items'].append({'function': 'c/csimulator.c %s single step (run(pc))' % label, 'contract': 'post-state == z80spec.Step (registers, F under mask, memory, T incl. contention, ports)',
                                         'bound': '%d states per slot x %d slots' % (n_state, len(slots)), 'evaluations': ev})
                    for tn, index, case, d in bad[:3]:
                        out['violations'].append({'key': 'C/%s/%s[%s:%02X]' % (label, 'step', tn, index), 'what': 'C single step differs from the ISA contract: %s' % (d[:3],),
                                                  'case': case, 'diffs': d})
                    per = max(1, n_prog // (ncpu * 2))
                    chunks = [(paths, cmio, machine, k, k + per, seed, steps) for k in range(0, n_prog, per)]
                    res = p.map(lockstep_chunk, chunks)
                    ev = sum(r[0] for r in res)
                    bad = [b for r in res for b in r[1]]
                    out['items'].append({'function': 'Python %s vs C %s lock-step' % (label.replace('CCMIO', 'CMIO').replace('CSim', 'Sim'), label),
                                         'contract': 'identical registers (incl. R, T, IFF, IM, HALT, MEMPTR), memory/banks, port log after every instruction',
                                         'bound': '%d generated programs x up to %d steps, tracer on/off' % (n_prog, steps), 'evaluations': ev})
                    seenk = set()
                    for case, why in bad:
                        key = 'C/%s/lockstep' % label
                        if case.get('paged_without_tracer'):
                            key = 'C/128K/no-tracer/out7ffd'
                        if key in seenk:
                            continue
                        seenk.add(key)
                        out['violations'].append({'key': key, 'what': 'Python and C simulators diverge: %s' % (why,), 'case': case, 'diffs': why})
                    res = p.map(run_int_chunk, [(paths, cmio, machine, 100 if tier == 'quick' else 2000, seed + j) for j in range(4)])
                    ev = sum(r[0] for r in res)
                    bad = [b for r in res for b in r[1]]
                    out['items'].append({'function': 'run(start, stop, interrupts=True) Python vs C %s' % label, 'contract': 'same final registers and memory (interrupts offered after every instruction that ends inside the INT window with IFF set)',
                                         'bound': '%d programs of EI/DI/NOP/prefix chains started up to 40 T-states before a frame boundary, IM 2' % ev, 'evaluations': ev})
                    for case, why in bad[:2]:
                        out['violations'].append({'key': 'C/%s/run-interrupts' % label, 'what': 'run(start, stop, interrupts=True) ends differently in Python and C: %s' % (why,), 'case': case, 'diffs': why})
                    res = p.map(interrupt_chunk, [(paths, cmio, machine, 200 if tier == 'quick' else 4000, seed + j) for j in range(4)])
                    ev = sum(r[0] for r in res)
                    bad = [b for r in res for b in r[1]]
                    out['items'].append({'function': 'accept_interrupt Python vs C %s' % label, 'contract': 'same acceptance decision, registers, memory', 'bound': '%d states' % ev, 'evaluations': ev})
                    for case, why in bad[:2]:
                        out['violations'].append({'key': 'C/%s/accept_interrupt' % label, 'what': 'accept_interrupt differs: %s' % (why,), 'case': case, 'diffs': why})
    finally:
        shutil.rmtree(tmp, ignore_errors=True)
    out['wall_s'] = round(time.time() - t0, 2)
    print(json.dumps(out, default=str))


if __name__ == '__main__':
    main()
