"""Discharging verification conditions: interval/simplifier/syntactic shortcuts,
z3 (QF_AUFBV), opaque-function reveal, cvc5 for what z3 leaves unknown."""
import os
import subprocess
import tempfile
import time

import z3

from . import poly

Z3_TIMEOUT_MS = int(os.environ.get('PYVC_Z3_TIMEOUT_MS', '60000'))
CVC5_TIMEOUT_S = int(os.environ.get('PYVC_CVC5_TIMEOUT_S', '120'))
CVC5 = '/usr/bin/cvc5'
FORCE_SOLVER = os.environ.get('PYVC_FORCE_SOLVER', '') == '1'


def mk_solver(timeout_ms=None, logic='QF_AUFBV'):
    s = z3.SolverFor(logic)
    s.set('timeout', timeout_ms or Z3_TIMEOUT_MS)
    return s


def _cvc5(assertions, timeout_s):
    """Returns 'unsat' / 'sat' / 'unknown' from cvc5 on the same assertions."""
    if not os.path.exists(CVC5):
        return 'unknown'
    s = z3.Solver()
    s.add(assertions)
    txt = '(set-logic QF_AUFBV)\n' + s.to_smt2().replace('(set-info :status unknown)', '')
    fd, path = tempfile.mkstemp(suffix='.smt2', prefix='pyvc_')
    try:
        with os.fdopen(fd, 'w') as f:
            f.write(txt)
        try:
            r = subprocess.run([CVC5, '--tlimit=%d' % (timeout_s * 1000), path], capture_output=True, text=True,
                               timeout=timeout_s + 10)
        except subprocess.TimeoutExpired:
            return 'unknown'
        out = r.stdout.strip().split('\n')[0] if r.stdout.strip() else ''
        return out if out in ('sat', 'unsat') else 'unknown'
    finally:
        try:
            os.unlink(path)
        except OSError:
            pass


def check_sat(assertions, timeout_ms=None):
    """(result, backend, model): result in 'sat','unsat','unknown'."""
    s = mk_solver(timeout_ms)
    s.add(assertions)
    r = s.check()
    if r == z3.unsat:
        return 'unsat', 'z3', None
    if r == z3.sat:
        return 'sat', 'z3', s.model()
    r2 = _cvc5(assertions, CVC5_TIMEOUT_S)
    if r2 == 'unsat':
        return 'unsat', 'cvc5', None
    if r2 == 'sat':
        return 'sat', 'cvc5', None
    return 'unknown', 'z3+cvc5', None


def discharge(pre, facts, pc, cond, defs=(), timeout_ms=None):
    """Prove pre /\\ facts /\\ pc => cond.
    Returns (status, backend, seconds, model); status: proved / failed / unknown.
    A 'failed' always comes with the opaque definitions revealed (a model under
    uninterpreted functions is not a counterexample)."""
    t0 = time.time()
    if cond is True and not FORCE_SOLVER:
        return 'proved', 'interval', 0.0, None
    if isinstance(cond, bool):
        neg = [] if cond is False else [z3.BoolVal(False)]
    else:
        t = z3.simplify(cond.t)
        if not z3.is_true(t) and pc:
            pc = [z3.simplify(c) for c in pc]
            t = z3.simplify(z3.substitute(t, *_pc_atoms(pc)))
        if not FORCE_SOLVER:
            if z3.is_true(t):
                return 'proved', 'simplify', time.time() - t0, None
            for c in pc:
                if c.eq(t):
                    return 'proved', 'syntactic', time.time() - t0, None
        neg = [z3.Not(t)]
    base = list(pre) + list(facts) + list(pc) + neg
    r, backend, model = check_sat(base, timeout_ms)
    if r == 'unsat':
        return 'proved', backend, time.time() - t0, None
    if defs:
        eqs = poly.reveal(defs)
        r2, backend2, model2 = check_sat(base + eqs, timeout_ms)
        if r2 == 'unsat':
            return 'proved', backend2 + '+reveal', time.time() - t0, None
        if r2 == 'sat':
            return 'failed', backend2 + '+reveal', time.time() - t0, model2
        return 'unknown', backend2 + '+reveal', time.time() - t0, None
    if r == 'sat':
        return 'failed', backend, time.time() - t0, model
    return 'unknown', backend, time.time() - t0, None


def _pc_atoms(pc):
    """Substitution pairs (atom -> truth value) that hold under the path condition."""
    pairs = []
    todo = list(pc)
    while todo:
        c = todo.pop()
        if z3.is_and(c):
            todo.extend(c.children())
            continue
        if z3.is_not(c):
            a = c.arg(0)
            if z3.is_or(a):
                todo.extend(z3.Not(x) for x in a.children())
            pairs.append((a, z3.BoolVal(False)))
        else:
            pairs.append((c, z3.BoolVal(True)))
    return pairs


def feasible(pre, facts, pc, timeout_ms=None):
    """Is the path reachable under the precondition? (vacuity guard)
    With opaque functions left uninterpreted this over-approximates (sound for a
    reachability *cover*: 'unsat' means really dead)."""
    r, backend, model = check_sat(list(pre) + list(facts) + list(pc), timeout_ms)
    return r


def trivial(cond, pc):
    """Cheap discharge without a solver: returns (status, backend, simplified term or None)."""
    if cond is True:
        return 'proved', 'interval', None
    if cond is False:
        return None, None, z3.BoolVal(False)
    t = z3.simplify(cond.t)
    if not z3.is_true(t) and pc:
        pcs = [z3.simplify(c) for c in pc]
        t = z3.simplify(z3.substitute(t, *_pc_atoms(pcs)))
        if z3.is_true(t):
            return 'proved', 'simplify', None
        for c in pcs:
            if c.eq(t):
                return 'proved', 'syntactic', None
        return None, None, t
    if z3.is_true(t):
        return 'proved', 'simplify', None
    return None, None, t


def discharge_batch(pre, facts, pc, items, defs=(), timeout_ms=None):
    """items: list of (cond, ob_pc). All obligations of one path. `pc` is the
    full path condition (every execution that reaches an obligation's site
    continues along exactly one explored path, so checking each obligation under
    the full condition of each path it lies on covers all executions); ob_pc
    additionally carries merge guards. First the cheap filters, then ONE solver
    query for the conjunction of what is left, and individual queries only if
    that does not come back unsat.  Returns [(status, backend, seconds, model)]."""
    out = [None] * len(items)
    hard = []
    for i, (cond, opc) in enumerate(items):
        t0 = time.time()
        if FORCE_SOLVER:
            hard.append((i, z3.BoolVal(cond) if isinstance(cond, bool) else cond.t))
            continue
        st, be, t = trivial(cond, opc if opc is not None else pc)
        if st:
            out[i] = (st, be, time.time() - t0, None)
        else:
            hard.append((i, t))
    if not hard:
        return out
    t0 = time.time()
    base = list(pre) + list(facts) + list(pc)
    if len(hard) > 1:
        conj = []
        for i, t in hard:
            opc = items[i][1]
            conj.append(z3.Implies(z3.And(*opc), t) if opc else t)
        r, backend, model = check_sat(base + [z3.Not(z3.And(*conj))], timeout_ms)
        if r == 'unsat':
            dt = (time.time() - t0) / len(hard)
            for i, t in hard:
                out[i] = ('proved', backend + '/batch', dt, None)
            return out
    for i, t in hard:
        cond, opc = items[i]
        out[i] = discharge(pre, facts, opc if opc is not None else pc, cond, defs, timeout_ms)
    return out
