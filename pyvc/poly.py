"""Polymorphic integer/boolean values: the same Python text runs on plain ints
(exhaustive checks, replay) and on SMT terms (verification conditions).

SV = symbolic integer: z3 bit-vector term of width W plus a sound interval
[lo, hi] of the *mathematical* (Python) value.  Python ints are unbounded, the
encoding is a signed bit-vector; every arithmetic result whose interval leaves
the signed range of W raises an overflow event (the executor turns it into a
`no_overflow` obligation, the spec treats it as an error).  As long as no event
fires, bit-vector arithmetic on the terms *is* Python arithmetic.

SB = symbolic boolean (z3 Bool term).
"""
try:
    import z3
except ImportError:          # the repo's own interpreter has no z3: only the int side of the polymorphic text is usable there
    z3 = None

W = 40
SMIN = -(1 << (W - 1))
SMAX = (1 << (W - 1)) - 1
_sort = z3.BitVecSort(W) if z3 else None


def set_width(w):
    global W, SMIN, SMAX, _sort
    W = w
    SMIN = -(1 << (W - 1))
    SMAX = (1 << (W - 1)) - 1
    _sort = z3.BitVecSort(W)


class Refuse(Exception):
    """The construct is outside the supported subset (never a violation)."""


class Overflow(Exception):
    pass


# hook(kind, lo, hi, guard_term_or_None) -> None; set by the executor
_overflow_hook = None


def set_overflow_hook(h):
    global _overflow_hook
    old = _overflow_hook
    _overflow_hook = h
    return old


def bvv(n):
    return z3.BitVecVal(n, W)


# ---- opaque functions ("opaque / reveal"): a spec function of one integer can be
# kept uninterpreted in the VCs; cheap facts about each application are always
# asserted, its definition only when an obligation cannot be discharged without it.
_facts = None
_defs = None
_UF = {}
_revealing = False


def set_collectors(facts, defs):
    global _facts, _defs
    old = (_facts, _defs)
    _facts, _defs = facts, defs
    return old


def opaque(name, arg, lo, hi, definition, cheap=None):
    """Application of the uninterpreted function `name` to SV arg.
    definition: callable(arg) -> SV/int closed form; cheap: callable(arg, app_SV) -> list of SB facts."""
    key = (name, W)
    f = _UF.get(key)
    if f is None:
        f = _UF[key] = z3.Function(name, _sort, _sort)
    app = SV(f(arg.t), lo, hi)
    if _facts is None:
        raise Refuse('opaque function %s used outside a verification context' % name)
    _facts.append(z3.And(app.t >= lo, app.t <= hi))
    if cheap is not None:
        for c in cheap(arg, app):
            c = truth(c)
            if c is True:
                continue
            _facts.append(z3.BoolVal(False) if c is False else c.t)
    _defs.append((app, arg, definition))
    return app


def reveal(defs):
    """Definitional equations for the recorded applications (built on demand)."""
    global _revealing
    out = []
    seen = set()
    old = set_overflow_hook(lambda *a: None)
    _revealing = True
    try:
        for app, arg, definition in defs:
            k = app.t.get_id()
            if k in seen:
                continue
            seen.add(k)
            d = definition(arg)
            out.append(app.t == sv(d).t)
    finally:
        set_overflow_hook(old)
        _revealing = False
    return out


class SV:
    __slots__ = ('t', 'lo', 'hi')

    def __init__(self, t, lo, hi):
        self.t = t
        self.lo = lo
        self.hi = hi

    def __repr__(self):
        return 'SV(%s in [%d,%d])' % (z3.simplify(self.t).sexpr()[:80], self.lo, self.hi)

    # arithmetic
    def __add__(self, o): return binop('+', self, o)
    def __radd__(self, o): return binop('+', o, self)
    def __sub__(self, o): return binop('-', self, o)
    def __rsub__(self, o): return binop('-', o, self)
    def __mul__(self, o): return binop('*', self, o)
    def __rmul__(self, o): return binop('*', o, self)
    def __and__(self, o): return binop('&', self, o)
    def __rand__(self, o): return binop('&', o, self)
    def __or__(self, o): return binop('|', self, o)
    def __ror__(self, o): return binop('|', o, self)
    def __xor__(self, o): return binop('^', self, o)
    def __rxor__(self, o): return binop('^', o, self)
    def __lshift__(self, o): return binop('<<', self, o)
    def __rshift__(self, o): return binop('>>', self, o)
    def __mod__(self, o): return binop('%', self, o)
    def __floordiv__(self, o): return binop('//', self, o)
    def __neg__(self): return binop('-', 0, self)
    def __invert__(self): return binop('-', binop('-', 0, self), 1)
    # comparisons
    def __lt__(self, o): return cmpop('<', self, o)
    def __le__(self, o): return cmpop('<=', self, o)
    def __gt__(self, o): return cmpop('>', self, o)
    def __ge__(self, o): return cmpop('>=', self, o)
    def __eq__(self, o): return cmpop('==', self, o)
    def __ne__(self, o): return cmpop('!=', self, o)
    __hash__ = None

    def __bool__(self):
        raise Refuse('truth value of a symbolic integer used by native Python code')

    def __index__(self):
        raise Refuse('symbolic integer used as a native index')


class SB:
    __slots__ = ('t',)

    def __init__(self, t):
        self.t = t

    def __repr__(self):
        return 'SB(%s)' % z3.simplify(self.t).sexpr()[:80]

    def __bool__(self):
        raise Refuse('truth value of a symbolic boolean used by native Python code')

    # bool used as int
    def __add__(self, o): return binop('+', self, o)
    def __radd__(self, o): return binop('+', o, self)
    def __mul__(self, o): return binop('*', self, o)
    def __rmul__(self, o): return binop('*', o, self)
    def __sub__(self, o): return binop('-', self, o)
    def __rsub__(self, o): return binop('-', o, self)
    def __and__(self, o):
        if isinstance(o, (SB, bool)): return and_(self, o)
        return binop('&', self, o)
    def __or__(self, o):
        if isinstance(o, (SB, bool)): return or_(self, o)
        return binop('|', self, o)
    def __lshift__(self, o): return binop('<<', self, o)


def is_sym(x):
    return isinstance(x, (SV, SB))


def fresh(name, lo, hi):
    return SV(z3.BitVec(name, W), lo, hi)


def sv(x):
    """Coerce an int / bool / SB / SV into an SV."""
    if isinstance(x, SV):
        return x
    if isinstance(x, bool):
        x = int(x)
    if isinstance(x, int):
        if not SMIN <= x <= SMAX:
            raise Overflow('constant %d outside %d-bit range' % (x, W))
        return SV(bvv(x), x, x)
    if isinstance(x, SB):
        return SV(z3.If(x.t, bvv(1), bvv(0)), 0, 1)
    raise Refuse('not an integer value: %r' % (x,))


def term(x):
    return sv(x).t


def _range_event(kind, lo, hi, ovf_term):
    """Result interval [lo,hi] leaves the signed range: ask the hook."""
    if _overflow_hook is None:
        raise Overflow('%s result in [%d,%d] may leave the %d-bit range' % (kind, lo, hi, W))
    _overflow_hook(kind, lo, hi, ovf_term)


def _bits(n):
    return n.bit_length()


_PY = {
    '+': lambda a, b: a + b, '-': lambda a, b: a - b, '*': lambda a, b: a * b,
    '&': lambda a, b: a & b, '|': lambda a, b: a | b, '^': lambda a, b: a ^ b,
    '<<': lambda a, b: a << b, '>>': lambda a, b: a >> b,
    '%': lambda a, b: a % b, '//': lambda a, b: a // b,
}


def binop(op, a, b):
    if isinstance(a, bool): a = int(a)
    if isinstance(b, bool): b = int(b)
    if isinstance(a, int) and isinstance(b, int):
        return _PY[op](a, b)
    if not isinstance(a, (int, SV, SB)) or not isinstance(b, (int, SV, SB)):
        raise Refuse('operator %s on %s, %s' % (op, type(a).__name__, type(b).__name__))
    cb = b if isinstance(b, int) else None
    ca = a if isinstance(a, int) else None
    a = sv(a)
    b = sv(b)
    if op == '+':
        if ca == 0: return b
        if cb == 0: return a
        lo, hi = a.lo + b.lo, a.hi + b.hi
        t = a.t + b.t
        if lo < SMIN or hi > SMAX:
            _range_event('add', lo, hi, z3.And(z3.BVAddNoOverflow(a.t, b.t, True), z3.BVAddNoUnderflow(a.t, b.t)))
            lo, hi = SMIN, SMAX
        return SV(t, lo, hi)
    if op == '-':
        if cb == 0: return a
        lo, hi = a.lo - b.hi, a.hi - b.lo
        t = a.t - b.t
        if lo < SMIN or hi > SMAX:
            _range_event('sub', lo, hi, z3.And(z3.BVSubNoOverflow(a.t, b.t), z3.BVSubNoUnderflow(a.t, b.t, True)))
            lo, hi = SMIN, SMAX
        return SV(t, lo, hi)
    if op == '*':
        if ca == 1: return b
        if cb == 1: return a
        if ca == 0 or cb == 0: return 0
        c = (a.lo * b.lo, a.lo * b.hi, a.hi * b.lo, a.hi * b.hi)
        lo, hi = min(c), max(c)
        t = a.t * b.t
        if lo < SMIN or hi > SMAX:
            _range_event('mul', lo, hi, z3.And(z3.BVMulNoOverflow(a.t, b.t, True), z3.BVMulNoUnderflow(a.t, b.t)))
            lo, hi = SMIN, SMAX
        return SV(t, lo, hi)
    if op in ('%', '//'):
        if cb is None and isinstance(b, SV):
            # a divisor that is a choice between constants (e.g. FRAME_DURATIONS[machine > 1]): distribute over the choice
            tb = z3.simplify(b.t)
            if z3.is_app_of(tb, z3.Z3_OP_ITE) and z3.is_bv_value(tb.arg(1)) and z3.is_bv_value(tb.arg(2)):
                c1, c2 = tb.arg(1).as_long(), tb.arg(2).as_long()
                if 0 < c1 < (1 << (W - 1)) and 0 < c2 < (1 << (W - 1)):
                    return ite(SB(tb.arg(0)), binop(op, a, c1), binop(op, a, c2))
        if cb is None or cb <= 0:
            raise Refuse('%s with symbolic or non-positive divisor' % op)
        if cb & (cb - 1) == 0:
            k = cb.bit_length() - 1
            if op == '%':
                if 0 <= a.lo and a.hi < cb:
                    return a
                return SV(a.t & bvv(cb - 1), 0, cb - 1)
            if k == 0:
                return a
            return SV(a.t >> k, a.lo >> k, a.hi >> k)
        if a.lo < 0:
            # floor semantics differ from bvurem/bvudiv for negatives
            _range_event('nonneg_dividend', a.lo, a.hi, a.t >= 0)
        if op == '%':
            if 0 <= a.lo and a.hi < cb:
                return a
            if _facts is not None and not _revealing:
                # kept opaque: equal dividends give equal remainders by congruence, no divider circuit
                return opaque('MOD%d' % cb, a, 0, cb - 1, lambda x, cb=cb: SV(z3.URem(x.t, bvv(cb)), 0, cb - 1),
                              lambda x, app, cb=cb: [or_(cmpop('>=', x, cb), cmpop('==', app, x))])
            return SV(z3.URem(a.t, b.t), 0, cb - 1)
        dlo, dhi = max(a.lo, 0) // cb, max(a.hi, 0) // cb
        if _facts is not None and not _revealing:
            return opaque('DIV%d' % cb, a, dlo, dhi, lambda x, cb=cb, dlo=dlo, dhi=dhi: SV(z3.UDiv(x.t, bvv(cb)), dlo, dhi),
                          lambda x, app, cb=cb: [and_(cmpop('<=', app * cb, x), cmpop('<', x, app * cb + cb))] if 0 <= x.lo and x.hi <= (1 << (W - 3)) else [])
        return SV(z3.UDiv(a.t, b.t), dlo, dhi)
    if op == '&':
        t = a.t & b.t
        if cb is not None and cb >= 0:
            if a.lo >= 0 and cb == (1 << _bits(cb)) - 1 and a.hi <= cb:
                return a
            return SV(t, 0, cb if a.lo < 0 else min(cb, a.hi))
        if ca is not None and ca >= 0:
            if b.lo >= 0 and ca == (1 << _bits(ca)) - 1 and b.hi <= ca:
                return b
            return SV(t, 0, ca if b.lo < 0 else min(ca, b.hi))
        if a.lo >= 0 and b.lo >= 0:
            return SV(t, 0, min(a.hi, b.hi))
        if a.lo >= 0:
            return SV(t, 0, a.hi)
        if b.lo >= 0:
            return SV(t, 0, b.hi)
        return SV(t, SMIN, SMAX)
    if op in ('|', '^'):
        t = (a.t | b.t) if op == '|' else (a.t ^ b.t)
        if a.lo >= 0 and b.lo >= 0:
            return SV(t, 0, (1 << max(_bits(a.hi), _bits(b.hi))) - 1)
        return SV(t, SMIN, SMAX)
    if op == '<<':
        if cb is None or cb < 0:
            raise Refuse('shift by symbolic amount')
        return binop('*', a, 1 << cb)
    if op == '>>':
        if cb is None or cb < 0:
            raise Refuse('shift by symbolic amount')
        return binop('//', a, 1 << cb)
    raise Refuse('operator ' + op)


def cmpop(op, a, b):
    if isinstance(a, bool): a = int(a)
    if isinstance(b, bool): b = int(b)
    if isinstance(a, int) and isinstance(b, int):
        return {'<': a < b, '<=': a <= b, '>': a > b, '>=': a >= b, '==': a == b, '!=': a != b}[op]
    if isinstance(a, SB) and isinstance(b, SB) and op in ('==', '!='):
        return SB(a.t == b.t) if op == '==' else SB(a.t != b.t)
    if not isinstance(a, (int, SV, SB)) or not isinstance(b, (int, SV, SB)):
        raise Refuse('comparison %s on %s, %s' % (op, type(a).__name__, type(b).__name__))
    a = sv(a)
    b = sv(b)
    # decided by intervals
    if op == '<':
        if a.hi < b.lo: return True
        if a.lo >= b.hi: return False
        return SB(a.t < b.t)
    if op == '<=':
        if a.hi <= b.lo: return True
        if a.lo > b.hi: return False
        return SB(a.t <= b.t)
    if op == '>':
        if a.lo > b.hi: return True
        if a.hi <= b.lo: return False
        return SB(a.t > b.t)
    if op == '>=':
        if a.lo >= b.hi: return True
        if a.hi < b.lo: return False
        return SB(a.t >= b.t)
    if op == '==':
        if a.hi < b.lo or a.lo > b.hi: return False
        if a.lo == a.hi == b.lo == b.hi: return True
        return SB(a.t == b.t)
    if op == '!=':
        if a.hi < b.lo or a.lo > b.hi: return True
        if a.lo == a.hi == b.lo == b.hi: return False
        return SB(a.t != b.t)
    raise Refuse('comparison ' + op)


def truth(x):
    """Python truthiness as bool or SB."""
    if isinstance(x, SB):
        return x
    if isinstance(x, SV):
        return cmpop('!=', x, 0)
    return bool(x)


def not_(x):
    x = truth(x)
    if isinstance(x, bool):
        return not x
    return SB(z3.Not(x.t))


def and_(*xs):
    ts = []
    for x in xs:
        x = truth(x)
        if isinstance(x, bool):
            if not x:
                return False
        else:
            ts.append(x.t)
    if not ts:
        return True
    return SB(z3.And(*ts)) if len(ts) > 1 else SB(ts[0])


def or_(*xs):
    ts = []
    for x in xs:
        x = truth(x)
        if isinstance(x, bool):
            if x:
                return True
        else:
            ts.append(x.t)
    if not ts:
        return False
    return SB(z3.Or(*ts)) if len(ts) > 1 else SB(ts[0])


def implies(a, b):
    return or_(not_(a), b)


def ite(c, a, b):
    c = truth(c)
    if isinstance(c, bool):
        return a if c else b
    if hasattr(a, '_ite_'):
        return a._ite_(c, b)
    if hasattr(b, '_ite_'):
        return b._ite_(c, a, True)
    if isinstance(a, tuple) or isinstance(b, tuple):
        if not (isinstance(a, tuple) and isinstance(b, tuple) and len(a) == len(b)):
            raise Refuse('ite over tuples of different shape')
        return tuple(ite(c, x, y) for x, y in zip(a, b))
    if isinstance(a, (bool, SB)) and isinstance(b, (bool, SB)):
        ta = a.t if isinstance(a, SB) else z3.BoolVal(a)
        tb = b.t if isinstance(b, SB) else z3.BoolVal(b)
        return SB(z3.If(c.t, ta, tb))
    if a is b:
        return a
    if isinstance(a, int) and isinstance(b, int) and not isinstance(a, bool) and a == b:
        return a
    a = sv(a)
    b = sv(b)
    if a.t.eq(b.t):
        return SV(a.t, max(a.lo, b.lo), min(a.hi, b.hi))
    # canonical additive form: ite(c, b + e, b) == b + ite(c, e, 0)  (and symmetric)
    e = _addend(a.t, b.t)
    if e is not None:
        return SV(b.t + z3.If(c.t, e, bvv(0)), min(a.lo, b.lo), max(a.hi, b.hi))
    e = _addend(b.t, a.t)
    if e is not None:
        return SV(a.t + z3.If(c.t, bvv(0), e), min(a.lo, b.lo), max(a.hi, b.hi))
    return SV(z3.If(c.t, a.t, b.t), min(a.lo, b.lo), max(a.hi, b.hi))


def _addend(s, base):
    """If term s is syntactically `base + e` return e."""
    if z3.is_app_of(s, z3.Z3_OP_BADD) and s.num_args() == 2:
        x, y = s.arg(0), s.arg(1)
        if x.eq(base):
            return y
        if y.eq(base):
            return x
    return None


def bterm(x):
    x = truth(x)
    if isinstance(x, bool):
        return z3.BoolVal(x)
    return x.t


def in_range(x, lo, hi):
    """lo <= x <= hi as bool/SB."""
    return and_(cmpop('>=', x, lo), cmpop('<=', x, hi))
