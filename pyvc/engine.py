"""pyvc engine: forward symbolic execution of real Python functions (AST taken
from the live function object on every run) producing verification conditions.

Mixed concrete/symbolic: anything whose operands are concrete is computed by
CPython itself on the real objects; only operations touching a symbolic value
are translated (pyvc.poly).  Branches whose bodies only assign locals are merged
into ite terms; other symbolic branches fork a path (re-execution with a
decision vector, so no state copying is needed).
"""
import ast
import builtins
import inspect
import textwrap
import types

import z3

from . import poly
from .poly import SV, SB, Refuse, is_sym, sv, truth, ite, and_, or_, not_, cmpop, binop

_BINOPS = {ast.Add: '+', ast.Sub: '-', ast.Mult: '*', ast.BitAnd: '&', ast.BitOr: '|',
           ast.BitXor: '^', ast.LShift: '<<', ast.RShift: '>>', ast.Mod: '%', ast.FloorDiv: '//'}
_CMPOPS = {ast.Lt: '<', ast.LtE: '<=', ast.Gt: '>', ast.GtE: '>=', ast.Eq: '==', ast.NotEq: '!='}

_SAFE_BUILTINS = {'len', 'range', 'min', 'max', 'int', 'isinstance', 'tuple', 'list', 'abs', 'bool',
                  'hasattr', 'getattr', 'divmod', 'sum', 'sorted', 'reversed', 'enumerate', 'zip',
                  'bytes', 'bytearray', 'ord', 'chr', 'str', 'any', 'all', 'set', 'dict', 'callable',
                  'id', 'type', 'iter', 'next', 'frozenset'}


class Unknown:
    """A value outside the model (sound over-approximation: anything)."""
    _inst = None

    def __repr__(self):
        return 'UNK'


UNK = Unknown()


class _Return(Exception):
    def __init__(self, value):
        self.value = value


class _Raise(Exception):
    def __init__(self, exc):
        self.exc = exc


class _Break(Exception):
    pass


class _Continue(Exception):
    pass


class PathEnd(Exception):
    """Path is infeasible or was cut (assume False)."""


_SRC_CACHE = {}


def func_ast(fn):
    """FunctionDef node + first line number of the real, current source of fn."""
    code = fn.__code__
    key = (code.co_filename, code.co_firstlineno, code.co_name)
    hit = _SRC_CACHE.get(key)
    if hit is None:
        src = textwrap.dedent(inspect.getsource(fn))
        node = ast.parse(src).body[0]
        while not isinstance(node, (ast.FunctionDef, ast.AsyncFunctionDef)):
            node = node.body[0]
        # drop the docstring (comments are already gone): the only thing extraction drops
        if (node.body and isinstance(node.body[0], ast.Expr) and isinstance(node.body[0].value, ast.Constant)
                and isinstance(node.body[0].value.value, str)):
            node.body = node.body[1:] or [ast.Pass()]
        hit = (node, src)
        _SRC_CACHE[key] = hit
    return hit


def is_simple_block(stmts):
    """Only assignments to local names, no calls, no subscript stores: can be merged."""
    for st in stmts:
        if isinstance(st, ast.Assign):
            for t in st.targets:
                if isinstance(t, ast.Name):
                    continue
                if isinstance(t, ast.Tuple) and all(isinstance(e, ast.Name) for e in t.elts):
                    continue
                return False
            if any(isinstance(n, (ast.Call, ast.NamedExpr)) for n in ast.walk(st.value)):
                return False
        elif isinstance(st, ast.AugAssign):
            if not isinstance(st.target, ast.Name):
                return False
            if any(isinstance(n, (ast.Call, ast.NamedExpr)) for n in ast.walk(st.value)):
                return False
        elif isinstance(st, ast.If):
            if any(isinstance(n, (ast.Call, ast.NamedExpr)) for n in ast.walk(st.test)):
                return False
            if not (is_simple_block(st.body) and is_simple_block(st.orelse)):
                return False
        elif isinstance(st, ast.Pass):
            continue
        else:
            return False
    return True


class SymList:
    """Python list of concrete length with (possibly symbolic) elements."""

    def __init__(self, items, name='list', on_store=None):
        self.items = list(items)
        self.name = name
        self.on_store = on_store  # callback(engine, index, value)

    def __len__(self):
        return len(self.items)


class SymMem:
    """Flat byte-addressed memory as an SMT array. Reads yield bytes (the
    precondition `every cell in 0..255` is attached as a fact per read)."""

    def __init__(self, name='mem', size=65536):
        self.name = name
        self.size = size
        self.arr = z3.Array(name, z3.BitVecSort(poly.W), z3.BitVecSort(poly.W))
        self.arr0 = self.arr
        self.reads = []    # address terms read (for model extraction)
        self.writes = []   # (addr SV, value SV)
        self.attrs = {}

    def clone_fresh(self):
        m = SymMem(self.name, self.size)
        return m


class TabRef:
    """A lookup table known by contract: fn(*indices) gives the leaf."""

    def __init__(self, name, dims, fn, idx=(), obj=None):
        self.name = name
        self.dims = dims
        self.fn = fn
        self.idx = idx
        self.obj = obj

    def __repr__(self):
        return 'TabRef(%s%s)' % (self.name, ''.join('[%s]' % (i,) for i in self.idx))


class ObjModel:
    """An object whose attributes are modelled (symbolic or concrete); falls
    back on the real object for attributes not in the model."""

    def __init__(self, real=None, attrs=None, name='obj', cls=None):
        self.real = real
        self.attrs = dict(attrs or {})
        self.name = name
        self.cls = cls if cls is not None else (type(real) if real is not None else None)
        self.written = {}
        self.on_setattr = None


class Frame:
    def __init__(self, fn, node, locs, cells, globs, selfobj=None):
        self.fn = fn
        self.node = node
        self.loc = locs
        self.cells = cells
        self.globs = globs
        self.selfobj = selfobj
        self.parent = None


class Obligation:
    __slots__ = ('kind', 'site', 'cond', 'pc', 'info', 'guards')

    def __init__(self, kind, site, cond, pc, info=None):
        self.kind = kind
        self.site = site
        self.cond = cond   # SB / bool: must hold
        self.pc = pc       # list of z3 Bool terms (path condition incl. merge guards)
        self.info = info


class Path:
    """Result of one explored path."""

    def __init__(self):
        self.pc = []          # z3 Bool terms
        self.facts = []       # z3 Bool terms: ranges of fresh values / memory reads
        self.defs = []        # opaque-function applications (poly.opaque) awaiting reveal
        self.obligations = []
        self.events = []      # external calls: (name, args)
        self.retval = None
        self.raised = None
        self.decisions = []
        self.dispatch = None
        self.notes = []
        self.cut = False


class Engine:
    """Executes one function over models. Subclass / configure through hooks."""

    MAX_PATHS = 4096
    FUEL = 200000

    def __init__(self, objmap=None, attr_overrides=None, call_models=None, inline_ok=None,
                 contracts=None, loop_invariants=None, unknown_ok=False):
        self.objmap = objmap or {}            # id(real obj) -> model value
        self.attr_overrides = attr_overrides or {}   # (id(obj), attr) -> model value or callable(engine)->value
        self.call_models = call_models or {}  # id(callable) or name -> handler(engine, args, kwargs)
        self.inline_ok = inline_ok            # predicate(fn) -> bool
        self.contracts = contracts or {}
        self.loop_invariants = loop_invariants or {}
        self.unknown_ok = unknown_ok
        self.on_yield = None
        self.path = None
        self.frames = []
        self.guards = []
        self.site_ids = {}
        self.fresh_n = 0
        self.fuel = 0

    # ---- path management -------------------------------------------------
    def explore(self, start):
        """start(engine) sets up the state and runs; returns list of Path."""
        results = []
        stack = [[]]
        while stack:
            dec = stack.pop()
            self.path = Path()
            self.dec = list(dec)
            self.di = 0
            self.alternatives = []
            self.frames = []
            self.guards = []
            self.exc_stack = []
            self.fresh_n = 0
            self.fuel = self.FUEL
            old = poly.set_overflow_hook(self._overflow)
            oldc = poly.set_collectors(self.path.facts, self.path.defs)
            try:
                try:
                    start(self)
                except PathEnd:
                    self.path.cut = True
                except _Raise as r:
                    self.path.raised = r.exc
            finally:
                poly.set_overflow_hook(old)
                poly.set_collectors(*oldc)
            self.path.decisions = list(self.dec)
            results.append(self.path)
            stack.extend(self.alternatives)
            if len(results) + len(stack) > self.MAX_PATHS:
                raise Refuse('path explosion (> %d paths)' % self.MAX_PATHS)
        return results

    def _overflow(self, kind, lo, hi, ok_term):
        self.oblige('no_overflow', SB(ok_term), info='%s in [%d,%d]' % (kind, lo, hi))

    def fresh(self, name, lo, hi):
        self.fresh_n += 1
        v = poly.fresh('%s!%d' % (name, self.fresh_n), lo, hi)
        self.path.facts.append(z3.And(v.t >= lo, v.t <= hi))
        return v

    def cur_pc(self):
        return list(self.path.pc) + list(self.guards)

    def oblige(self, kind, cond, node=None, info=None):
        cond = truth(cond) if not isinstance(cond, (bool, SB)) else cond
        site = self.site_of(kind, node)
        self.path.obligations.append(Obligation(kind, site, cond, self.cur_pc(), info))

    def site_of(self, kind, node):
        if node is None:
            key = (kind, None)
        else:
            fr = self.frames[-1] if self.frames else None
            key = (kind, fr.fn.__qualname__ if fr else '', getattr(node, 'lineno', 0), getattr(node, 'col_offset', 0))
        d = self.site_ids.setdefault(kind, {})
        if key not in d:
            d[key] = len(d) + 1
        return d[key]

    def assume(self, cond):
        cond = truth(cond)
        if isinstance(cond, bool):
            if not cond:
                raise PathEnd()
            return
        self.path.pc.append(cond.t)

    def decide(self, c):
        """Fork on a symbolic condition."""
        c = truth(c)
        if isinstance(c, bool):
            return c
        t = z3.simplify(c.t)
        if z3.is_true(t):
            return True
        if z3.is_false(t):
            return False
        if self.di < len(self.dec):
            d = self.dec[self.di]
        else:
            d = True
            self.alternatives.append(self.dec + [False])
            self.dec.append(True)
        self.di += 1
        self.path.pc.append(t if d else z3.Not(t))
        return d

    # ---- running functions ------------------------------------------------
    def call_function(self, fn, args, kwargs=None, selfobj=None):
        """Inline-execute a real Python function on model values."""
        if isinstance(fn, ClosureModel):
            return self.call_closure(fn, list(args), kwargs)
        if isinstance(fn, types.MethodType):
            selfobj = fn.__self__
            fn = fn.__func__
            args = [self.wrap(selfobj)] + list(args)
        node, _ = func_ast(fn)
        a = node.args
        if a.vararg or a.kwarg or a.kwonlyargs or a.posonlyargs:
            raise Refuse('unsupported signature in ' + fn.__qualname__)
        params = [p.arg for p in a.args]
        locs = {}
        args = list(args)
        if len(args) > len(params):
            raise Refuse('too many arguments for ' + fn.__qualname__)
        for p, v in zip(params, args):
            locs[p] = v
        kwargs = dict(kwargs or {})
        defaults = fn.__defaults__ or ()
        dstart = len(params) - len(defaults)
        for i, p in enumerate(params):
            if p in locs:
                continue
            if p in kwargs:
                locs[p] = kwargs.pop(p)
            elif i >= dstart:
                locs[p] = self.wrap(defaults[i - dstart])
            else:
                raise Refuse('missing argument %s for %s' % (p, fn.__qualname__))
        if kwargs:
            raise Refuse('unexpected keyword arguments for ' + fn.__qualname__)
        cells = {}
        if fn.__closure__:
            for n, c in zip(fn.__code__.co_freevars, fn.__closure__):
                try:
                    cells[n] = c.cell_contents
                except ValueError:
                    pass
        fr = Frame(fn, node, locs, cells, fn.__globals__, selfobj)
        self.frames.append(fr)
        if len(self.frames) > 12:
            raise Refuse('call depth')
        try:
            try:
                self.exec_block(node.body)
                rv = None
            except _Return as r:
                rv = r.value
        finally:
            self.frames.pop()
        return rv

    def call_closure(self, c, args, kwargs):
        node = c.node
        params = [p.arg for p in node.args.args]
        if len(args) > len(params) or kwargs:
            raise Refuse('closure call arguments')
        locs = dict(zip(params, args))
        if len(locs) != len(params):
            raise Refuse('closure call with defaults')
        fr = Frame(c.frame.fn, node, locs, c.frame.cells, c.frame.globs, c.frame.selfobj)
        fr.parent = c.frame
        self.frames.append(fr)
        try:
            if isinstance(node, ast.Lambda):
                return self.ev(node.body)
            try:
                self.exec_block(node.body)
                return None
            except _Return as r:
                return r.value
        finally:
            self.frames.pop()

    def run_stmts(self, fn, stmts, locs, selfobj=None):
        """Execute a slice (list of statement nodes taken from fn's own AST) in a
        frame with fn's globals/closure and the given locals."""
        node, _ = func_ast(fn)
        cells = {}
        if fn.__closure__:
            for n, c in zip(fn.__code__.co_freevars, fn.__closure__):
                try:
                    cells[n] = c.cell_contents
                except ValueError:
                    pass
        fr = Frame(fn, node, locs, cells, fn.__globals__, selfobj)
        self.frames.append(fr)
        try:
            try:
                self.exec_block(stmts)
            except _Return as r:
                return r.value
        finally:
            self.frames.pop()
            if fr.loc is not locs:
                # merged branches rebind the frame's dict: hand the final locals back to the caller's dict
                final = dict(fr.loc)
                locs.clear()
                locs.update(final)
        return None

    # ---- wrapping real objects -------------------------------------------
    def wrap(self, v):
        if v is None or isinstance(v, (bool, int, str, bytes, float)):
            return v
        m = self.objmap.get(id(v))
        if m is not None:
            return m
        return v

    # ---- statements ------------------------------------------------------
    def exec_block(self, stmts):
        for s in stmts:
            self.exec_stmt(s)

    def exec_stmt(self, s):
        self.fuel -= 1
        if self.fuel < 0:
            raise Refuse('fuel exhausted (non-terminating concrete loop?)')
        fr = self.frames[-1]
        if isinstance(s, ast.Assign):
            v = self.ev(s.value)
            for t in s.targets:
                self.assign(t, v)
        elif isinstance(s, ast.AugAssign):
            op = _BINOPS.get(type(s.op))
            if op is None:
                raise Refuse('augmented operator')
            if isinstance(s.target, ast.Subscript):
                base = self.ev(s.target.value)
                idx = self.ev_index(s.target.slice)
                cur = self.getitem(base, idx, s.target)
                self.setitem(base, idx, self.binop(op, cur, self.ev(s.value), s), s.target)
            else:
                cur = self.ev(s.target)
                self.assign(s.target, self.binop(op, cur, self.ev(s.value), s))
        elif isinstance(s, ast.If):
            self.exec_if(s)
        elif isinstance(s, ast.Expr):
            if isinstance(s.value, ast.Yield):
                # generator functions are run eagerly: each yield is reported to the hook
                v = self.ev(s.value.value) if s.value.value is not None else None
                if self.on_yield is None:
                    raise Refuse('yield without a consumer model')
                self.on_yield(self, v, s)
            else:
                self.ev(s.value)
        elif isinstance(s, ast.Return):
            raise _Return(self.ev(s.value) if s.value is not None else None)
        elif isinstance(s, ast.For):
            self.exec_for(s)
        elif isinstance(s, ast.While):
            self.exec_while(s)
        elif isinstance(s, ast.Pass):
            pass
        elif isinstance(s, ast.Break):
            raise _Break()
        elif isinstance(s, ast.Continue):
            raise _Continue()
        elif isinstance(s, ast.Raise):
            if s.exc is None:
                if not self.exc_stack:
                    raise Refuse('bare raise outside an except block')
                raise _Raise(self.exc_stack[-1])
            raise _Raise(self.ev(s.exc))
        elif isinstance(s, ast.Assert):
            self.oblige('assert', truth(self.ev(s.test)), s)
        elif isinstance(s, ast.Delete):
            for t in s.targets:
                self.delete(t)
        elif isinstance(s, (ast.Import, ast.ImportFrom)):
            self.exec_import(s)
        elif isinstance(s, ast.Try):
            self.exec_try(s)
        elif isinstance(s, ast.FunctionDef):
            if s.decorator_list or s.args.vararg or s.args.kwarg or s.args.kwonlyargs:
                raise Refuse('nested function with decorators / variadic signature')
            fr.loc[s.name] = ClosureModel(s, fr)
        elif isinstance(s, (ast.Global, ast.Nonlocal)):
            raise Refuse('global/nonlocal')
        else:
            raise Refuse('statement ' + type(s).__name__)

    def exec_import(self, s):
        fr = self.frames[-1]
        glob = {'__name__': fr.globs.get('__name__'), '__package__': fr.globs.get('__package__')}
        mod = ast.Module(body=[s], type_ignores=[])
        exec(compile(mod, '<pyvc-import>', 'exec'), glob)
        for k, v in glob.items():
            if not k.startswith('__'):
                fr.loc[k] = self.wrap(v)

    def exec_try(self, s):
        # only try/except around code we execute concretely-or-symbolically without raising;
        # a symbolic `raise` inside propagates as _Raise and is matched by exception class
        try:
            self.exec_block(s.body)
        except _Raise as r:
            for h in s.handlers:
                if h.type is None:
                    match = True
                else:
                    et = self.ev(h.type)
                    exc = r.exc
                    cls = exc if isinstance(exc, type) else type(exc)
                    match = isinstance(et, (type, tuple)) and issubclass(cls, et)
                if match:
                    if h.name:
                        self.frames[-1].loc[h.name] = r.exc
                    self.exc_stack.append(r.exc)
                    try:
                        self.exec_block(h.body)
                    finally:
                        self.exc_stack.pop()
                    break
            else:
                raise
        else:
            self.exec_block(s.orelse)
        self.exec_block(s.finalbody)

    def as_cond(self, v):
        """Truth value of v; an unknown value is an arbitrary boolean."""
        if isinstance(v, Unknown):
            self.fresh_n += 1
            return SB(z3.Bool('unk!%d' % self.fresh_n))
        if isinstance(v, (SymList,)):
            return len(v.items) > 0
        if is_sym(v) or isinstance(v, (bool, int)):
            return truth(v)
        return bool(v)

    def exec_if(self, s):
        c = self.as_cond(self.ev_cond(s.test))
        if isinstance(c, bool):
            return self.exec_block(s.body if c else s.orelse)
        t = z3.simplify(c.t)
        if z3.is_true(t):
            return self.exec_block(s.body)
        if z3.is_false(t):
            return self.exec_block(s.orelse)
        if is_simple_block(s.body) and is_simple_block(s.orelse):
            fr = self.frames[-1]
            base = dict(fr.loc)
            self.guards.append(t)
            try:
                self.exec_block(s.body)
            finally:
                self.guards.pop()
            l1 = fr.loc
            fr.loc = dict(base)
            self.guards.append(z3.Not(t))
            try:
                self.exec_block(s.orelse)
            finally:
                self.guards.pop()
            l2 = fr.loc
            merged = {}
            cb = SB(t)
            for k in set(l1) | set(l2):
                if k not in l1 or k not in l2:
                    # bound on one side only: reading it later is an UnboundLocalError on the other side
                    merged[k] = _Unbound(k, not_(cb) if k in l1 else cb, l1[k] if k in l1 else l2[k])
                    continue
                a, b = l1[k], l2[k]
                if a is b:
                    merged[k] = a
                elif isinstance(a, _Unbound) or isinstance(b, _Unbound):
                    wa = a.when if isinstance(a, _Unbound) else False
                    wb = b.when if isinstance(b, _Unbound) else False
                    va = a.value if isinstance(a, _Unbound) else a
                    vb = b.value if isinstance(b, _Unbound) else b
                    try:
                        val = va if va is vb else ite(cb, va, vb)
                    except (Refuse, TypeError):
                        val = va
                    merged[k] = _Unbound(k, ite(cb, wa, wb), val)
                else:
                    try:
                        merged[k] = ite(cb, a, b)
                    except (Refuse, TypeError):
                        if isinstance(a, (int, SV, SB)) or isinstance(b, (int, SV, SB)):
                            raise
                        # different non-integer objects: cannot merge -> fork instead
                        fr.loc = base
                        return self._fork_if(s, SB(t))
            fr.loc = merged
            return
        return self._fork_if(s, SB(t))

    def _fork_if(self, s, c):
        if self.decide(c):
            self.exec_block(s.body)
        else:
            self.exec_block(s.orelse)

    def exec_for(self, s):
        it = self.ev(s.iter)
        if isinstance(it, SymList):
            it = list(it.items)
        if isinstance(it, (Unknown,)) or is_sym(it):
            return self.exec_loop_with_invariant(s)
        if isinstance(it, (tuple, list, range, str, bytes, dict)) or hasattr(it, '__iter__'):
            if not isinstance(it, (tuple, list, range, str, bytes, dict, zip, enumerate, reversed)) and not isinstance(it, types.GeneratorType):
                # unknown iterable type: only accept real builtin containers
                if not isinstance(it, (set, frozenset, bytearray, type({}.items()), type({}.keys()), type({}.values()))):
                    raise Refuse('iteration over ' + type(it).__name__)
            broke = False
            for x in it:
                self.assign(s.target, self.wrap(x) if not isinstance(x, tuple) else x)
                try:
                    self.exec_block(s.body)
                except _Break:
                    broke = True
                    break
                except _Continue:
                    continue
            if not broke:
                self.exec_block(s.orelse)
            return
        raise Refuse('for over ' + type(it).__name__)

    def exec_while(self, s):
        key = self.loop_key(s)
        if key in self.loop_invariants:
            return self.exec_loop_with_invariant(s)
        # concrete-condition loop: run it; a symbolic condition needs an invariant
        while True:
            self.fuel -= 1
            if self.fuel < 0:
                raise Refuse('fuel exhausted in while loop')
            c = self.as_cond(self.ev_cond(s.test))
            if not isinstance(c, bool):
                t = z3.simplify(c.t)
                if z3.is_true(t):
                    c = True
                elif z3.is_false(t):
                    c = False
                else:
                    raise Refuse('while loop with symbolic condition and no invariant: %s line %d' % key)
            if not c:
                self.exec_block(s.orelse)
                return
            try:
                self.exec_block(s.body)
            except _Break:
                return
            except _Continue:
                continue

    def loop_key(self, s):
        fr = self.frames[-1]
        # ordinal of the loop in the function
        loops = [n for n in ast.walk(fr.node) if isinstance(n, (ast.While, ast.For))]
        loops.sort(key=lambda n: (n.lineno, n.col_offset))
        return (fr.fn.__qualname__, loops.index(s))

    def exec_loop_with_invariant(self, s):
        key = self.loop_key(s)
        inv = self.loop_invariants.get(key)
        if inv is None:
            raise Refuse('loop with symbolic trip count and no invariant: %s #%d' % key)
        return inv(self, s)

    # ---- assignment ------------------------------------------------------
    def assign(self, t, v):
        fr = self.frames[-1]
        if isinstance(t, ast.Name):
            fr.loc[t.id] = v
        elif isinstance(t, (ast.Tuple, ast.List)):
            if isinstance(v, SymList):
                v = tuple(v.items)
            if isinstance(v, TabRef):
                v = self.tab_expand(v, t)
            if not isinstance(v, (tuple, list)):
                if isinstance(v, Unknown):
                    for e in t.elts:
                        self.assign(e, UNK)
                    return
                raise Refuse('unpacking a non-tuple')
            if len(v) != len(t.elts):
                self.oblige('arity', False, t, info='unpack %d into %d' % (len(v), len(t.elts)))
                raise PathEnd()
            for a, b in zip(t.elts, v):
                self.assign(a, b)
        elif isinstance(t, ast.Subscript):
            base = self.ev(t.value)
            idx = self.ev_index(t.slice)
            self.setitem(base, idx, v, t)
        elif isinstance(t, ast.Attribute):
            obj = self.ev(t.value)
            self.setattr(obj, t.attr, v, t)
        else:
            raise Refuse('assignment target ' + type(t).__name__)

    def delete(self, t):
        if isinstance(t, ast.Subscript):
            base = self.ev(t.value)
            idx = self.ev_index(t.slice)
            return self.delitem(base, idx, t)
        raise Refuse('del target')

    def delitem(self, base, idx, node):
        if isinstance(base, TrackedDict):
            if base.on_delete:
                base.on_delete(self, idx, node)
            base.forget(idx)
            return
        raise Refuse('del on ' + type(base).__name__)

    def setattr(self, obj, attr, v, node):
        if isinstance(obj, ObjModel):
            if obj.on_setattr is not None:
                v = obj.on_setattr(self, attr, v, node)
            obj.attrs[attr] = v
            obj.written[attr] = v
            return
        raise Refuse('attribute store on ' + type(obj).__name__)

    def tab_expand(self, tab, node):
        raise Refuse('unpacking an incomplete table reference ' + repr(tab))

    def setitem(self, base, idx, v, node):
        if isinstance(base, SymList):
            if isinstance(idx, slice):
                lo, hi, st = idx.indices(len(base.items))
                if st != 1:
                    raise Refuse('slice step')
                if isinstance(v, SymList):
                    v = tuple(v.items)
                if isinstance(v, TabRef):
                    # a table row where a tuple is expected: length mismatch changes the list length
                    n = v.dims[len(v.idx)] if len(v.idx) < len(v.dims) else None
                    self.oblige('arity', False, node, info='slice of %d assigned from table row of %s' % (hi - lo, n))
                    raise PathEnd()
                if not isinstance(v, (tuple, list)):
                    raise Refuse('slice assignment from ' + type(v).__name__)
                if len(v) != hi - lo:
                    self.oblige('arity', False, node, info='slice of %d assigned %d values' % (hi - lo, len(v)))
                    raise PathEnd()
                for k, x in enumerate(v):
                    self._list_store(base, lo + k, x, node)
                return
            if isinstance(idx, int):
                n = len(base.items)
                if not -n <= idx < n:
                    self.oblige('idx', False, node)
                    raise PathEnd()
                self._list_store(base, idx % n, v, node)
                return
            if isinstance(idx, SV):
                n = len(base.items)
                self.oblige('idx', and_(idx >= 0, idx < n), node)
                for k in range(n):
                    if idx.lo <= k <= idx.hi:
                        old = base.items[k]
                        base.items[k] = ite(cmpop('==', idx, k), v, old)
                return
            raise Refuse('list index ' + type(idx).__name__)
        if isinstance(base, SymMem):
            return self.mem_store(base, idx, v, node)
        if isinstance(base, TrackedDict):
            if base.on_insert:
                base.on_insert(self, idx, v, node)
            if isinstance(idx, (int, SV)) and not base.known(idx):
                base.members.append(idx)
            return
        if isinstance(base, DictModel):
            i = base.find(idx)
            if i >= 0:
                base.pairs[i] = (idx, v)
            else:
                base.pairs.append((idx, v))
            return
        if isinstance(base, BankRef):
            if not isinstance(idx, (int, SV, SB)):
                raise Refuse('bank slice store')
            idx = sv(idx)
            v = sv(v)
            h = base.heap
            self.oblige('idx', and_(idx >= 0, idx < h.bank_size), node)
            a = sv(base.bid * h.bank_size + idx)
            new = z3.Store(h.arr, a.t, v.t)
            if self.guards:
                new = z3.If(z3.And(*self.guards), new, h.arr)
            h.arr = new
            h.writes.append((base.bid, idx, v))
            return
        raise Refuse('subscript store on ' + type(base).__name__)

    def _list_store(self, base, k, v, node):
        if base.on_store:
            v = base.on_store(self, k, v, node)
        base.items[k] = v

    def mem_store(self, mem, a, v, node):
        a = sv(a)
        v = sv(v)
        self.oblige('idx', and_(a >= 0, a < mem.size), node)
        self.mem_store_hook(mem, a, v, node)
        guard = self.guards
        new = z3.Store(mem.arr, a.t, v.t)
        if guard:
            new = z3.If(z3.And(*guard), new, mem.arr)
        mem.arr = new
        mem.writes.append((a, v))

    def mem_store_hook(self, mem, a, v, node):
        pass

    def mem_load(self, mem, a, node):
        a = sv(a)
        self.oblige('idx', and_(a >= 0, a < mem.size), node)
        t = z3.Select(mem.arr, a.t)
        mem.reads.append(a.t)
        self.path.facts.append(z3.And(t >= 0, t <= 255))
        return SV(t, 0, 255)

    # ---- expressions -----------------------------------------------------
    def binop(self, op, a, b, node=None):
        if isinstance(a, Unknown) or isinstance(b, Unknown):
            return UNK
        if isinstance(a, SymList) or isinstance(b, SymList):
            if op == '*' and isinstance(a, SymList) and isinstance(b, int):
                return SymList(a.items * b)
            if op == '+' and isinstance(a, SymList) and isinstance(b, (SymList, list, tuple)):
                return SymList(a.items + list(b.items if isinstance(b, SymList) else b))
            raise Refuse('list operator ' + op)
        if isinstance(a, (tuple, list, str, bytes)) or isinstance(b, (tuple, list, str, bytes)):
            if not (is_sym(a) or is_sym(b)):
                if op == '+':
                    return a + b
                if op == '*':
                    return a * b
                if op == '%' and isinstance(a, str):
                    return a % b
            raise Refuse('sequence operator with symbolic operand')
        return binop(op, a, b)

    def ev_cond(self, e):
        """Evaluate an expression in *condition context*: only its truth value
        matters, so and/or/not become boolean connectives over the operands'
        truth values (short-circuit: later operands are evaluated under the
        guard of the earlier ones)."""
        if isinstance(e, ast.BoolOp):
            is_and = isinstance(e.op, ast.And)
            vals = []
            pushed = 0
            unknown = False
            try:
                for x in e.values:
                    v = self.ev_cond(x)
                    if isinstance(v, Unknown):
                        unknown = True
                        continue
                    tv = v if isinstance(v, (bool, SB)) else (truth(v) if (is_sym(v) or isinstance(v, int)) else
                                                               (len(v.items) > 0 if isinstance(v, SymList) else self.as_cond(v)))
                    if isinstance(tv, bool):
                        if tv != is_and:
                            return tv       # decided concretely: short circuit
                        continue
                    vals.append(tv)
                    self.guards.append(tv.t if is_and else z3.Not(tv.t))
                    pushed += 1
            finally:
                for _ in range(pushed):
                    self.guards.pop()
            if unknown:
                return UNK
            if not vals:
                return is_and
            return and_(*vals) if is_and else or_(*vals)
        if isinstance(e, ast.UnaryOp) and isinstance(e.op, ast.Not):
            v = self.ev_cond(e.operand)
            if isinstance(v, Unknown):
                return UNK
            if isinstance(v, (bool, SB)) or is_sym(v) or isinstance(v, int):
                return not_(v)
            if isinstance(v, SymList):
                return len(v.items) == 0
            return not_(self.as_cond(v))      # model objects of engine subclasses define their own truth value
        return self.ev(e)

    def ev_index(self, sl):
        if isinstance(sl, ast.Slice):
            lo = self.ev(sl.lower) if sl.lower is not None else None
            hi = self.ev(sl.upper) if sl.upper is not None else None
            st = self.ev(sl.step) if sl.step is not None else None
            for x in (lo, hi, st):
                if is_sym(x):
                    return ('symslice', lo, hi, st)
            return slice(lo, hi, st)
        return self.ev(sl)

    def lookup(self, name, node=None):
        chain = [self.frames[-1]]
        while getattr(chain[-1], 'parent', None) is not None:
            chain.append(chain[-1].parent)
        for fr in chain:
            if name in fr.loc:
                v = fr.loc[name]
                if isinstance(v, _Unbound):
                    self.oblige('def_before_use', not_(v.when), node, info=name)
                    self.assume(not_(v.when))
                    fr.loc[name] = v.value
                    return v.value
                return v
        for fr in (self.frames[-1],):
            if name in fr.cells:
                return self.wrap(fr.cells[name])
            if name in fr.globs:
                return self.wrap(fr.globs[name])
            if hasattr(builtins, name):
                return getattr(builtins, name)
        # local never assigned on this path?
        fr = self.frames[-1]
        if name in fr.fn.__code__.co_varnames:
            self.oblige('def_before_use', False, node, info=name)
            raise PathEnd()
        raise Refuse('unknown name ' + name)

    def ev(self, e):
        if isinstance(e, ast.Constant):
            return e.value
        if isinstance(e, ast.Name):
            return self.lookup(e.id, e)
        if isinstance(e, ast.BinOp):
            op = _BINOPS.get(type(e.op))
            if op is None:
                a, b = self.ev(e.left), self.ev(e.right)
                if not (is_sym(a) or is_sym(b)) and not isinstance(a, Unknown) and not isinstance(b, Unknown):
                    if isinstance(e.op, ast.Div):
                        return a / b
                    if isinstance(e.op, ast.Pow):
                        return a ** b
                if isinstance(e.op, ast.Div) and self.unknown_ok:
                    return UNK      # a float: outside the integer model (only ever formatted into messages here)
                raise Refuse('operator ' + type(e.op).__name__)
            return self.binop(op, self.ev(e.left), self.ev(e.right), e)
        if isinstance(e, ast.UnaryOp):
            v = self.ev(e.operand)
            if isinstance(v, Unknown):
                return UNK
            if isinstance(e.op, ast.Not):
                return not_(v) if (is_sym(v) or isinstance(v, (bool, int))) else not_(self.as_cond(v))
            if isinstance(e.op, ast.USub):
                return binop('-', 0, v)
            if isinstance(e.op, ast.Invert):
                return binop('-', binop('-', 0, v), 1)
            if isinstance(e.op, ast.UAdd):
                return v
        if isinstance(e, ast.BoolOp):
            return self.ev_boolop(e)
        if isinstance(e, ast.Compare):
            return self.ev_compare(e)
        if isinstance(e, ast.Tuple):
            out = []
            for x in e.elts:
                if isinstance(x, ast.Starred):
                    sv_ = self.ev(x.value)
                    if isinstance(sv_, SymList):
                        sv_ = sv_.items
                    if not isinstance(sv_, (tuple, list)):
                        raise Refuse('starred non-tuple')
                    out.extend(sv_)
                else:
                    out.append(self.ev(x))
            return tuple(out)
        if isinstance(e, ast.List):
            out = []
            for x in e.elts:
                if isinstance(x, ast.Starred):
                    sv_ = self.ev(x.value)
                    if isinstance(sv_, SymList):
                        sv_ = sv_.items
                    if not isinstance(sv_, (tuple, list)):
                        raise Refuse('starred non-sequence')
                    out.extend(sv_)
                else:
                    out.append(self.ev(x))
            return SymList(out)
        if isinstance(e, ast.Subscript):
            base = self.ev(e.value)
            idx = self.ev_index(e.slice)
            return self.getitem(base, idx, e)
        if isinstance(e, ast.Attribute):
            obj = self.ev(e.value)
            return self.getattr(obj, e.attr, e)
        if isinstance(e, ast.Call):
            return self.ev_call(e)
        if isinstance(e, ast.IfExp):
            c = self.as_cond(self.ev_cond(e.test))
            if isinstance(c, bool):
                return self.ev(e.body if c else e.orelse)
            if any(isinstance(n, ast.Call) for n in ast.walk(e.body)) or any(isinstance(n, ast.Call) for n in ast.walk(e.orelse)):
                if self.decide(c):
                    return self.ev(e.body)
                return self.ev(e.orelse)
            self.guards.append(c.t)
            try:
                a = self.ev(e.body)
            finally:
                self.guards.pop()
            self.guards.append(z3.Not(c.t))
            try:
                b = self.ev(e.orelse)
            finally:
                self.guards.pop()
            return ite(c, a, b)
        if isinstance(e, ast.NamedExpr):
            v = self.ev(e.value)
            self.assign(e.target, v)
            return v
        if isinstance(e, ast.JoinedStr):
            parts = []
            for v in e.values:
                if isinstance(v, ast.Constant):
                    parts.append(v.value)
                else:
                    x = self.ev(v.value)
                    if is_sym(x) or isinstance(x, Unknown):
                        return UNK if self.unknown_ok else self._refuse('f-string of symbolic value')
                    spec = ''
                    if v.format_spec is not None:
                        spec = self.ev(v.format_spec)
                    conv = {-1: '', 115: '!s', 114: '!r', 97: '!a'}[v.conversion]
                    parts.append(('{0%s:%s}' % (conv, spec)).format(x))
            return ''.join(parts)
        if isinstance(e, (ast.ListComp, ast.GeneratorExp)):
            return self.ev_comprehension(e)
        if isinstance(e, ast.Lambda):
            a_ = e.args
            if a_.vararg or a_.kwarg or a_.kwonlyargs or a_.posonlyargs or a_.defaults:
                raise Refuse('lambda with a variadic signature or defaults')
            return ClosureModel(e, self.frames[-1])
        if isinstance(e, (ast.SetComp, ast.DictComp, ast.Dict, ast.Set)):
            return self.ev_native(e)
        raise Refuse('expression ' + type(e).__name__)

    def _refuse(self, msg):
        raise Refuse(msg)

    def ev_comprehension(self, e):
        """List comprehension / generator expression over concrete iterables
        (elements may be symbolic). A generator expression is materialised."""
        fr = self.frames[-1]
        saved = dict(fr.loc)
        out = []

        def rec(k):
            if k == len(e.generators):
                out.append(self.ev(e.elt))
                return
            g = e.generators[k]
            if g.is_async:
                raise Refuse('async comprehension')
            it = self.ev(g.iter)
            if isinstance(it, SymList):
                it = list(it.items)
            if isinstance(it, Unknown):
                raise Refuse('comprehension over unknown')
            if not isinstance(it, (tuple, list, range, str, bytes, bytearray, dict, zip, enumerate)):
                raise Refuse('comprehension over ' + type(it).__name__)
            for x in it:
                self.assign(g.target, x)
                ok = True
                for c in g.ifs:
                    t = truth(self.ev(c))
                    if not isinstance(t, bool):
                        raise Refuse('comprehension filter on a symbolic condition')
                    if not t:
                        ok = False
                        break
                if ok:
                    rec(k + 1)
        try:
            rec(0)
        finally:
            # comprehension variables do not leak
            for name in list(fr.loc):
                if name not in saved:
                    del fr.loc[name]
            for name, v in saved.items():
                fr.loc[name] = v
        return SymList(out) if isinstance(e, ast.ListComp) else tuple(out)

    def ev_native(self, e):
        """Evaluate an expression natively when all names it reads are concrete."""
        fr = self.frames[-1]
        env = {}
        for n in ast.walk(e):
            if isinstance(n, ast.Name) and isinstance(n.ctx, ast.Load):
                nm = n.id
                if nm in fr.loc:
                    v = fr.loc[nm]
                elif nm in fr.cells:
                    v = fr.cells[nm]
                elif nm in fr.globs:
                    v = fr.globs[nm]
                else:
                    continue
                if is_sym(v) or isinstance(v, (Unknown, SymList, SymMem, TabRef, ObjModel, _Unbound)):
                    if self.unknown_ok:
                        return UNK
                    raise Refuse('%s over symbolic value %s' % (type(e).__name__, nm))
                env[nm] = v
        g = dict(fr.globs)
        g.update(env)
        return eval(compile(ast.Expression(e), '<pyvc-native>', 'eval'), g)

    def ev_boolop(self, e):
        is_and = isinstance(e.op, ast.And)
        # short-circuit: later operands are evaluated under the guard of earlier ones
        acc = None   # SB/bool truth so far
        vals = []
        pushed = 0
        try:
            for x in e.values:
                v = self.ev(x)
                if isinstance(v, Unknown):
                    return UNK
                tv = truth(v) if (is_sym(v) or isinstance(v, (bool, int))) else bool(v)
                vals.append((v, tv))
                if isinstance(tv, bool):
                    if tv != is_and:
                        break   # short circuit decided concretely
                    continue
                g = tv.t if is_and else z3.Not(tv.t)
                self.guards.append(g)
                pushed += 1
        finally:
            for _ in range(pushed):
                self.guards.pop()
        # value semantics: if every operand is bool-like return the truth combination
        if all(isinstance(v, (bool, SB)) for v, _ in vals) or True:
            tvs = [tv for _, tv in vals]
            # Python returns an operand, not a bool; in this subset BoolOps are consumed by
            # conditions or arithmetic on 0/1 (bool) operands. Values that are ints are
            # returned faithfully when the result is concretely determined.
            last_v, last_tv = vals[-1]
            if all(isinstance(tv, bool) for tv in tvs):
                return last_v
            if all(isinstance(v, (bool, SB)) for v, _ in vals):
                return and_(*tvs) if is_and else or_(*tvs)
            # mixed int values: encode Python's operand-returning semantics
            res = vals[-1][0]
            for v, tv in reversed(vals[:-1]):
                res = ite(tv, res, v) if is_and else ite(tv, v, res)
            return res

    def ev_compare(self, e):
        l = self.ev(e.left)
        out = []
        for op, rn in zip(e.ops, e.comparators):
            r = self.ev(rn)
            out.append(self.compare(op, l, r, e))
            l = r
        if len(out) == 1:
            return out[0]
        if any(isinstance(x, Unknown) for x in out):
            return UNK
        return and_(*out)

    def compare(self, op, l, r, node):
        if isinstance(l, Unknown) or isinstance(r, Unknown):
            return UNK
        if isinstance(op, (ast.In, ast.NotIn)):
            if isinstance(r, TrackedDict):
                if r.known(l):
                    res = True
                else:
                    self.fresh_n += 1
                    res = SB(z3.Bool('member!%d' % self.fresh_n))
                return res if isinstance(op, ast.In) else not_(res)
            if isinstance(r, SymList):
                r = tuple(r.items)
            if is_sym(l) or (isinstance(r, (tuple, list)) and any(is_sym(x) for x in r)):
                if not isinstance(r, (tuple, list, range)):
                    raise Refuse('membership of symbolic value in ' + type(r).__name__)
                if isinstance(r, range):
                    if r.step != 1:
                        raise Refuse('membership in stepped range')
                    res = and_(cmpop('>=', l, r.start), cmpop('<', l, r.stop))
                else:
                    res = or_(*[cmpop('==', l, x) for x in r if isinstance(x, (int, SV, SB))])
                return res if isinstance(op, ast.In) else not_(res)
            if isinstance(r, TrackedDict):
                if r.known(l):
                    res = True
                else:
                    self.fresh_n += 1
                    res = SB(z3.Bool('member!%d' % self.fresh_n))
                return res if isinstance(op, ast.In) else not_(res)
            if isinstance(r, (TabRef, SymMem, ObjModel)):
                raise Refuse('membership in model object')
            return (l in r) if isinstance(op, ast.In) else (l not in r)
        if isinstance(op, (ast.Is, ast.IsNot)):
            if is_sym(l) or is_sym(r):
                res = False
            else:
                res = l is r
            return res if isinstance(op, ast.Is) else not res
        o = _CMPOPS.get(type(op))
        if o is None:
            raise Refuse('comparison operator')
        if is_sym(l) or is_sym(r):
            if not isinstance(l, (int, SV, SB)) or not isinstance(r, (int, SV, SB)):
                if o == '==':
                    return False
                if o == '!=':
                    return True
                raise Refuse('ordering of symbolic and non-integer')
            return cmpop(o, l, r)
        if isinstance(l, (SymList, SymMem, TabRef, ObjModel)) or isinstance(r, (SymList, SymMem, TabRef, ObjModel)):
            raise Refuse('comparison of model objects')
        return {'<': lambda: l < r, '<=': lambda: l <= r, '>': lambda: l > r, '>=': lambda: l >= r,
                '==': lambda: l == r, '!=': lambda: l != r}[o]()

    def getitem(self, base, idx, node):
        if isinstance(base, Unknown) or isinstance(idx, Unknown):
            return UNK
        if isinstance(base, SymList):
            if isinstance(idx, slice):
                return tuple(base.items[idx]) if False else SymList(base.items[idx])
            if isinstance(idx, int):
                n = len(base.items)
                if not -n <= idx < n:
                    self.oblige('idx', False, node)
                    raise PathEnd()
                return base.items[idx]
            if isinstance(idx, SV):
                n = len(base.items)
                self.oblige('idx', and_(idx >= 0, idx < n), node)
                cands = [k for k in range(n) if idx.lo <= k <= idx.hi]
                if not cands:
                    raise PathEnd()
                if any(not isinstance(base.items[k], (int, SV, SB)) for k in cands):
                    # a list of objects: one path per index value
                    self.assume(and_(idx >= 0, idx < n))
                    for k in cands[:-1]:
                        if self.decide(cmpop('==', idx, k)):
                            return base.items[k]
                    self.assume(cmpop('==', idx, cands[-1]))
                    return base.items[cands[-1]]
                res = base.items[cands[-1]]
                for k in reversed(cands[:-1]):
                    res = ite(cmpop('==', idx, k), base.items[k], res)
                return res
            raise Refuse('list index ' + type(idx).__name__)
        if isinstance(base, SymMem):
            if isinstance(idx, (int, SV, SB)):
                return self.mem_load(base, idx, node)
            raise Refuse('memory slice')
        if isinstance(base, TabRef):
            return self.tab_index(base, idx, node)
        if isinstance(base, TrackedDict):
            return UNK
        if isinstance(base, DictModel):
            i = base.find(idx)
            if i < 0:
                raise _Raise(KeyError(repr(idx)))
            return base.pairs[i][1]
        if isinstance(base, BankTuple):
            if isinstance(idx, int):
                if not -base.count <= idx < base.count:
                    self.oblige('idx', False, node)
                    raise PathEnd()
                return BankRef(base.heap, base.base + idx % base.count)
            if isinstance(idx, (SV, SB)):
                idx = sv(idx)
                self.oblige('idx', and_(idx >= 0, idx < base.count), node)
                return BankRef(base.heap, base.base + idx)
            raise Refuse('bank tuple index')
        if isinstance(base, BankRef):
            if isinstance(idx, (int, SV, SB)):
                idx = sv(idx)
                h = base.heap
                self.oblige('idx', and_(idx >= 0, idx < h.bank_size), node)
                t = z3.Select(h.arr, sv(base.bid * h.bank_size + idx).t)
                self.path.facts.append(z3.And(t >= 0, t <= 255))
                return SV(t, 0, 255)
            raise Refuse('bank slice')
        if isinstance(base, tuple) and is_sym(idx):
            if isinstance(idx, SB):
                idx = sv(idx)
            if isinstance(idx, SV):
                n = len(base)
                self.oblige('idx', and_(idx >= 0, idx < n), node)
                cands = [k for k in range(n) if idx.lo <= k <= idx.hi]
                if not cands:
                    raise PathEnd()
                if len(cands) > 64:
                    raise Refuse('symbolic index into a %d-tuple without a table contract' % n)
                res = base[cands[-1]]
                for k in reversed(cands[:-1]):
                    res = ite(cmpop('==', idx, k), base[k], res)
                return res
        if is_sym(idx) or isinstance(idx, tuple) and idx and idx[0] == 'symslice':
            if self.unknown_ok:
                return UNK
            raise Refuse('symbolic index into ' + type(base).__name__)
        if isinstance(base, (tuple, list, str, bytes, dict, range, bytearray)):
            try:
                return self.wrap(base[idx])
            except (IndexError, KeyError) as ex:
                raise _Raise(ex)
        raise Refuse('subscript on ' + type(base).__name__)

    def tab_index(self, tab, idx, node):
        if isinstance(idx, slice):
            raise Refuse('slice of a table')
        depth = len(tab.idx)
        if depth >= len(tab.dims):
            raise Refuse('table over-indexed')
        n = tab.dims[depth]
        if isinstance(idx, int):
            if not -n <= idx < n:
                self.oblige('tab_idx', False, node, info=tab.name)
                raise PathEnd()
            idx = idx % n
        else:
            idx = sv(idx)
            if getattr(self, 'neg_index_wraps', False):
                # Python's own rule for sequences: -len <= i < len, negative indices count from the end
                self.oblige('tab_idx', and_(idx >= -n, idx < n), node, info=tab.name)
                idx = ite(idx < 0, idx + n, idx)
            else:
                self.oblige('tab_idx', and_(idx >= 0, idx < n), node, info=tab.name)
        nidx = tab.idx + (idx,)
        if len(nidx) == len(tab.dims):
            return tab.fn(*nidx)
        return TabRef(tab.name, tab.dims, tab.fn, nidx, None)

    def getattr(self, obj, attr, node):
        if isinstance(obj, Unknown):
            return UNK
        if isinstance(obj, ObjModel):
            if attr in obj.attrs:
                v = obj.attrs[attr]
                return v
            if obj.real is not None:
                key = (id(obj.real), attr)
                if key in self.attr_overrides:
                    return self._override(self.attr_overrides[key])
                return self.wrap(getattr(obj.real, attr))
            if obj.cls is not None:
                try:
                    m = inspect.getattr_static(obj.cls, attr)
                except AttributeError:
                    m = None
                if isinstance(m, types.FunctionType):
                    return BoundModelMethod(m, obj)
                if m is not None and isinstance(m, (int, str, tuple, bool, type(None))):
                    return m
            self.oblige('attr_defined', False, node, info=attr)
            raise PathEnd()
        if isinstance(obj, TrackedDict):
            if attr == 'get':
                return CallModel(lambda e, a, k, n: UNK, 'dict.get')
            raise Refuse('tracked dict method ' + attr)
        if isinstance(obj, DictModel):
            if attr == 'get':
                def dget(e, args, kwargs, node, obj=obj):
                    i = obj.find(args[0])
                    return obj.pairs[i][1] if i >= 0 else (args[1] if len(args) > 1 else None)
                return CallModel(dget, 'dict.get')
            if attr == 'setdefault':
                def dsd(e, args, kwargs, node, obj=obj):
                    i = obj.find(args[0])
                    if i >= 0:
                        return obj.pairs[i][1]
                    obj.pairs.append((args[0], args[1] if len(args) > 1 else None))
                    return obj.pairs[-1][1]
                return CallModel(dsd, 'dict.setdefault')
            raise Refuse('dict method ' + attr)
        if is_sym(obj) or isinstance(obj, (SymList, SymMem, TabRef)):
            if isinstance(obj, SymList) and attr in ('append', 'extend', 'insert', 'pop', 'index', 'count', 'copy', 'reverse'):
                return ('listmethod', obj, attr)
            raise Refuse('attribute %s of %s' % (attr, type(obj).__name__))
        key = (id(obj), attr)
        if key in self.attr_overrides:
            return self._override(self.attr_overrides[key])
        try:
            return self.wrap(getattr(obj, attr))
        except AttributeError as ex:
            raise _Raise(ex)

    def _override(self, o):
        if callable(o) and getattr(o, '_pyvc_lazy', False):
            return o(self)
        return o

    def ev_call(self, e):
        f = self.ev(e.func)
        args = []
        for a in e.args:
            if isinstance(a, ast.Starred):
                v = self.ev(a.value)
                if isinstance(v, SymList):
                    v = v.items
                if not isinstance(v, (tuple, list)):
                    raise Refuse('starred call argument')
                args.extend(v)
            else:
                args.append(self.ev(a))
        kwargs = {}
        for k in e.keywords:
            if k.arg is None:
                raise Refuse('**kwargs call')
            kwargs[k.arg] = self.ev(k.value)
        return self.call(f, args, kwargs, e)

    def call(self, f, args, kwargs, node):
        if isinstance(f, Unknown):
            return self.unknown_call(f, args, kwargs, node)
        if isinstance(f, CallModel):
            return f.handler(self, args, kwargs, node)
        if isinstance(f, ClosureModel):
            return self.call_closure(f, args, kwargs)
        if isinstance(f, BoundModelMethod):
            h = self.call_models.get(id(f.fn))
            if h is not None:
                return h(self, [f.obj] + list(args), kwargs, node)
            if self.inline_ok is not None and self.inline_ok(f.fn):
                return self.call_function(f.fn, [f.obj] + list(args), kwargs, selfobj=f.obj)
            raise Refuse('call of %s on a model object (no contract, not inlinable)' % f.fn.__qualname__)
        if isinstance(f, tuple) and f and f[0] == 'listmethod':
            return self.list_method(f[1], f[2], args, node)
        h = self.call_models.get(id(f))
        if h is None and isinstance(f, types.MethodType):
            h = self.call_models.get(id(f.__func__))
            if h is not None:
                return h(self, [self.wrap(f.__self__)] + list(args), kwargs, node)
        if h is not None:
            return h(self, args, kwargs, node)
        sym_args = any(_is_model(a) for a in args) or any(_is_model(a) for a in kwargs.values())
        if isinstance(f, (types.FunctionType, types.MethodType)):
            fn = f.__func__ if isinstance(f, types.MethodType) else f
            if self.inline_ok is not None and self.inline_ok(fn):
                return self.call_function(f, args, kwargs)
            if not sym_args and not (isinstance(f, types.MethodType) and _is_model(self.wrap(f.__self__))):
                # fully concrete call of real code: let CPython do it (no side effects on models possible)
                if self.concrete_call_ok(f):
                    return self.wrap(f(*args, **kwargs))
            if self.unknown_ok:
                return self.unknown_call(f, args, kwargs, node)
            raise Refuse('call of %s (no contract, not inlinable)' % getattr(f, '__qualname__', f))
        if isinstance(f, type) or isinstance(f, (types.BuiltinFunctionType, types.BuiltinMethodType, types.MethodDescriptorType)) or callable(f):
            name = getattr(f, '__name__', '')
            if not sym_args:
                if isinstance(f, type) and issubclass(f, BaseException):
                    return f(*args, **kwargs)
                if name in _SAFE_BUILTINS or isinstance(f, (types.BuiltinMethodType, types.MethodDescriptorType, types.BuiltinFunctionType)) or isinstance(f, type):
                    try:
                        return self.wrap(f(*[_unlist(a) for a in args], **kwargs))
                    except Exception as ex:   # the real callable raised: that is the program's behaviour
                        raise _Raise(ex)
            return self.sym_builtin(f, name, args, kwargs, node)
        raise Refuse('call of ' + repr(f)[:60])

    def concrete_call_ok(self, f):
        return True

    def unknown_call(self, f, args, kwargs, node):
        return UNK

    def list_method(self, lst, meth, args, node):
        if meth == 'append':
            lst.items.append(args[0])
            return None
        if meth == 'extend':
            v = args[0]
            if isinstance(v, SymList):
                v = v.items
            lst.items.extend(v)
            return None
        if meth == 'insert' and isinstance(args[0], int):
            lst.items.insert(args[0], args[1])
            return None
        if meth == 'pop' and (not args or isinstance(args[0], int)):
            return lst.items.pop(*args)
        if meth == 'copy':
            return SymList(lst.items)
        if meth == 'reverse' and not args:
            lst.items.reverse()
            return None
        raise Refuse('list method ' + meth)

    def sym_builtin(self, f, name, args, kwargs, node):
        if name == 'hasattr' and len(args) == 2 and isinstance(args[1], str):
            o, a_ = args
            if isinstance(o, ObjModel):
                if a_ in o.attrs:
                    return True
                if o.real is not None:
                    return hasattr(o.real, a_)
                if o.cls is not None:
                    # class attributes are known; an instance attribute set elsewhere may or may not exist
                    return True if hasattr(o.cls, a_) else (UNK if self.unknown_ok else self._refuse('hasattr on a partially modelled object'))
                return False
            if isinstance(o, (SymMem, SymList)):
                return hasattr(list, a_)
        if name == 'len' and len(args) == 1:
            a = args[0]
            if isinstance(a, SymList):
                return len(a.items)
            if isinstance(a, (tuple, list)):
                return len(a)
            if isinstance(a, SymMem):
                return a.size
            if isinstance(a, TabRef):
                return a.dims[len(a.idx)]
            if isinstance(a, ObjModel) and a.real is not None:
                return len(a.real)
        if name == 'isinstance' and len(args) == 2:
            a, t = args
            if isinstance(a, (SV,)):
                return issubclass(int, t) if isinstance(t, type) else any(issubclass(int, x) for x in t)
            if isinstance(a, SB):
                return issubclass(bool, t) if isinstance(t, type) else any(issubclass(bool, x) for x in t)
            if isinstance(a, SymList):
                return issubclass(list, t) if isinstance(t, type) else any(issubclass(list, x) for x in t)
            if isinstance(a, ObjModel) and a.cls is not None:
                return issubclass(a.cls, t)
            if isinstance(a, SymMem):
                return issubclass(list, t) if isinstance(t, type) else any(issubclass(list, x) for x in t)
        if name in ('all', 'any') and len(args) == 1 and isinstance(args[0], BankTuple):
            return True
        if name == 'sum' and len(args) in (1, 2):
            seq = args[0].items if isinstance(args[0], SymList) else args[0]
            if isinstance(seq, (tuple, list)) and all(isinstance(x, (int, SV, SB)) for x in seq):
                acc = args[1] if len(args) == 2 else 0
                for x in seq:
                    acc = binop('+', acc, x)
                return acc
        if name in ('min', 'max') and args and all(isinstance(a, (int, SV, SB)) for a in args) and not kwargs:
            res = args[0]
            for a in args[1:]:
                c = cmpop('<' if name == 'min' else '>', a, res)
                res = ite(c, a, res)
            return res
        if name == 'abs' and len(args) == 1 and isinstance(args[0], SV):
            return ite(cmpop('<', args[0], 0), binop('-', 0, args[0]), args[0])
        if name == 'int' and len(args) == 1 and isinstance(args[0], (SV, SB)):
            return sv(args[0])
        if name == 'bool' and len(args) == 1 and isinstance(args[0], (SV, SB)):
            return truth(args[0])
        if name == 'tuple' and len(args) == 1 and isinstance(args[0], (SymList, tuple)):
            return tuple(args[0].items) if isinstance(args[0], SymList) else args[0]
        if name == 'list' and len(args) == 1 and isinstance(args[0], SymMem):
            # a copy of an array-modelled list: same contents, later stores go to the copy
            return args[0]
        if name in ('list', 'bytearray') and len(args) == 1 and isinstance(args[0], (SymList, tuple)):
            return SymList(args[0].items if isinstance(args[0], SymList) else args[0])
        if name == 'list' and len(args) == 1 and isinstance(args[0], list):
            return SymList(list(args[0]))
        if name == 'range' and self.unknown_ok:
            return UNK
        if self.unknown_ok:
            return UNK
        raise Refuse('builtin %s on symbolic arguments' % name)


class _Unbound:
    def __init__(self, name, when, value):
        self.name = name
        self.when = when   # SB: condition under which the name is unbound
        self.value = value


class ClosureModel:
    """A function defined inside a function being executed: its free variables
    are looked up in the defining frame."""

    def __init__(self, node, frame):
        self.node = node
        self.frame = frame


class BoundModelMethod:
    def __init__(self, fn, obj):
        self.fn = fn
        self.obj = obj


class PhysHeap:
    """Physical storage of a set of equally sized lists ('banks'): one SMT array
    indexed by bank_id * bank_size + offset."""

    def __init__(self, name='phys', bank_size=0x4000):
        self.bank_size = bank_size
        self.arr = z3.Array(name, z3.BitVecSort(poly.W), z3.BitVecSort(poly.W))
        self.arr0 = self.arr
        self.writes = []


class BankRef:
    """Reference to one physical bank (object identity of a list = integer id)."""

    def __init__(self, heap, bid):
        self.heap = heap
        self.bid = bid

    def _ite_(self, c, other, swapped=False):
        if not isinstance(other, BankRef) or other.heap is not self.heap:
            raise Refuse('merging a bank reference with another kind of value')
        a, b = (other.bid, self.bid) if swapped else (self.bid, other.bid)
        return BankRef(self.heap, ite(c, a, b))


class BankTuple:
    """A tuple/list of bank references with consecutive ids."""

    def __init__(self, heap, base, count):
        self.heap = heap
        self.base = base
        self.count = count


class DictModel:
    """dict whose keys may contain symbolic values: keys are compared
    structurally by object identity of their symbolic parts."""

    def __init__(self, name='dict'):
        self.name = name
        self.pairs = []

    @staticmethod
    def _same(a, b):
        if a is b:
            return True
        if isinstance(a, tuple) and isinstance(b, tuple) and len(a) == len(b):
            return all(DictModel._same(x, y) for x, y in zip(a, b))
        if is_sym(a) or is_sym(b):
            return False
        try:
            return a == b
        except Exception:
            return False

    def find(self, key):
        for i, (k, v) in enumerate(self.pairs):
            if self._same(k, key):
                return i
        return -1


class TrackedDict:
    """A dictionary whose *key set discipline* is under contract: contents are
    unknown, every insertion / deletion site calls back (site obligations).
    `members` holds key terms known to be present."""

    def __init__(self, name, on_insert=None, on_delete=None):
        self.name = name
        self.on_insert = on_insert
        self.on_delete = on_delete
        self.members = []

    def known(self, key):
        if isinstance(key, int):
            return any(isinstance(m, int) and m == key for m in self.members)
        if isinstance(key, SV):
            return any(isinstance(m, SV) and m.t.eq(key.t) for m in self.members)
        return False

    def forget(self, key=None):
        """After a deletion (or a havoc) nothing is known about other terms that may alias the key."""
        self.members = []


class CallModel:
    def __init__(self, handler, name='callmodel'):
        self.handler = handler
        self.name = name


def _is_model(a):
    if is_sym(a) or isinstance(a, (SymList, SymMem, TabRef, ObjModel, Unknown, CallModel, BankRef, BankTuple, BoundModelMethod, DictModel, TrackedDict)):
        return True
    if isinstance(a, (tuple, list)):
        return any(_is_model(x) for x in a)
    return False


def _unlist(a):
    if isinstance(a, SymList):
        return list(a.items)
    return a


def lazy(fn):
    fn._pyvc_lazy = True
    return fn
