"""Loops with a symbolic trip count: inductive-invariant treatment.

havoc_loop(...) builds a handler for Engine.loop_invariants[(qualname, ordinal)]:

  1. optionally peel the first iteration(s) (executed like straight-line code);
  2. prove the invariant at the loop head (inv.establish);
  3. havoc every name the loop assigns (fresh symbolic ints / unknowns) and any
     tracked model the caller names, assume the invariant;
  4. fork: (a) loop condition false -> continue after the loop;
           (b) one arbitrary iteration: body executed once, all site obligations
               inside are generated for an arbitrary iteration, the invariant is
               proved again (inv.preserve) and the path is cut.
     A `break` inside the arbitrary iteration continues after the loop.

Termination is not proved.
"""
import ast

import z3

from . import poly
from .poly import SV, SB, Refuse, truth, and_, not_, cmpop
from .engine import UNK, Unknown, _Unbound, _Break, _Continue, PathEnd, SymList

BIG = 1 << 36


def assigned_names(stmts):
    out = []
    for s in stmts:
        for n in ast.walk(s):
            if isinstance(n, ast.Name) and isinstance(n.ctx, ast.Store) and n.id not in out:
                out.append(n.id)
    return out


def havoc_loop(invariant=None, peel=0, int_names=None, on_havoc=None, int_range=(-BIG, BIG)):
    """invariant(engine, locals) -> SB/bool ; int_names: names to havoc as ints even
    if currently unbound/unknown; on_havoc(engine): forget facts about tracked models."""

    def handler(eng, node):
        fr = eng.frames[-1]
        is_for = isinstance(node, ast.For)
        body = node.body

        def head_condition(fresh_iter=True):
            """(condition to enter the body, binder for the loop variable)"""
            if not is_for:
                return truth(eng.ev_cond(node.test)), None
            it = node.iter
            # only `for x in range(a, b)` / range(b) with symbolic bounds
            if not (isinstance(it, ast.Call) and isinstance(it.func, ast.Name) and it.func.id == 'range' and len(it.args) in (1, 2)):
                raise Refuse('for loop over a symbolic iterable that is not range(a, b)')
            lo = eng.ev(it.args[0]) if len(it.args) == 2 else 0
            hi = eng.ev(it.args[-1])
            x = eng.fresh('iter', *int_range)
            return and_(cmpop('>=', x, lo), cmpop('<', x, hi)), x

        def check_inv(kind):
            if invariant is not None:
                eng.oblige(kind, invariant(eng, fr.loc), node)

        # 1. peeling
        for k in range(peel):
            if is_for:
                it = node.iter
                lo = eng.ev(it.args[0]) if len(it.args) == 2 else 0
                hi = eng.ev(it.args[-1])
                c = truth(cmpop('<', lo, hi))
                if not eng.decide(c):
                    return
                eng.assign(node.target, lo if k == 0 else None)
                if k > 0:
                    raise Refuse('peeling more than one iteration of a for loop')
            else:
                c = truth(eng.ev_cond(node.test))
                if not eng.decide(c):
                    return
            try:
                eng.exec_block(body)
            except _Break:
                return
            except _Continue:
                pass
            if is_for:
                # the remaining iterations run over range(lo + 1, hi): handled below by havoc (a is arbitrary in range)
                pass
        # 2. establish
        check_inv('inv.establish')
        # 3. havoc
        names = assigned_names(body)
        if is_for:
            names += [n for n in assigned_names([ast.Assign(targets=[node.target], value=ast.Constant(0))]) if n not in names]
        for nm in names:
            cur = fr.loc.get(nm, None)
            bound = nm in fr.loc and not isinstance(cur, _Unbound)
            if (int_names and nm in int_names) or isinstance(cur, (int, SV)) and not isinstance(cur, bool):
                val = eng.fresh('h_' + nm, *int_range)
            else:
                val = UNK
            if bound:
                fr.loc[nm] = val
            else:
                fr.loc[nm] = _Unbound(nm, SB(z3.Bool('unbound_%s!%d' % (nm, eng.fresh_n))), val)
                eng.fresh_n += 1
        if on_havoc is not None:
            on_havoc(eng)
        if invariant is not None:
            eng.assume(invariant(eng, fr.loc))
        # 4. fork
        c, x = head_condition()
        if isinstance(c, Unknown):
            raise Refuse('loop condition is unknown')
        if eng.decide(c):
            if x is not None:
                eng.assign(node.target, x)
            try:
                eng.exec_block(body)
            except _Break:
                return          # leaves the loop: continue after it
            except _Continue:
                pass
            check_inv('inv.preserve')
            raise PathEnd()
        # loop exits
        eng.exec_block(node.orelse)
        return

    return handler
