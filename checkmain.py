"""Entry point of every registered check: ./check <id> [--tier quick|thorough] [--replay file]"""
import argparse
import importlib
import os
import sys
import traceback

PROPS = {
    'C05': 'props.c05', 'C06': 'props.c06', 'C07': 'props.c07', 'C08': 'props.c08', 'C19': 'props.c19',
    'C02': 'props.c02', 'C09': 'props.c09', 'C10': 'props.c10', 'C11': 'props.c11', 'C12': 'props.c12',
    'C13': 'props.c13', 'C14': 'props.c14', 'C15': 'props.c15', 'C01': 'props.c01',
}


def main():
    ap = argparse.ArgumentParser()
    ap.add_argument('prop')
    ap.add_argument('--tier', default=os.environ.get('VERIF_TIER', 'quick'), choices=('quick', 'thorough'))
    ap.add_argument('--replay')
    a = ap.parse_args()
    if a.prop not in PROPS:
        print('unknown property %s' % a.prop)
        return 3
    try:
        mod = importlib.import_module(PROPS[a.prop])
        if a.replay:
            return mod.replay(a.replay)
        return mod.run(a.tier)
    except SystemExit:
        raise
    except Exception:
        traceback.print_exc()
        print('CHECKER-ERROR: %s crashed (this is not a verdict about the property)' % a.prop)
        return 3


if __name__ == '__main__':
    sys.exit(main())
